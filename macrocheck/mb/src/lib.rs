#![allow(warnings)]
