#![allow(warnings)]
