use rasn_compiler::prelude::*;

fn cfg() -> RasnConfig {
    RasnConfig::default()
}

fn gen(config: RasnConfig, asn: &str) -> (String, Vec<String>) {
    let res = Compiler::<RasnBackend, _>::new_with_config(config)
        .add_asn_literal(asn)
        .compile_to_string()
        .expect("compiles");
    (
        res.generated,
        res.warnings.iter().map(|w| format!("{w:?}")).collect(),
    )
}


/// All whitespace removed: the comparison is independent of the formatting.
fn squeeze(s: &str) -> String {
    s.chars().filter(|c| !c.is_whitespace()).collect()
}

/// The payload types `T` of all `impl From<T> for <name>` of the bindings, without whitespace.
fn from_payloads(bindings: &str, name: &str) -> Vec<String> {
    let squeezed = squeeze(bindings);
    let suffix = format!(">for{name}{{");
    let mut payloads = vec![];
    let mut rest = squeezed.as_str();
    while let Some(start) = rest.find("implFrom<") {
        rest = &rest[start + "implFrom<".len()..];
        let end = rest.find('{').unwrap();
        let header = &rest[..=end];
        if let Some(payload) = header.strip_suffix(suffix.as_str()) {
            payloads.push(payload.to_owned());
        }
    }
    payloads
}

/// The derive lists (one per `#[derive(..)]` attribute) that precede the item `item_header`
/// (e.g. `pub struct A`), each as the list of derived names.
fn derives_of(bindings: &str, item_header: &str) -> Vec<String> {
    let squeezed = squeeze(bindings);
    let header = squeeze(item_header);
    let end = squeezed.find(&header).expect("item is generated");
    // the attributes of the item follow the end of the previous item
    let start = squeezed[..end]
        .rfind([';', '}', '{'])
        .map_or(0, |i| i + 1);
    let attributes = &squeezed[start..end];
    let mut derives = vec![];
    let mut rest = attributes;
    while let Some(i) = rest.find("#[derive(") {
        rest = &rest[i + "#[derive(".len()..];
        let close = rest.find(")]").unwrap();
        derives.extend(
            rest[..close]
                .split(',')
                .filter(|d| !d.is_empty())
                .map(str::to_owned),
        );
        rest = &rest[close..];
    }
    derives
}

// ---------------------------------------------------------------------------------------------
// generate_from_impls
// ---------------------------------------------------------------------------------------------

/// `a Foo` and `b ModA.Foo` carry the same payload type. The payload type is not unique within
/// the CHOICE, so there must not be a `From` impl for it (two are generated, which conflict).
#[test]
fn from_impls_for_local_and_module_qualified_reference_to_the_same_type() {
    let asn = r#"
        ModA DEFINITIONS AUTOMATIC TAGS ::= BEGIN
            EXPORTS ALL;
            Foo ::= INTEGER (0..7)
        END
        ModB DEFINITIONS AUTOMATIC TAGS ::= BEGIN
            IMPORTS Foo FROM ModA;
            C ::= CHOICE { a Foo, b ModA.Foo }
        END
    "#;
    let (bindings, warnings) = gen(
        RasnConfig {
            generate_from_impls: true,
            ..cfg()
        },
        asn,
    );
    assert!(warnings.is_empty(), "{warnings:?}");
    // both alternatives wrap mod_a::Foo
    assert!(squeeze(&bindings).contains("a(Foo),b(super::mod_a::Foo),"), "{bindings}");
    let payloads = from_payloads(&bindings, "C");
    // the type behind a path is the last segment here: `Foo` is imported from `mod_a`
    let mut resolved: Vec<&str> = payloads
        .iter()
        .map(|p| p.rsplit("::").next().unwrap())
        .collect();
    resolved.sort();
    let before = resolved.len();
    resolved.dedup();
    assert_eq!(
        before,
        resolved.len(),
        "conflicting From impls for the same payload type: {payloads:?}\n{bindings}"
    );
}

// ---------------------------------------------------------------------------------------------
// type_annotations
// ---------------------------------------------------------------------------------------------

/// An element of `type_annotations` that starts with a derive attribute is reduced to the
/// derive: everything after the closing bracket of the derive is silently discarded.
#[test]
fn type_annotation_after_a_derive_in_the_same_element_is_kept() {
    let asn = "M DEFINITIONS AUTOMATIC TAGS ::= BEGIN A ::= INTEGER (0..7) END";
    let (bindings, _) = gen(
        RasnConfig {
            type_annotations: vec![
                "#[derive(Serialize)] #[serde(rename_all = \"camelCase\")]".into(),
            ],
            ..cfg()
        },
        asn,
    );
    assert!(derives_of(&bindings, "pub struct A").contains(&"Serialize".to_owned()));
    assert!(
        squeeze(&bindings).contains("#[serde(rename_all=\"camelCase\")]"),
        "the non-derive attribute was dropped:\n{bindings}"
    );
}

/// The same with two derive attributes in one element (e.g. a multi-line string).
#[test]
fn second_derive_attribute_in_the_same_element_is_kept() {
    let asn = "M DEFINITIONS AUTOMATIC TAGS ::= BEGIN A ::= INTEGER (0..7) END";
    let (bindings, _) = gen(
        RasnConfig {
            type_annotations: vec!["#[derive(Serialize)]\n#[derive(Deserialize)]".into()],
            ..cfg()
        },
        asn,
    );
    let derives = derives_of(&bindings, "pub struct A");
    assert!(derives.contains(&"Serialize".to_owned()), "{derives:?}");
    assert!(
        derives.contains(&"Deserialize".to_owned()),
        "the second derive was dropped: {derives:?}\n{bindings}"
    );
}

/// Derive lists that are valid Rust, but that the hand-written derive parser does not accept
/// (trailing comma, path, underscore) are emitted verbatim next to the required derives:
/// the derives that rasn needs are then listed twice, which does not compile (E0119).
#[test]
fn derives_listed_twice_are_merged_for_every_valid_derive_list() {
    let asn = "M DEFINITIONS AUTOMATIC TAGS ::= BEGIN A ::= INTEGER (0..7) END";
    for annotation in [
        "#[derive(Debug, Clone)]",
        "#[derive(Debug, Clone,)]",
        "#[derive(Debug, Clone, serde::Serialize)]",
        "#[derive(Debug, Clone, Serialize_repr)]",
    ] {
        let (bindings, _) = gen(
            RasnConfig {
                type_annotations: vec![annotation.into()],
                ..cfg()
            },
            asn,
        );
        let derives = derives_of(&bindings, "pub struct A");
        for required in ["AsnType", "Debug", "Clone", "Decode", "Encode", "PartialEq"] {
            assert_eq!(
                derives.iter().filter(|d| d.as_str() == required).count(),
                1,
                "{annotation}: {required} is derived {derives:?}\n{bindings}"
            );
        }
    }
}

/// `type_annotations` are "added to all generated rust types": the enums that are generated for
/// the open type fields of an information object set (opaque_open_types: false) do not get them.
#[test]
fn type_annotations_are_added_to_the_types_of_information_object_sets() {
    let asn = r#"
        M DEFINITIONS AUTOMATIC TAGS ::= BEGIN
            CLS ::= CLASS { &id INTEGER UNIQUE, &Type } WITH SYNTAX { &Type IDENTIFIED BY &id }
            Objs CLS ::= { {BOOLEAN IDENTIFIED BY 1} | {INTEGER (0..7) IDENTIFIED BY 2} }
            T ::= SEQUENCE { id CLS.&id ({Objs}), val CLS.&Type ({Objs}{@id}) }
        END
    "#;
    let (bindings, warnings) = gen(
        RasnConfig {
            opaque_open_types: false,
            type_annotations: vec!["#[derive(Zork)]".into(), "#[zork]".into()],
            ..cfg()
        },
        asn,
    );
    assert!(warnings.is_empty(), "{warnings:?}");
    let squeezed = squeeze(&bindings);
    let types = squeezed.matches("pubstruct").count() + squeezed.matches("pubenum").count();
    assert_eq!(types, 3, "{bindings}");
    assert_eq!(
        squeezed.matches("#[zork]").count(),
        types,
        "not every type carries the attribute:\n{bindings}"
    );
    assert!(
        derives_of(&bindings, "pub enum Objs_Type").contains(&"Zork".to_owned()),
        "{bindings}"
    );
}

// ---------------------------------------------------------------------------------------------
// custom_imports
// ---------------------------------------------------------------------------------------------

/// `custom_imports` only adds use declarations: without them the bindings are those of the
/// default configuration. The entries are pasted unchecked, so an entry can add any item.
#[test]
fn custom_imports_add_nothing_but_use_declarations() {
    let asn = "M DEFINITIONS AUTOMATIC TAGS ::= BEGIN A ::= INTEGER (0..7) END";
    let (base, _) = gen(cfg(), asn);
    let (bindings, _) = gen(
        RasnConfig {
            custom_imports: vec!["core::fmt::Debug; pub struct A(pub u64)".into()],
            ..cfg()
        },
        asn,
    );
    let without_use = |s: &str| {
        s.lines()
            .filter(|l| !l.trim_start().starts_with("use "))
            .map(str::trim)
            .collect::<Vec<_>>()
            .join("\n")
    };
    assert_eq!(without_use(&base), without_use(&bindings));
}

// ---------------------------------------------------------------------------------------------
// no_std_compliant_bindings
// ---------------------------------------------------------------------------------------------

/// The bindings for a `no_std` environment still name `std`: the `Default` impl of a SEQUENCE
/// whose components all have a DEFAULT is `impl std::default::Default`.
#[test]
fn no_std_compliant_bindings_do_not_name_std() {
    let asn = "M DEFINITIONS AUTOMATIC TAGS ::= BEGIN S ::= SEQUENCE { a INTEGER (0..7) DEFAULT 1 } END";
    let (bindings, warnings) = gen(
        RasnConfig {
            no_std_compliant_bindings: true,
            ..cfg()
        },
        asn,
    );
    assert!(warnings.is_empty(), "{warnings:?}");
    assert!(squeeze(&bindings).contains("DefaultforS{"), "{bindings}");
    assert!(
        !squeeze(&bindings).contains("std::"),
        "std is not available in a no_std crate:\n{bindings}"
    );
}

// ---------------------------------------------------------------------------------------------
// opaque_open_types (the fourth boolean option): type definitions are those of the default
// ---------------------------------------------------------------------------------------------

fn compiles_without_panic(config: RasnConfig, asn: &'static str) -> Option<(String, Vec<String>)> {
    std::panic::catch_unwind(move || gen(config, asn)).ok()
}

/// A table constraint with an inline object set: `opaque_open_types: false` hits a `todo!()`.
#[test]
fn non_opaque_open_types_with_inline_object_set_in_table_constraint() {
    let asn = r#"
        M DEFINITIONS AUTOMATIC TAGS ::= BEGIN
            CLS ::= CLASS { &id INTEGER UNIQUE, &Type } WITH SYNTAX { &Type IDENTIFIED BY &id }
            S ::= SEQUENCE {
                id CLS.&id ({ {BOOLEAN IDENTIFIED BY 1} }),
                val CLS.&Type ({ {BOOLEAN IDENTIFIED BY 1} }{@id})
            }
        END
    "#;
    let (base, _) = gen(cfg(), asn);
    assert!(squeeze(&base).contains("pubstructS{pubid:Integer,pubval:Any,}"), "{base}");
    let non_opaque = compiles_without_panic(
        RasnConfig {
            opaque_open_types: false,
            ..cfg()
        },
        asn,
    );
    let (bindings, _) = non_opaque.expect("the compiler does not panic");
    assert!(squeeze(&bindings).contains("pubstructS{pubid:Integer,pubval:Any,}"), "{bindings}");
}

/// A type of an information object set with a constraint that has no PER-visible range:
/// the default configuration ignores the object set, `opaque_open_types: false` unwraps an Err.
#[test]
fn non_opaque_open_types_with_unsatisfiable_constraint_in_object_set() {
    let asn = r#"
        M DEFINITIONS AUTOMATIC TAGS ::= BEGIN
            CLS ::= CLASS { &id INTEGER UNIQUE, &Type } WITH SYNTAX { &Type IDENTIFIED BY &id }
            Objs CLS ::= { {INTEGER (1 ^ 2) IDENTIFIED BY 1} }
            A ::= BOOLEAN
        END
    "#;
    let (base, _) = gen(cfg(), asn);
    assert!(squeeze(&base).contains("pubstructA(pubbool);"), "{base}");
    let non_opaque = compiles_without_panic(
        RasnConfig {
            opaque_open_types: false,
            ..cfg()
        },
        asn,
    );
    let (bindings, _) = non_opaque.expect("the compiler does not panic");
    assert!(squeeze(&bindings).contains("pubstructA(pubbool);"), "{bindings}");
}

/// A table constraint without component relation (`{Objs}` instead of `{Objs}{@id}`): the decode
/// method that `opaque_open_types: false` adds is not Rust (`&self.)`), so that the whole module
/// is returned unformatted.
#[test]
fn non_opaque_open_types_with_table_constraint_without_component_relation() {
    let asn = r#"
        M DEFINITIONS AUTOMATIC TAGS ::= BEGIN
            CLS ::= CLASS { &id INTEGER UNIQUE, &Type } WITH SYNTAX { &Type IDENTIFIED BY &id }
            Objs CLS ::= { {BOOLEAN IDENTIFIED BY 1} | {INTEGER IDENTIFIED BY 2} }
            S ::= SEQUENCE { id CLS.&id ({Objs}), val CLS.&Type ({Objs}) }
        END
    "#;
    let (bindings, warnings) = gen(
        RasnConfig {
            opaque_open_types: false,
            ..cfg()
        },
        asn,
    );
    assert!(warnings.is_empty(), "{warnings:?}");
    assert!(
        !squeeze(&bindings).contains("&self.)"),
        "the decode method is not valid Rust:\n{bindings}"
    );
}
