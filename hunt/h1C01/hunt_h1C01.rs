//! Property C01: whenever compiling a set of ASN.1 modules with the rasn backend returns `Ok` and
//! reports no warnings, the generated text type-checks as a library crate whose only dependency
//! is rasn (plus lazy_static for no_std bindings).
//!
//! Every test compiles a minimal, valid ASN.1 input, and - if the compiler claims success without
//! warnings - writes the bindings into a throw-away crate and runs `cargo check --offline` on it.

use std::{
    fs,
    path::{Path, PathBuf},
    process::Command,
};

use rasn_compiler::prelude::*;

fn workspace_root() -> PathBuf {
    Path::new(env!("CARGO_MANIFEST_DIR"))
        .parent()
        .unwrap()
        .to_path_buf()
}

fn scratch_base() -> PathBuf {
    std::env::var_os("CARGO_TARGET_DIR")
        .map(PathBuf::from)
        .unwrap_or_else(|| workspace_root().join("target"))
        .join("hunt_h1C01")
}

/// Type-checks `generated` as the `lib.rs` of a crate that depends on rasn (and lazy_static) only.
fn type_check(name: &str, generated: &str) -> Result<(), String> {
    let base = scratch_base();
    let krate = base.join(name);
    fs::create_dir_all(krate.join("src")).unwrap();
    fs::write(
        krate.join("Cargo.toml"),
        format!(
            "[package]\nname = \"hunt_{name}\"\nversion = \"0.0.0\"\nedition = \"2021\"\n\n[workspace]\n\n[dependencies]\nrasn = \"=0.27.0\"\nlazy_static = \"1\"\n"
        ),
    )
    .unwrap();
    // pin the dependency versions of the workspace
    fs::copy(workspace_root().join("Cargo.lock"), krate.join("Cargo.lock")).unwrap();
    fs::write(krate.join("src/lib.rs"), generated).unwrap();
    let cargo = std::env::var("CARGO").unwrap_or_else(|_| "cargo".into());
    let out = Command::new(cargo)
        .args(["check", "--offline", "--quiet", "--message-format", "short"])
        .current_dir(&krate)
        .env("CARGO_TARGET_DIR", base.join("target"))
        .env("CARGO_NET_OFFLINE", "true")
        .env_remove("RUSTFLAGS")
        .output()
        .expect("cargo can be run");
    if out.status.success() {
        Ok(())
    } else {
        Err(String::from_utf8_lossy(&out.stderr)
            .lines()
            .filter(|l| l.contains("error"))
            .take(8)
            .collect::<Vec<_>>()
            .join("\n"))
    }
}

/// Asserts property C01 for one set of ASN.1 modules.
fn assert_c01(name: &str, config: RasnConfig, modules: &[&str]) {
    let mut compiler =
        Compiler::<RasnBackend, _>::new_with_config(config).add_asn_literal(modules[0]);
    for m in &modules[1..] {
        compiler = compiler.add_asn_literal(*m);
    }
    let result = match compiler.compile_to_string() {
        Ok(r) => r,
        Err(e) => {
            println!("{name}: compiler returned Err ({e}), the property holds vacuously");
            return;
        }
    };
    if !result.warnings.is_empty() {
        println!(
            "{name}: compiler reported warnings {:?}, the property holds vacuously",
            result
                .warnings
                .iter()
                .map(|w| w.to_string())
                .collect::<Vec<_>>()
        );
        return;
    }
    if let Err(errors) = type_check(name, &result.generated) {
        panic!(
            "{name}: Ok without warnings, but the bindings do not type-check:\n{errors}\n--- bindings ---\n{}",
            result.generated
        );
    }
}

fn module(body: &str) -> String {
    format!("Hunt-Module DEFINITIONS AUTOMATIC TAGS ::= BEGIN\n{body}\nEND")
}

#[test]
fn sanity() {
    assert_c01(
        "sanity",
        RasnConfig::default(),
        &[
            &module(
                r#"
            IMPORTS Flag FROM Other-Module;
            Msg ::= SEQUENCE { f Flag, n INTEGER (0..255) DEFAULT 5, next Msg OPTIONAL, ..., [[ e ENUMERATED { x, y } ]] }
            Ch ::= CHOICE { a SEQUENCE OF INTEGER, b SET { c BOOLEAN } }
            limit INTEGER ::= 7
            "#,
            ),
            "Other-Module DEFINITIONS AUTOMATIC TAGS ::= BEGIN Flag ::= BOOLEAN END",
        ],
    );
    // ... and the harness does notice bindings that do not type-check
    assert!(type_check("sanity_negative", "pub struct A(pub Undeclared);").is_err());
}

/// The validator keys all top-level definitions of all modules by their bare name
/// (`Validator::new`), so of two modules that define a type of the same name, one loses its
/// definition. Here `B-Mod` vanishes from the output altogether, while `A-Mod` still says
/// `use super::b_mod::Flag;`.
#[test]
fn same_type_name_in_two_modules() {
    assert_c01(
        "same_type_name_in_two_modules",
        RasnConfig::default(),
        &[
            "A-Mod DEFINITIONS AUTOMATIC TAGS ::= BEGIN IMPORTS Flag FROM B-Mod; Msg ::= SEQUENCE { f Flag } END",
            "B-Mod DEFINITIONS AUTOMATIC TAGS ::= BEGIN Flag ::= BOOLEAN END",
            "C-Mod DEFINITIONS AUTOMATIC TAGS ::= BEGIN Flag ::= INTEGER END",
        ],
    );
}

/// X.501 UsefulDefinitions: `ID ::= OBJECT IDENTIFIER  ds ID ::= {joint-iso-itu-t ds(5)}
/// module ID ::= {ds 1}`. The referenced value is spliced in as `&***DS`, which only works when
/// `DS` is a `LazyLock<ObjectIdentifier>`, not a `LazyLock<ID>` (E0614).
#[test]
fn oid_value_refers_to_value_of_named_oid_type() {
    assert_c01(
        "oid_value_refers_to_value_of_named_oid_type",
        RasnConfig::default(),
        &[&module(
            r#"
            ID ::= OBJECT IDENTIFIER
            ds ID ::= { joint-iso-itu-t ds(5) }
            mod ID ::= { ds 1 }
            "#,
        )],
    );
}

/// A value of a fixed-size OCTET STRING type: the type becomes `FixedOctetString<2>`, the value
/// is built as an `OctetString` (E0308). Same for BIT STRING (SIZE(n)) (E0277).
#[test]
fn value_of_fixed_size_octet_string_type() {
    assert_c01(
        "value_of_fixed_size_octet_string_type",
        RasnConfig::default(),
        &[&module(
            r#"
            Key ::= OCTET STRING (SIZE(2))
            zero Key ::= '0000'H
            "#,
        )],
    );
}

/// Recursion through an extension addition group: the group member is boxed
/// (`Option<Box<NodeExtGroupNext>>`), but rasn's `extension_addition_group` needs a
/// `Constructed` type, which `Box<_>` is not (E0277).
#[test]
fn recursion_through_extension_addition_group() {
    assert_c01(
        "recursion_through_extension_addition_group",
        RasnConfig::default(),
        &[&module(
            "Node ::= SEQUENCE { x INTEGER, ..., [[ next Node OPTIONAL ]] }",
        )],
    );
}

/// `opaque_open_types: false`: the helper enum of every information object set gets
/// `pub fn encode<E: Encoder>(..)`, but rasn 0.27's `Encoder` has a lifetime parameter (E0106).
#[test]
fn non_opaque_open_types_object_set() {
    assert_c01(
        "non_opaque_open_types_object_set",
        RasnConfig {
            opaque_open_types: false,
            ..Default::default()
        },
        &[&module(
            r#"
            MY-CLASS ::= CLASS { &id INTEGER UNIQUE, &Type } WITH SYNTAX { &Type IDENTIFIED BY &id }
            MySet MY-CLASS ::= { { BOOLEAN IDENTIFIED BY 1 } }
            Msg ::= SEQUENCE { id MY-CLASS.&id ({MySet}), val MY-CLASS.&Type ({MySet}{@id}) }
            "#,
        )],
    );
}

/// The DEFAULT value of a member of the anonymous element type of a SEQUENCE OF is never linked:
/// `fn anonymous_lst_cnt_default() -> Integer { 1 }` (E0308).
#[test]
fn default_in_anonymous_sequence_of_element() {
    assert_c01(
        "default_in_anonymous_sequence_of_element",
        RasnConfig::default(),
        &[&module(
            "Lst ::= SEQUENCE OF SEQUENCE { cnt INTEGER DEFAULT 1 }",
        )],
    );
}
