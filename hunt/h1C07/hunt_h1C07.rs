//! Property C07: value assignments and DEFAULTs in the generated bindings denote the
//! abstract value of the ASN.1 source. Each test (except `sanity`) fails on the unchanged code.
use rasn_compiler::prelude::*;

/// Compiles the given modules with the rasn backend and returns the generated code
/// with all white space removed (the code is pretty-printed, line breaks vary).
fn compile_modules(modules: &[&str]) -> String {
    let mut compiler = Compiler::<RasnBackend, _>::new().add_asn_literal(modules[0]);
    for module in &modules[1..] {
        compiler = compiler.add_asn_literal(*module);
    }
    let result = compiler
        .compile_to_string()
        .expect("the input is valid ASN.1 and has to compile");
    println!("{}", result.generated);
    for warning in &result.warnings {
        println!("WARNING: {warning}");
    }
    result
        .generated
        .chars()
        .filter(|c| !c.is_whitespace())
        .collect()
}

fn compile(body: &str) -> String {
    compile_modules(&[&format!(
        "Hunt DEFINITIONS AUTOMATIC TAGS ::= BEGIN\n{body}\nEND"
    )])
}

#[test]
fn sanity() {
    let generated = compile(
        r#"
        I ::= INTEGER { two(2) }
        a INTEGER ::= 5
        s UTF8String ::= "x""y"
        S ::= SEQUENCE { f I DEFAULT two, g BOOLEAN DEFAULT TRUE }
        "#,
    );
    assert!(generated.contains("pubstaticA:LazyLock<Integer>=LazyLock::new(||Integer::from(5i128));"));
    assert!(generated.contains(r#"String::from("x\"y")"#));
    assert!(generated.contains("fns_f_default()->I{I(Integer::from(2i128))}"));
    assert!(generated.contains("fns_g_default()->bool{true}"));
}

/// The DEFAULTs of a SEQUENCE that is the element type of a SEQUENCE OF / SET OF are never
/// linked with their governing types: they come out as `5` (for an `Integer`), as the
/// undefined constant `GREEN` and as a bare `"abc"` (for an `Ia5String`).
#[test]
fn defaults_inside_the_element_type_of_a_sequence_of() {
    let generated = compile(
        r#"
        Color ::= ENUMERATED { red, green }
        L ::= SEQUENCE OF SEQUENCE {
            c INTEGER DEFAULT 5,
            e Color DEFAULT green,
            s IA5String DEFAULT "abc"
        }
        "#,
    );
    assert!(
        generated.contains("fnanonymous_l_c_default()->Integer{Integer::from(5i128)}"),
        "INTEGER DEFAULT 5 has to be an Integer"
    );
    assert!(
        generated.contains("fnanonymous_l_e_default()->Color{Color::green}"),
        "DEFAULT green has to be the enumeral of Color"
    );
    assert!(
        generated.contains(r#"fnanonymous_l_s_default()->Ia5String{Ia5String::try_from("abc").unwrap()}"#),
        "IA5String DEFAULT \"abc\" has to be an Ia5String"
    );
}

/// Value references are resolved in a single name space for all modules: the DEFAULT of
/// module A refers to A's `max` (5), but is bound to the `max` of module B (9), and A's
/// own value assignment is not generated at all.
#[test]
fn value_reference_resolves_to_the_value_of_its_own_module() {
    let generated = compile_modules(&[
        "A DEFINITIONS AUTOMATIC TAGS ::= BEGIN
            max INTEGER ::= 5
            SA ::= SEQUENCE { f INTEGER DEFAULT max }
         END",
        "B DEFINITIONS AUTOMATIC TAGS ::= BEGIN
            max INTEGER ::= 9
            SB ::= SEQUENCE { f INTEGER DEFAULT max }
         END",
    ]);
    assert!(
        generated.contains("fnsa_f_default()->Integer{Integer::from(5i128)}"),
        "A.SA.f DEFAULT max is 5"
    );
    assert!(
        generated.contains("fnsb_f_default()->Integer{Integer::from(9i128)}"),
        "B.SB.f DEFAULT max is 9"
    );
    assert!(
        generated.contains("Integer::from(5i128));"),
        "the value assignment A.max is generated"
    );
}

/// An enumeral of an ENUMERATED type that is defined inline in a SEQUENCE component is
/// rendered as a reference to an undefined constant (`Q`) instead of `SE::q`.
#[test]
fn enumeral_of_an_inline_enumerated_component_in_a_sequence_value() {
    let generated = compile(
        r#"
        S ::= SEQUENCE { e ENUMERATED { p, q }, n INTEGER }
        s S ::= { e q, n 1 }
        "#,
    );
    assert!(
        generated.contains("S::new(SE::q,Integer::from(1i128))"),
        "component e has the value q of the inline ENUMERATED type SE"
    );
}

/// A cstring that happens to consist of tstring characters (digits plus one of `+-:.,/CDHMRPSTWYZ`)
/// is lexed as a TIME value: the value assignment is dropped with a warning, a DEFAULT of
/// that form takes the whole enclosing SEQUENCE with it.
#[test]
fn character_string_value_that_looks_like_a_time_value() {
    let generated = compile(
        r#"
        version UTF8String ::= "1.0"
        S ::= SEQUENCE { v IA5String DEFAULT "2.5" }
        "#,
    );
    assert!(
        generated.contains(r#"pubstaticVERSION:LazyLock<Utf8String>=LazyLock::new(||String::from("1.0"));"#),
        "version is the UTF8String \"1.0\""
    );
    assert!(
        generated.contains(r#"fns_v_default()->Ia5String{Ia5String::try_from("2.5").unwrap()}"#),
        "S.v defaults to the IA5String \"2.5\""
    );
}

/// X.680 12.14.1: a cstring may span several lines; the line break and the spacing characters
/// immediately before and after it are not part of the character string.
#[test]
fn cstring_spanning_two_lines() {
    let generated = compile("s UTF8String ::= \"abc   \n       def\"");
    assert!(
        generated.contains(r#"String::from("abcdef")"#),
        "the value is \"abcdef\""
    );
}

/// A value reference to a value that is itself given by a named number is resolved by copying
/// the not yet linked notation (`two`), which then names nothing: the bindings refer to an
/// undefined constant `TWO`.
#[test]
fn reference_to_a_value_given_by_a_named_number() {
    let generated = compile(
        r#"
        I ::= INTEGER { two(2) }
        a I ::= two
        z INTEGER ::= a
        S ::= SEQUENCE { f INTEGER DEFAULT a }
        "#,
    );
    assert!(!generated.contains("TWO"), "there is no value `two`");
    assert!(
        generated.contains("pubstaticZ:LazyLock<Integer>=LazyLock::new(||Integer::from(2i128));"),
        "z is 2"
    );
    assert!(
        generated.contains("fns_f_default()->Integer{Integer::from(2i128)}"),
        "S.f defaults to 2"
    );
}
