use rasn_compiler::prelude::*;

fn compile(body: &str) -> (String, Vec<String>) {
    let src = format!(
        "TestModule DEFINITIONS AUTOMATIC TAGS ::= BEGIN\n{body}\nEND\n"
    );
    match Compiler::<RasnBackend, _>::new()
        .add_asn_literal(&src)
        .compile_to_string()
    {
        Ok(r) => (
            r.generated,
            r.warnings.iter().map(|w| format!("{w}")).collect(),
        ),
        Err(e) => (String::new(), vec![format!("ERROR: {e}")]),
    }
}

#[test]
#[ignore]
fn explore() {
    let path = std::env::var("EXPLORE_FILE").unwrap_or("/tmp/wt/h3C15/target/explore.txt".into());
    let text = std::fs::read_to_string(path).unwrap();
    for case in text.split("\n----\n") {
        let case = case.trim();
        if case.is_empty() {
            continue;
        }
        let (gen, warnings) = compile(case);
        println!("=== INPUT: {case}");
        let flat = gen.split_whitespace().collect::<Vec<_>>().join(" ");
        let flat = flat.split("use rasn::prelude::*;").last().unwrap_or("").to_string();
        println!("    {flat}");
        for w in warnings {
            let w: String = w.chars().take(300).collect();
            println!("    WARN: {w}");
        }
    }
}

// ---------- oracle helpers ----------
use std::collections::BTreeSet;

fn base_alphabet(ty: &str) -> BTreeSet<u32> {
    match ty {
        "NumericString" => " 0123456789".chars().map(|c| c as u32).collect(),
        "PrintableString" => {
            "ABCDEFGHIJKLMNOPQRSTUVWXYZabcdefghijklmnopqrstuvwxyz0123456789 '()+,-./:=?"
                .chars()
                .map(|c| c as u32)
                .collect()
        }
        "VisibleString" => (0x20..=0x7e).collect(),
        "IA5String" => (0..=0x7f).collect(),
        "BMPString" => (0..=0xffffu32).filter(|c| char::from_u32(*c).is_some()).collect(),
        "UniversalString" => (0..=0x10ffffu32)
            .filter(|c| char::from_u32(*c).is_some())
            .collect(),
        _ => panic!(),
    }
}

/// Parses the `from(...)` annotation that belongs to the item `marker` (the text that follows the
/// attribute, e.g. `pub struct A(` or `pub f:`); returns None if there is no from annotation.
fn emitted_alphabet(gen: &str, marker: &str) -> Option<BTreeSet<u32>> {
    let flat = gen.split_whitespace().collect::<Vec<_>>().join(" ");
    let end = flat.find(marker)?;
    let before = &flat[..end];
    let attr_start = before.rfind("#[rasn(")?;
    // the attribute has to be directly in front of the marker
    let attr = &before[attr_start..];
    if attr.trim_end().chars().last() != Some(']') || attr[..attr.len() - 1].contains(")] ") {
        return None;
    }
    let from_start = attr.find("from(")?;
    let inner = &attr[from_start + 5..];
    let mut depth = 1;
    let mut close = 0;
    let mut in_str = false;
    for (i, c) in inner.char_indices() {
        match c {
            '"' => in_str = !in_str,
            '(' if !in_str => depth += 1,
            ')' if !in_str => {
                depth -= 1;
                if depth == 0 {
                    close = i;
                    break;
                }
            }
            _ => (),
        }
    }
    let inner = &inner[..close];
    let mut set = BTreeSet::new();
    for item in inner.split(',') {
        let item = item.trim().trim_matches('"');
        if item.is_empty() {
            continue;
        }
        let cp = |s: &str| -> u32 {
            let s = s.trim();
            let hex = s.trim_start_matches("\\u{").trim_end_matches('}');
            u32::from_str_radix(hex, 16).unwrap_or_else(|_| panic!("bad item {s}"))
        };
        if let Some((a, b)) = item.split_once("..=") {
            let (a, b) = (cp(a), cp(b));
            for c in a..=b {
                set.insert(c);
            }
        } else {
            set.insert(cp(item));
        }
    }
    Some(set)
}

fn show(set: &BTreeSet<u32>) -> String {
    if set.len() > 40 {
        format!(
            "{} chars [{:x}..{:x}]",
            set.len(),
            set.iter().next().unwrap(),
            set.iter().last().unwrap()
        )
    } else {
        set.iter()
            .map(|c| char::from_u32(*c).map_or(format!("<{c:x}>"), |c| format!("{c:?}")))
            .collect::<Vec<_>>()
            .join("")
    }
}

#[derive(Clone)]
enum Op {
    Str(&'static str),
    Range(Option<char>, Option<char>),
}

impl Op {
    fn text(&self) -> String {
        match self {
            Op::Str(s) => format!("\"{s}\""),
            Op::Range(a, b) => format!(
                "{}..{}",
                a.map_or("MIN".to_string(), |c| format!("\"{c}\"")),
                b.map_or("MAX".to_string(), |c| format!("\"{c}\""))
            ),
        }
    }
    fn set(&self, alphabet: &BTreeSet<u32>) -> BTreeSet<u32> {
        match self {
            Op::Str(s) => s.chars().map(|c| c as u32).collect(),
            Op::Range(a, b) => {
                let lo = a.map_or(0, |c| c as u32);
                let hi = b.map_or(u32::MAX, |c| c as u32);
                alphabet
                    .iter()
                    .copied()
                    .filter(|c| *c >= lo && *c <= hi)
                    .collect()
            }
        }
    }
}

#[test]
#[ignore]
fn sweep_unions() {
    let types = [
        "NumericString",
        "PrintableString",
        "VisibleString",
        "IA5String",
        "BMPString",
        "UniversalString",
    ];
    let only = std::env::var("SWEEP_TYPE").ok();
    for ty in types {
        if only.as_deref().is_some_and(|o| o != ty) {
            continue;
        }
        let alphabet = base_alphabet(ty);
        let ops: Vec<Op> = match ty {
            "NumericString" => vec![
                Op::Str("1"),
                Op::Str("90 "),
                Op::Str("135792"),
                Op::Range(Some('2'), Some('5')),
                Op::Range(Some('5'), Some('5')),
                Op::Range(None, Some('3')),
                Op::Range(Some('7'), None),
            ],
            _ => vec![
                Op::Str("a"),
                Op::Str("Zb9"),
                Op::Str("z ='A0"),
                Op::Range(Some('B'), Some('F')),
                Op::Range(Some('c'), Some('c')),
                Op::Range(None, Some('D')),
                Op::Range(Some('x'), None),
            ],
        };
        let mut exprs: Vec<Vec<Op>> = vec![];
        for a in &ops {
            exprs.push(vec![a.clone()]);
            for b in &ops {
                exprs.push(vec![a.clone(), b.clone()]);
            }
        }
        // a few three-operand unions
        for a in &ops[..3] {
            for b in &ops[3..5] {
                for c in &ops[5..] {
                    exprs.push(vec![a.clone(), b.clone(), c.clone()]);
                    exprs.push(vec![c.clone(), a.clone(), b.clone()]);
                }
            }
        }
        for e in &exprs {
            let text = e.iter().map(Op::text).collect::<Vec<_>>().join(" | ");
            let mut expected = BTreeSet::new();
            for o in e {
                expected.extend(o.set(&alphabet));
            }
            let forms = [
                format!("{ty} (FROM ({text}))"),
                format!("{ty} (FROM ({text})) (SIZE (1..4))"),
                format!("{ty} (SIZE (1..4)) (FROM ({text}))"),
                format!("{ty} (FROM ({text}) ^ SIZE (1..4))"),
                format!("{ty} (SIZE (1..4) ^ FROM ({text}))"),
            ];
            for (fi, form) in forms.iter().enumerate() {
                if fi >= 3 && e.len() > 1 {
                    continue; // known
                }
                for comp in [false, true] {
                    let (src, marker) = if comp {
                        (format!("S ::= SEQUENCE {{ f {form} }}"), "pub f:")
                    } else {
                        (format!("A ::= {form}"), "pub struct A(")
                    };
                    let (gen, warnings) = compile(&src);
                    let got = emitted_alphabet(&gen, marker);
                    let ok = got.as_ref() == Some(&expected);
                    if !ok {
                        println!(
                            "MISMATCH {src}\n   expected {}\n   got      {}\n   warn {:?}",
                            show(&expected),
                            got.as_ref().map_or("NONE".to_string(), show),
                            warnings
                                .iter()
                                .map(|w| w.chars().take(100).collect::<String>())
                                .collect::<Vec<_>>()
                        );
                    }
                }
            }
        }
    }
}

fn compile_modules(mods: &[&str]) -> (String, Vec<String>) {
    let mut c = Compiler::<RasnBackend, _>::new().add_asn_literal(mods[0]);
    for m in &mods[1..] {
        c = c.add_asn_literal(*m);
    }
    match c.compile_to_string() {
        Ok(r) => (
            r.generated,
            r.warnings.iter().map(|w| format!("{w}")).collect(),
        ),
        Err(e) => (String::new(), vec![format!("ERROR: {e}")]),
    }
}

#[test]
#[ignore]
fn explore_modules() {
    let cases: Vec<Vec<&str>> = vec![
        vec![
            "M1 DEFINITIONS AUTOMATIC TAGS ::= BEGIN P ::= IA5String (FROM (\"abc\")) END",
            "M2 DEFINITIONS AUTOMATIC TAGS ::= BEGIN P ::= IA5String (FROM (\"xyz\")) B ::= IA5String (P) END",
        ],
        vec![
            "M2 DEFINITIONS AUTOMATIC TAGS ::= BEGIN P ::= IA5String (FROM (\"xyz\")) B ::= IA5String (P) END",
            "M1 DEFINITIONS AUTOMATIC TAGS ::= BEGIN P ::= IA5String (FROM (\"abc\")) END",
        ],
        vec![
            "M1 DEFINITIONS AUTOMATIC TAGS ::= BEGIN P ::= IA5String (FROM (\"abc\")) END",
            "M2 DEFINITIONS AUTOMATIC TAGS ::= BEGIN IMPORTS P FROM M1; B ::= IA5String (P) C ::= IA5String (SIZE (1..4)) (P) END",
        ],
        vec![
            "M1 DEFINITIONS AUTOMATIC TAGS ::= BEGIN a IA5String ::= \"abc\" END",
            "M2 DEFINITIONS AUTOMATIC TAGS ::= BEGIN a IA5String ::= \"xyz\" B ::= IA5String (FROM (a)) END",
        ],
        vec![
            "M2 DEFINITIONS AUTOMATIC TAGS ::= BEGIN a IA5String ::= \"xyz\" B ::= IA5String (FROM (a)) END",
            "M1 DEFINITIONS AUTOMATIC TAGS ::= BEGIN a IA5String ::= \"abc\" END",
        ],
    ];
    for case in cases {
        let (gen, warnings) = compile_modules(&case);
        println!("=== INPUT: {case:?}");
        let flat = gen.split_whitespace().collect::<Vec<_>>().join(" ");
        println!("    {flat}");
        for w in warnings {
            let w: String = w.chars().take(300).collect();
            println!("    WARN: {w}");
        }
    }
}

#[test]
#[ignore]
fn sweep_ops() {
    let ty = std::env::var("SWEEP_TYPE").unwrap_or("IA5String".into());
    let alphabet = base_alphabet(&ty);
    let ops: Vec<Op> = vec![
        Op::Str("a"),
        Op::Str("Zb9"),
        Op::Str("cDx"),
        Op::Range(Some('B'), Some('F')),
        Op::Range(Some('c'), Some('c')),
        Op::Range(None, Some('D')),
        Op::Range(Some('x'), None),
    ];
    let operators = ["|", "^", "EXCEPT"];
    let mut n = 0;
    for a in &ops {
        for b in &ops {
            for c in [None, Some(&ops[2]), Some(&ops[3])] {
                for o1 in operators {
                    for o2 in operators {
                        if c.is_none() && o2 != "|" {
                            continue;
                        }
                        if o1 == "|" && (c.is_none() || o2 == "|") {
                            continue; // plain unions were swept
                        }
                        let text = match c {
                            None => format!("{} {o1} {}", a.text(), b.text()),
                            Some(c) => format!("{} {o1} {} {o2} {}", a.text(), b.text(), c.text()),
                        };
                        let mut union = a.set(&alphabet);
                        union.extend(b.set(&alphabet));
                        if let Some(c) = c {
                            union.extend(c.set(&alphabet));
                        }
                        n += 1;
                        if n % 3 != 0 {
                            continue;
                        }
                        let forms = [
                            format!("{ty} (FROM ({text}))"),
                            format!("{ty} (SIZE (1..4)) (FROM ({text}))"),
                        ];
                        for form in forms {
                            let src = format!("A ::= {form}");
                            let (gen, warnings) = compile(&src);
                            let got = emitted_alphabet(&gen, "pub struct A(");
                            if got.as_ref() != Some(&union) {
                                println!(
                                    "NOT-UNION {src}\n   union {}\n   got   {}\n   warn {:?}",
                                    show(&union),
                                    got.as_ref().map_or("NONE".to_string(), show),
                                    warnings
                                        .iter()
                                        .map(|w| w.chars().take(100).collect::<String>())
                                        .collect::<Vec<_>>()
                                );
                            }
                        }
                    }
                }
            }
        }
    }
}

fn compile_open(body: &str) -> (String, Vec<String>) {
    let src = format!("TestModule DEFINITIONS AUTOMATIC TAGS ::= BEGIN\n{body}\nEND\n");
    let r = std::panic::catch_unwind(|| {
        Compiler::<RasnBackend, _>::new_with_config(RasnConfig {
            opaque_open_types: false,
            ..Default::default()
        })
        .add_asn_literal(&src)
        .compile_to_string()
    });
    match r {
        Ok(Ok(r)) => (
            r.generated,
            r.warnings.iter().map(|w| format!("{w}")).collect(),
        ),
        Ok(Err(e)) => (String::new(), vec![format!("ERROR: {e}")]),
        Err(_) => (String::new(), vec!["PANIC".into()]),
    }
}

#[test]
#[ignore]
fn explore_open() {
    let cases = [
        r#"CLS ::= CLASS { &id INTEGER UNIQUE, &Type }
Objs CLS ::= { {&id 1, &Type IA5String (FROM ("abc"))} | {&id 2, &Type UTF8String (FROM ("abc"))} }
S ::= SEQUENCE { id CLS.&id ({Objs}), v CLS.&Type ({Objs}{@id}) }"#,
        r#"CLS ::= CLASS { &id INTEGER UNIQUE, &Type }
Objs CLS ::= { {&id 1, &Type IA5String (FROM ("f".."a"))} }
S ::= SEQUENCE { id CLS.&id ({Objs}), v CLS.&Type ({Objs}{@id}) }"#,
        r#"CLS ::= CLASS { &id INTEGER UNIQUE, &Type }
Objs CLS ::= { {&id 1, &Type IA5String (FROM (" ".."~" ^ " ".."~") ^ SIZE (1..4))} }
S ::= SEQUENCE { id CLS.&id ({Objs}), v CLS.&Type ({Objs}{@id}) }"#,
        r#"CLS ::= CLASS { &id INTEGER UNIQUE, &Type }
P ::= IA5String (FROM ("abc")) (SIZE (1..4))
Objs CLS ::= { {&id 1, &Type P} | {&id 2, &Type P (FROM ("ab"))} }
S ::= SEQUENCE { id CLS.&id ({Objs}), v CLS.&Type ({Objs}{@id}) }"#,
    ];
    for case in cases {
        let (gen, warnings) = compile_open(case);
        println!("=== INPUT: {case}");
        let flat = gen.split_whitespace().collect::<Vec<_>>().join(" ");
        for part in flat.split("#[") {
            if part.contains("from(") || part.contains("Inner_") && part.contains("pub struct") {
                println!("    #[{}", part.chars().take(300).collect::<String>());
            }
        }
        for w in warnings {
            let w: String = w.chars().take(300).collect();
            println!("    WARN: {w}");
        }
    }
}

#[test]
#[ignore]
fn sweep_outer_sets() {
    let ty = std::env::var("SWEEP_TYPE").unwrap_or("IA5String".into());
    let alphabet = base_alphabet(&ty);
    let ops: Vec<Op> = vec![
        Op::Str("a"),
        Op::Str("Zb9"),
        Op::Str("cDx"),
        Op::Str("CDE"),
        Op::Range(Some('B'), Some('F')),
        Op::Range(Some('c'), Some('c')),
        Op::Range(None, Some('D')),
        Op::Range(Some('x'), None),
    ];
    let operators = ["|", "^", "EXCEPT"];
    for a in &ops {
        for b in &ops {
            for o1 in operators {
                let text = format!("{} {o1} {}", a.text(), b.text());
                let (sa, sb) = (a.set(&alphabet), b.set(&alphabet));
                let expected: BTreeSet<u32> = match o1 {
                    "|" => sa.union(&sb).copied().collect(),
                    "^" => sa.intersection(&sb).copied().collect(),
                    _ => sa.difference(&sb).copied().collect(),
                };
                let forms = [
                    format!("{ty} (FROM ({text}) ^ SIZE (1..4))"),
                    format!("{ty} (SIZE (1..4) ^ FROM ({text}))"),
                    format!("{ty} (FROM ({}) {o1} FROM ({}))", a.text(), b.text()),
                ];
                for form in forms {
                    let src = format!("A ::= {form}");
                    let (gen, warnings) = compile(&src);
                    let got = emitted_alphabet(&gen, "pub struct A(");
                    let class = match &got {
                        Some(g) if *g == expected => "ok",
                        Some(g) if g.is_superset(&expected) => "wider",
                        Some(_) => "NOT-SUPERSET",
                        None if warnings.iter().any(|w| w.contains("Unsupported operation")) => {
                            "unsupported"
                        }
                        None if warnings.is_empty() && gen.contains("pub struct A(") => "SILENT-NONE",
                        None => "OTHER-WARN",
                    };
                    if class != "ok" && class != "wider" && class != "unsupported" {
                        println!(
                            "{class} {src}\n   expected {}\n   got   {}\n   warn {:?}",
                            show(&expected),
                            got.as_ref().map_or("NONE".to_string(), show),
                            warnings
                                .iter()
                                .map(|w| w.chars().take(100).collect::<String>())
                                .collect::<Vec<_>>()
                        );
                    }
                }
            }
        }
    }
}

// =====================================================================================
// Confirmed findings: every test below asserts property C15 and FAILS on the unchanged
// compiler.
// =====================================================================================

fn set_of(s: &str) -> BTreeSet<u32> {
    s.chars().map(|c| c as u32).collect()
}

fn alphabet_of(body: &str, marker: &str) -> (Option<BTreeSet<u32>>, Vec<String>, String) {
    let (gen, warnings) = compile(body);
    (emitted_alphabet(&gen, marker), warnings, gen)
}

/// F1: a single value constraint (no FROM at all) is turned into a permitted alphabet
#[test]
fn f01_single_value_constraint_is_not_a_permitted_alphabet() {
    let (got, warnings, gen) = alphabet_of(r#"A ::= IA5String ("abc")"#, "pub struct A(");
    assert!(gen.contains("pub struct A("), "A was not generated: {warnings:?}");
    assert_eq!(
        got.as_ref().map(show),
        None,
        "A has no FROM constraint, so it must not carry a from(..) annotation"
    );
}

/// F2: `ALL EXCEPT x` inside FROM yields exactly the excluded characters
#[test]
fn f02_all_except_inside_from_is_inverted() {
    let (got, warnings, gen) =
        alphabet_of(r#"A ::= IA5String (FROM (ALL EXCEPT "a"))"#, "pub struct A(");
    assert!(gen.contains("pub struct A("), "A was not generated: {warnings:?}");
    let mut expected = base_alphabet("IA5String");
    expected.remove(&('a' as u32));
    assert_eq!(got.as_ref().map(show), Some(show(&expected)));
}

/// F3: an included (contained) constrained string type that is an operand of a set operation
/// at the outer level is discarded by the fold
#[test]
fn f03_contained_subtype_intersected_with_size() {
    let (got, warnings, gen) = alphabet_of(
        r#"P ::= IA5String (FROM ("abc"))
           B ::= IA5String (P ^ SIZE (1..4))"#,
        "pub struct B(",
    );
    assert!(gen.contains("pub struct B("), "B was not generated: {warnings:?}");
    assert_eq!(got.as_ref().map(show), Some(show(&set_of("abc"))));
}

/// F3 (second face of the same arm): `P | FROM ("xy")` loses the alphabet of P
#[test]
fn f03b_contained_subtype_united_with_from() {
    let (got, warnings, gen) = alphabet_of(
        r#"P ::= IA5String (FROM ("abc"))
           B ::= IA5String (P | FROM ("xy"))"#,
        "pub struct B(",
    );
    assert!(gen.contains("pub struct B("), "B was not generated: {warnings:?}");
    assert_eq!(got.as_ref().map(show), Some(show(&set_of("abcxy"))));
}

/// F4: an included inline type that has no FROM constraint of its own contributes the empty
/// alphabet instead of its whole alphabet
#[test]
fn f04_included_type_without_from_contributes_nothing() {
    let (got, warnings, gen) = alphabet_of(
        r#"B ::= IA5String (FROM (IA5String (SIZE (1..4)) | "x"))"#,
        "pub struct B(",
    );
    assert!(gen.contains("pub struct B("), "B was not generated: {warnings:?}");
    // every IA5String character occurs in some string of size 1..4
    let full = base_alphabet("IA5String");
    assert!(
        got.is_none() || got.as_ref() == Some(&full),
        "expected the whole IA5String alphabet (or no annotation), got {}",
        got.as_ref().map_or("NONE".into(), show)
    );
}

/// F5: string values written as CharacterStringList / Tuple / Quadruple are silently ignored
#[test]
fn f05_character_string_list_in_from() {
    let (got, warnings, gen) =
        alphabet_of(r#"A ::= IA5String (FROM ({"a", "b"}))"#, "pub struct A(");
    assert!(gen.contains("pub struct A("), "A was not generated: {warnings:?}");
    assert_eq!(got.as_ref().map(show), Some(show(&set_of("ab"))));
}

#[test]
fn f05b_tuple_in_from() {
    // {6, 1}: column 6, row 1 of the ISO 646 table = "a"
    let (got, warnings, gen) = alphabet_of(r#"A ::= IA5String (FROM ({6, 1}))"#, "pub struct A(");
    assert!(gen.contains("pub struct A("), "A was not generated: {warnings:?}");
    assert_eq!(got.as_ref().map(show), Some(show(&set_of("a"))));
}

/// F6: intersection is order dependent: a constraint that is not PER-visible in front of the
/// FROM constraint makes the alphabet disappear
#[test]
fn f06_intersection_with_non_visible_base_drops_from() {
    let (reference, _, _) = alphabet_of(
        r#"A ::= IA5String (FROM ("abc") ^ PATTERN "[a-c]*")"#,
        "pub struct A(",
    );
    assert_eq!(reference.as_ref().map(show), Some(show(&set_of("abc"))));
    let (got, warnings, gen) = alphabet_of(
        r#"A ::= IA5String (PATTERN "[a-c]*" ^ FROM ("abc"))"#,
        "pub struct A(",
    );
    assert!(gen.contains("pub struct A("), "A was not generated: {warnings:?}");
    assert_eq!(got.as_ref().map(show), Some(show(&set_of("abc"))));
}

/// F7: a union of a FROM constraint with an operand that is not PER-visible (here: an
/// unconstrained included type, which allows every character) keeps the FROM alphabet
#[test]
fn f07_union_with_unconstrained_operand_keeps_from() {
    let (got, warnings, gen) = alphabet_of(
        r#"P ::= IA5String
           A ::= IA5String (FROM ("abc") | P)"#,
        "pub struct A(",
    );
    assert!(gen.contains("pub struct A("), "A was not generated: {warnings:?}");
    let full = base_alphabet("IA5String");
    assert!(
        got.is_none() || got.as_ref() == Some(&full),
        "every IA5String value is allowed, got from({})",
        got.as_ref().map_or("NONE".into(), show)
    );
}

#[test]
fn f07b_union_with_pattern_keeps_from() {
    let (got, warnings, gen) = alphabet_of(
        r#"A ::= IA5String (FROM ("abc") | PATTERN "[x-z]*")"#,
        "pub struct A(",
    );
    assert!(gen.contains("pub struct A("), "A was not generated: {warnings:?}");
    assert!(
        got.as_ref().map_or(true, |g| g.is_superset(&set_of("xyz"))),
        "x, y and z are allowed by the union, got from({})",
        got.as_ref().map_or("NONE".into(), show)
    );
}

/// F8: references in FROM constraints are resolved in one global name space: a value (or type)
/// of the same name in another module is picked
#[test]
fn f08_reference_resolved_in_other_module() {
    let (gen, warnings) = compile_modules(&[
        "M2 DEFINITIONS AUTOMATIC TAGS ::= BEGIN a IA5String ::= \"xyz\" B ::= IA5String (FROM (a)) END",
        "M1 DEFINITIONS AUTOMATIC TAGS ::= BEGIN a IA5String ::= \"abc\" END",
    ]);
    assert!(gen.contains("pub struct B("), "B was not generated: {warnings:?}");
    let got = emitted_alphabet(&gen, "pub struct B(");
    assert_eq!(got.as_ref().map(show), Some(show(&set_of("xyz"))));
}

#[test]
fn f08b_included_type_resolved_in_other_module() {
    let (gen, warnings) = compile_modules(&[
        "M2 DEFINITIONS AUTOMATIC TAGS ::= BEGIN P ::= IA5String (FROM (\"xyz\")) B ::= IA5String (P) END",
        "M1 DEFINITIONS AUTOMATIC TAGS ::= BEGIN P ::= IA5String (FROM (\"abc\")) END",
    ]);
    assert!(gen.contains("pub struct B("), "B was not generated: {warnings:?}");
    let got = emitted_alphabet(&gen, "pub struct B(");
    assert_eq!(got.as_ref().map(show), Some(show(&set_of("xyz"))));
}

/// F9: an extension marker behind the FROM constraint is ignored, the alphabet is emitted as
/// if it were closed (while `FROM ("abc", ...)` emits none)
#[test]
fn f09_extensible_from_constraint() {
    let (gen, warnings) = compile(r#"A ::= IA5String (FROM ("abc"), ...)"#);
    assert!(gen.contains("pub struct A("), "A was not generated: {warnings:?}");
    let flat = gen.split_whitespace().collect::<Vec<_>>().join(" ");
    let got = emitted_alphabet(&gen, "pub struct A(");
    assert!(
        got.is_none() || flat.contains("extensible"),
        "the constraint is extensible (every character may occur in an extension), but a closed from({}) was emitted",
        got.as_ref().map_or("NONE".into(), show)
    );
}

/// F10: an included type is resolved one level deep only
#[test]
fn f10_included_type_alias_chain() {
    let (got, warnings, gen) = alphabet_of(
        r#"Q ::= IA5String (FROM ("abc"))
           P ::= Q
           B ::= IA5String (P)"#,
        "pub struct B(",
    );
    assert!(gen.contains("pub struct B("), "B was not generated: {warnings:?}");
    assert_eq!(got.as_ref().map(show), Some(show(&set_of("abc"))));
}

/// F11: a FROM constraint on the dummy type of a parameterized type is lost at instantiation
#[test]
fn f11_from_on_type_parameter() {
    let (got, warnings, gen) = alphabet_of(
        r#"P {T} ::= T (FROM ("abc"))
           A ::= P {IA5String}"#,
        "pub struct A(",
    );
    assert!(gen.contains("pub struct A("), "A was not generated: {warnings:?}");
    assert_eq!(got.as_ref().map(show), Some(show(&set_of("abc"))));
}

/// F12: with non-opaque open types the alphabet of an information object's type field is
/// computed with `.ok()`: a FROM constraint that cannot be evaluated vanishes without a warning
#[test]
fn f12_open_type_member_swallows_alphabet_errors() {
    let body = r#"CLS ::= CLASS { &id INTEGER UNIQUE, &Type }
Objs CLS ::= { {&id 1, &Type NumericString (FROM ("a"))} }
S ::= SEQUENCE { id CLS.&id ({Objs}), v CLS.&Type ({Objs}{@id}) }"#;
    // reference: the same type as a plain assignment is reported
    let (_, reference) = compile(r#"A ::= NumericString (FROM ("a"))"#);
    assert!(reference.iter().any(|w| w.contains("not in char set")));
    let (gen, warnings) = compile_open(body);
    assert!(gen.contains("Inner_Objs_Type_0"), "{warnings:?}");
    assert!(
        warnings.iter().any(|w| w.contains("not in char set")),
        "the FROM constraint was dropped silently: {warnings:?}"
    );
}

/// F13: same path: the size/value pass is unwrapped, so a FROM expression that the fold
/// rejects panics the compiler instead of producing a warning
#[test]
fn f13_open_type_member_panics() {
    let body = r#"CLS ::= CLASS { &id INTEGER UNIQUE, &Type }
Objs CLS ::= { {&id 1, &Type IA5String (FROM ("a".."f" ^ "d".."k") ^ SIZE (1..4))} }
S ::= SEQUENCE { id CLS.&id ({Objs}), v CLS.&Type ({Objs}{@id}) }"#;
    let (_, warnings) = compile_open(body);
    assert!(
        !warnings.iter().any(|w| w == "PANIC"),
        "the compiler panicked (builder.rs: format_range_annotations(..).unwrap())"
    );
}

/// F14: PrintableString ranges that are contiguous in the internal table are emitted as code
/// point ranges and so include characters that are not PrintableString characters
#[test]
fn f14_printable_range_includes_foreign_characters() {
    let (got, warnings, gen) =
        alphabet_of(r#"A ::= PrintableString (FROM ("'".."/"))"#, "pub struct A(");
    assert!(gen.contains("pub struct A("), "A was not generated: {warnings:?}");
    let got = got.expect("no from annotation");
    let foreign: BTreeSet<u32> = got
        .difference(&base_alphabet("PrintableString"))
        .copied()
        .collect();
    assert!(
        foreign.is_empty(),
        "characters outside PrintableString: {}",
        show(&foreign)
    );
}
