//! Property C06: the Rust integer type chosen for an INTEGER type / component / element /
//! constant can hold every value the ASN.1 constraint permits.
//!
//! Every test (except `sanity`) compiles a minimal, valid ASN.1 input and asserts what the
//! property demands; they fail on the unchanged compiler.

use rasn_compiler::prelude::*;

/// Compiles the body of a single module `T` and returns the bindings with whitespace collapsed.
fn compile_body(body: &str) -> String {
    compile_modules(&format!(
        "T DEFINITIONS AUTOMATIC TAGS ::= BEGIN\n{body}\nEND"
    ))
}

/// Compiles complete module definitions and returns the bindings with whitespace collapsed.
fn compile_modules(asn: &str) -> String {
    let generated = Compiler::<RasnBackend, _>::new()
        .add_asn_literal(asn)
        .compile_to_string()
        .expect("input is valid ASN.1 and must compile")
        .generated;
    generated.split_whitespace().collect::<Vec<_>>().join(" ")
}

/// The identifier that follows the first occurrence of `pat` in `code`.
fn ident_after(code: &str, pat: &str) -> String {
    let start = code
        .find(pat)
        .unwrap_or_else(|| panic!("`{pat}` not found in generated code:\n{code}"))
        + pat.len();
    code[start..]
        .chars()
        .take_while(|c| c.is_alphanumeric() || *c == '_')
        .collect()
}

/// Whether the Rust integer type `ty` can represent every value of `lo..=hi`.
fn holds(ty: &str, lo: i128, hi: i128) -> bool {
    let (tl, th): (i128, i128) = match ty {
        "u8" => (u8::MIN.into(), u8::MAX.into()),
        "u16" => (u16::MIN.into(), u16::MAX.into()),
        "u32" => (u32::MIN.into(), u32::MAX.into()),
        "u64" => (u64::MIN.into(), u64::MAX.into()),
        "i8" => (i8::MIN.into(), i8::MAX.into()),
        "i16" => (i16::MIN.into(), i16::MAX.into()),
        "i32" => (i32::MIN.into(), i32::MAX.into()),
        "i64" => (i64::MIN.into(), i64::MAX.into()),
        "Integer" => return true,
        other => panic!("unexpected integer type token `{other}`"),
    };
    tl <= lo && hi <= th
}

#[test]
fn sanity() {
    let code = compile_body(
        "A ::= INTEGER (0..300)
         S ::= SEQUENCE { a INTEGER (-1..255), b INTEGER (0..255, ...) }
         v INTEGER (0..65536) ::= 65536",
    );
    assert_eq!(ident_after(&code, "pub struct A(pub "), "u16");
    assert_eq!(ident_after(&code, "pub a: "), "i16");
    assert_eq!(ident_after(&code, "pub b: "), "Integer");
    assert_eq!(ident_after(&code, "pub const V: "), "u32");
    assert!(holds("u16", 0, 300) && !holds("u8", 0, 300));
}

/// X.680 50.1/50.2: `Unions ::= Intersections | UElems UnionMark Intersections`, i.e. `^` binds
/// tighter than `|` (and EXCEPT tighter than `^`).
/// `(0..10 ^ 0..5 | 300)` is `(0..10 ^ 0..5) | 300` = {0..5, 300}.
/// The compiler parses it as `0..10 ^ (0..5 | 300)` = 0..10 and picks `u8`.
#[test]
fn intersection_binds_tighter_than_union() {
    let code = compile_body(
        "A ::= INTEGER (0..10 ^ 0..5 | 300)
         S ::= SEQUENCE { a INTEGER (0..10 ^ 0..5 | 300) }",
    );
    let tld = ident_after(&code, "pub struct A(pub ");
    let member = ident_after(&code, "pub a: ");
    assert!(
        holds(&tld, 0, 300),
        "A permits 300 but is represented as `{tld}`:\n{code}"
    );
    assert!(
        holds(&member, 0, 300),
        "S.a permits 300 but is represented as `{member}`:\n{code}"
    );
}

/// X.680 51.3 (contained subtype): `(0..5 | Base)` permits every value of `Base` (0..1000).
/// The compiler drops the contained subtype from the union (and from `Base EXCEPT 5`, where it
/// keeps only the `5`) and picks `u8`.
#[test]
fn contained_subtype_in_union_contributes_its_values() {
    let code = compile_body(
        "Base ::= INTEGER (0..1000)
         D ::= INTEGER (0..5 | Base)
         S ::= SEQUENCE { e INTEGER (0..5 | Base) }",
    );
    let tld = ident_after(&code, "pub struct D(pub ");
    let member = ident_after(&code, "pub e: ");
    assert!(
        holds(&tld, 0, 1000),
        "D permits 0..1000 but is represented as `{tld}`:\n{code}"
    );
    assert!(
        holds(&member, 0, 1000),
        "S.e permits 0..1000 but is represented as `{member}`:\n{code}"
    );
}

/// `Mid` is -500..300, so `INTEGER (Mid)` permits -500..300.
/// The compiler folds the constraints of the contained `Mid` (a constrained type reference)
/// with an unsigned default (lower bound 0), yields 0..300 and picks `u16`.
#[test]
fn contained_subtype_of_constrained_reference_keeps_negative_lower_bound() {
    let code = compile_body(
        "Neg ::= INTEGER (-1000..1000)
         Mid ::= Neg (-500..300)
         A ::= INTEGER (Mid)
         S ::= SEQUENCE { a INTEGER (Mid) }",
    );
    let tld = ident_after(&code, "pub struct A(pub ");
    let member = ident_after(&code, "pub a: ");
    assert!(
        holds(&tld, -500, 300),
        "A permits -500..300 but is represented as `{tld}`:\n{code}"
    );
    assert!(
        holds(&member, -500, 300),
        "S.a permits -500..300 but is represented as `{member}`:\n{code}"
    );
}

/// X.683 8.4: a dummy reference hides any other reference of the same name inside the
/// parameterized assignment. `B{300}` is `INTEGER (0..300)` no matter what the module-level
/// value `hi` is. The compiler resolves `hi` to the module-level value 5 and picks `u8`.
#[test]
fn dummy_parameter_hides_value_of_the_same_name() {
    let code = compile_body(
        "hi INTEGER ::= 5
         B{INTEGER:hi} ::= INTEGER (0..hi)
         A ::= B{300}",
    );
    let tld = ident_after(&code, "pub struct A(pub ");
    assert!(
        holds(&tld, 0, 300),
        "A ::= B{{300}} permits 0..300 but is represented as `{tld}`:\n{code}"
    );
}

/// X.680 19: inside the notation governed by `INTEGER { x(300) }` the identifier `x` is the named
/// number. `T` is 0..300 and `v` is 300 (the compiler itself resolves `v T ::= x` to 300).
/// In the constraint the compiler resolves `x` to the module-level value 5, picks `u8`
/// and then emits `pub const V: T = T(300)` - a literal that does not fit its type.
#[test]
fn named_number_hides_value_of_the_same_name() {
    let code = compile_body(
        "x INTEGER ::= 5
         T ::= INTEGER { x(300) } (0..x)
         v T ::= x",
    );
    let tld = ident_after(&code, "pub struct T(pub ");
    let literal: i128 = ident_after(&code, "pub const V: T = T(")
        .parse()
        .unwrap_or_else(|_| panic!("no literal for `v`:\n{code}"));
    assert_eq!(literal, 300, "`v T ::= x` is the named number x(300)");
    assert!(
        holds(&tld, 0, literal),
        "constant V = T({literal}) does not fit `{tld}`, the representation of T:\n{code}"
    );
}

/// `top` inside the notation of `B` is B's own named number (300); there is no other value `top`
/// in scope, so `B` is 0..300. The compiler resolves `top` to the named number of the unrelated
/// type `Other` (5) and picks `u8`. (An ENUMERATED item of that name in another type does the same.)
#[test]
fn named_number_of_an_unrelated_type_does_not_leak_into_a_constraint() {
    let code = compile_body(
        "Other ::= INTEGER { top(5) }
         B ::= INTEGER { top(300) } (0..top)",
    );
    let tld = ident_after(&code, "pub struct B(pub ");
    assert!(
        holds(&tld, 0, 300),
        "B permits 0..300 but is represented as `{tld}`:\n{code}"
    );
}
