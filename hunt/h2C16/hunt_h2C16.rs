//! Hunt C16: "Generated identifiers are legal and keep the ASN.1 name recoverable".
//!
//! Every test but `sanity` fails on the unchanged code.
use rasn_compiler::prelude::*;

/// Compiles the body of a module with the rasn backend. The generated text is returned with
/// all white-space removed, so that the assertions do not depend on the formatter.
fn compile(config: RasnConfig, body: &str) -> Result<String, String> {
    let src = format!("Hunt-Module DEFINITIONS AUTOMATIC TAGS ::= BEGIN\n{body}\nEND");
    match std::panic::catch_unwind(|| {
        Compiler::<RasnBackend, _>::new_with_config(config)
            .add_asn_literal(&src)
            .compile_to_string()
    }) {
        Ok(Ok(res)) => {
            assert!(
                res.warnings.is_empty(),
                "unexpected warnings: {:?}",
                res.warnings
            );
            Ok(res.generated.split_whitespace().collect::<String>())
        }
        Ok(Err(e)) => Err(format!("compiler error: {e:?}")),
        Err(_) => Err("the compiler panicked".into()),
    }
}

fn rasn(body: &str) -> String {
    compile(RasnConfig::default(), body).unwrap()
}

fn count(haystack: &str, needle: &str) -> usize {
    haystack.matches(needle).count()
}

#[test]
fn sanity() {
    let generated = rasn("My-Type ::= SEQUENCE { my-comp INTEGER, type BOOLEAN, plain NULL }");
    assert!(generated.contains("pubstructMyType{"), "{generated}");
    assert!(generated.contains(r#"identifier="My-Type""#), "{generated}");
    assert!(
        generated.contains(r#"#[rasn(identifier="my-comp")]pubmy_comp:Integer,"#),
        "{generated}"
    );
    assert!(
        generated.contains(r#"#[rasn(identifier="type")]pubr_type:bool,"#),
        "{generated}"
    );
    assert!(generated.contains("pubplain:(),"), "{generated}");
    assert_eq!(count(&generated, "pubstruct"), 1);
}

/// A component or alternative named `self` with an anonymous type (title case `Self` is a
/// keyword and is escaped to `R_Self`): the hoisted inner type is declared as `TRSelf`, the component refers
/// to `TR_Self`, which is declared nowhere.
#[test]
fn inner_type_of_component_named_self_is_declared_under_the_name_that_is_used() {
    let generated = rasn("T ::= SEQUENCE { self SEQUENCE { a INTEGER } }");
    // the type the component `self` refers to
    let field = generated
        .split("pubr_self:")
        .nth(1)
        .expect("component `self` is rendered as `r_self`");
    let used: String = field
        .chars()
        .take_while(|c| c.is_alphanumeric() || *c == '_')
        .collect();
    assert!(
        generated.contains(&format!("pubstruct{used}{{")),
        "component `self` has type `{used}`, which is not declared: {generated}"
    );
}

/// X.681 7.4/7.5: a field reference is `&` followed by a typereference / valuereference, which
/// may contain hyphens. The name of the generated open type enum is built from the raw field
/// name: `SetX_My-Type` is not an identifier and `format_ident!` panics.
#[test]
fn class_field_reference_with_hyphen_gives_a_legal_identifier() {
    let result = compile(
        RasnConfig {
            opaque_open_types: false,
            ..Default::default()
        },
        r#"MY-CLASS ::= CLASS { &id INTEGER UNIQUE, &My-Type } WITH SYNTAX { &My-Type IDENTIFIED BY &id }
           Set-x MY-CLASS ::= { { BOOLEAN IDENTIFIED BY 1 } | { INTEGER IDENTIFIED BY 2 } }
           T ::= SEQUENCE {
               id  MY-CLASS.&id ({Set-x}),
               val MY-CLASS.&My-Type ({Set-x}{@id})
           }"#,
    );
    let generated = result.expect("a class field named `&My-Type` is legal ASN.1");
    assert!(generated.contains("pubenumSetX_"), "{generated}");
    assert!(!generated.contains("My-Type{"), "{generated}");
}

/// X.680 12.3: `aB` and `a-b` are two different identifiers, so they may be components of the
/// same SEQUENCE. Both are rendered as the field `a_b`.
#[test]
fn components_that_differ_by_case_or_hyphen_get_different_fields() {
    let generated = rasn("T ::= SEQUENCE { aB INTEGER, a-b BOOLEAN }");
    assert!(generated.contains(r#"identifier="aB""#), "{generated}");
    assert!(generated.contains(r#"identifier="a-b""#), "{generated}");
    assert_eq!(
        count(&generated, "puba_b:"),
        1,
        "two fields of one struct have the same name: {generated}"
    );
}

/// X.680 12.2: `Ab-c` and `AbC` are two different type references of one module. Both are
/// rendered as `AbC`.
#[test]
fn types_that_differ_by_case_or_hyphen_get_different_names() {
    let generated = rasn("Ab-c ::= INTEGER  AbC ::= BOOLEAN");
    assert!(generated.contains(r#"identifier="Ab-c""#), "{generated}");
    assert_eq!(
        count(&generated, "pubstructAbC("),
        1,
        "two items of one module have the same name: {generated}"
    );
}

/// A type reference and a value reference can never be the same ASN.1 name (upper-case versus
/// lower-case initial), but the upper snake case of the value `id` is the title case of the type
/// `ID`. A delegate type is a tuple struct, which lives in the value namespace as well, so
/// `pub struct ID(..)` and `pub static ID` cannot be items of the same module (E0428).
#[test]
fn value_and_delegate_type_that_differ_by_case_do_not_share_a_name() {
    let generated = rasn("ID ::= INTEGER  id ID ::= 5");
    let tuple_struct = generated.contains("pubstructID(");
    let value = generated.contains("pubstaticID:") || generated.contains("pubconstID:");
    assert!(
        !(tuple_struct && value),
        "tuple struct `ID` and value `ID` are both in the value namespace: {generated}"
    );
}

/// The functions for the DEFAULT values are named after the snake case of the *type* name,
/// which is the same for the two different types `TA` and `Ta`.
#[test]
fn default_functions_of_types_that_differ_by_case_get_different_names() {
    let generated =
        rasn("TA ::= SEQUENCE { b INTEGER DEFAULT 1 }  Ta ::= SEQUENCE { b INTEGER DEFAULT 2 }");
    assert!(generated.contains("pubstructTA{"), "{generated}");
    assert!(generated.contains("pubstructTa{"), "{generated}");
    assert_eq!(
        count(&generated, "fnta_b_default()"),
        1,
        "two functions of one module have the same name: {generated}"
    );
}
