//! Hunt for property C18: "TypeScript declarations have the JER shape of each type".
//!
//! Every test but `sanity` is expected to FAIL on the unchanged code.

use rasn_compiler::prelude::*;

/// Compiles the given module sources with the TypeScript backend.
fn ts(srcs: &[&str]) -> String {
    let mut c = Compiler::<TypescriptBackend, _>::new().add_asn_literal(srcs[0]);
    for s in &srcs[1..] {
        c = c.add_asn_literal(*s);
    }
    c.compile_to_string()
        .unwrap_or_else(|e| panic!("input does not compile: {e:?}"))
        .generated
}

/// Removes `// ...` line comments.
fn strip_comments(s: &str) -> String {
    s.lines()
        .map(|l| l.find("//").map_or(l, |i| &l[..i]))
        .collect::<Vec<_>>()
        .join("\n")
}

/// Are braces, brackets and parentheses balanced (string literals skipped)?
fn balanced(s: &str) -> bool {
    let mut stack = vec![];
    let mut in_str = false;
    for c in strip_comments(s).chars() {
        if c == '"' {
            in_str = !in_str;
            continue;
        }
        if in_str {
            continue;
        }
        match c {
            '{' | '[' | '(' => stack.push(c),
            '}' | ']' | ')' => {
                let open = match c {
                    '}' => '{',
                    ']' => '[',
                    _ => '(',
                };
                if stack.pop() != Some(open) {
                    return false;
                }
            }
            _ => {}
        }
    }
    stack.is_empty() && !in_str
}

/// The text between the braces of `export namespace <ns> { ... }`.
fn namespace(out: &str, ns: &str) -> Option<String> {
    let out = strip_comments(out);
    let head = format!("export namespace {ns} {{");
    let start = out.find(&head)? + head.len();
    let mut depth = 1usize;
    for (i, c) in out[start..].char_indices() {
        match c {
            '{' => depth += 1,
            '}' => {
                depth -= 1;
                if depth == 0 {
                    return Some(out[start..start + i].to_string());
                }
            }
            _ => {}
        }
    }
    None
}

/// All `export type|enum <name>` declarations of a namespace body: the right-hand sides,
/// whitespace removed.
fn decls(body: &str, name: &str) -> Vec<String> {
    let mut found = vec![];
    for head in [
        format!("export type {name} ="),
        format!("export enum {name} {{"),
    ] {
        let mut from = 0;
        while let Some(p) = body[from..].find(&head) {
            let start = from + p + head.len();
            let mut depth = if head.ends_with('{') { 1i32 } else { 0 };
            let mut end = body.len();
            for (i, c) in body[start..].char_indices() {
                match c {
                    '{' | '[' | '(' => depth += 1,
                    '}' | ']' | ')' => depth -= 1,
                    ';' if depth <= 0 => {
                        end = start + i;
                        break;
                    }
                    _ => {}
                }
            }
            found.push(
                body[start..end]
                    .chars()
                    .filter(|c| !c.is_whitespace())
                    .collect(),
            );
            from = end;
        }
    }
    found
}

/// Is `name` known in the namespace body, as a declaration or as an import alias?
fn known(body: &str, name: &str) -> bool {
    !decls(body, name).is_empty() || body.contains(&format!("import {name} ="))
}

#[test]
fn sanity() {
    let out = ts(&[
        r#"A DEFINITIONS AUTOMATIC TAGS ::= BEGIN
            IMPORTS Other-Type FROM B-mod;
            My-Seq ::= SEQUENCE {
                first-one INTEGER,
                second Other-Type OPTIONAL,
                third SEQUENCE OF ENUMERATED { x, y-z } DEFAULT {},
                ...
            }
            Ch ::= CHOICE { a NULL, b SET OF BOOLEAN }
            En ::= ENUMERATED { one, two-three }
            Closed ::= SET { r REAL }
            val INTEGER ::= 4
        END"#,
        r#"B-mod DEFINITIONS ::= BEGIN Other-Type ::= BOOLEAN END"#,
    ]);
    assert!(balanced(&out), "{out}");
    let a = namespace(&out, "A").expect("namespace A");
    let b = namespace(&out, "B_mod").expect("namespace B_mod");
    assert_eq!(
        decls(&a, "My_Seq"),
        vec![r#"{first_one:number,second?:Other_Type,third?:("x"|"y-z")[],[key:string]:any}"#]
    );
    assert_eq!(decls(&a, "Ch"), vec!["{a:null}|{b:boolean[]}"]);
    assert_eq!(decls(&a, "En"), vec![r#"one="one",two_three="two-three",}"#]);
    assert_eq!(decls(&a, "Closed"), vec!["{r:number,}"]);
    assert!(known(&a, "Other_Type"), "{out}");
    assert_eq!(decls(&b, "Other_Type"), vec!["boolean"]);
}

/// A type assignment whose type is REAL gets no declaration at all: `generate` sends
/// `ASN1Type::Real` to `generate_number_like`, which only accepts `ASN1Type::Integer`.
#[test]
fn toplevel_real_is_declared() {
    let out = ts(&["M DEFINITIONS ::= BEGIN R ::= REAL S ::= SEQUENCE { r R } END"]);
    let m = namespace(&out, "M").expect("namespace M");
    assert_eq!(decls(&m, "S"), vec!["{r:R,}"], "{out}");
    assert_eq!(decls(&m, "R"), vec!["number"], "R is mentioned but not declared:\n{out}");
}

/// An imported type whose name has no lower-case letter (`ID`, `UUID`, `T`) is taken for an
/// information object class and gets no import alias, so the name is unknown in the namespace.
#[test]
fn imported_upper_case_type_is_imported() {
    let out = ts(&[
        "A DEFINITIONS ::= BEGIN IMPORTS ID FROM B; S ::= SEQUENCE { id ID } END",
        "B DEFINITIONS ::= BEGIN ID ::= INTEGER END",
    ]);
    let a = namespace(&out, "A").expect("namespace A");
    let b = namespace(&out, "B").expect("namespace B");
    assert_eq!(decls(&b, "ID"), vec!["number"], "{out}");
    assert_eq!(decls(&a, "S"), vec!["{id:ID,}"], "{out}");
    assert!(known(&a, "ID"), "ID is neither declared nor imported in A:\n{out}");
}

/// Two modules may each define a type of the same name. The validator keys all definitions of
/// all modules by their bare name, so the earlier definition is silently dropped.
#[test]
fn same_type_name_in_two_modules() {
    let out = ts(&[
        "A DEFINITIONS ::= BEGIN Aa ::= INTEGER Common ::= BOOLEAN END",
        "B DEFINITIONS ::= BEGIN Bb ::= INTEGER Common ::= NULL END",
    ]);
    let a = namespace(&out, "A").expect("namespace A");
    let b = namespace(&out, "B").expect("namespace B");
    assert_eq!(decls(&b, "Common"), vec!["null"], "{out}");
    assert_eq!(decls(&a, "Aa"), vec!["number"], "{out}");
    assert_eq!(decls(&a, "Common"), vec!["boolean"], "A.Common has no declaration:\n{out}");
}

/// The value `{}` of a SEQUENCE OF type is rendered as `]`: `value_to_tokens` pops the last
/// character to get rid of a trailing comma, which for an empty list is the opening bracket.
#[test]
fn empty_list_value_keeps_brackets_balanced() {
    let out = ts(&[
        "M DEFINITIONS ::= BEGIN List ::= SEQUENCE OF INTEGER none List ::= {} some List ::= { 1, 2 } END",
    ]);
    assert!(out.contains("export const some = [1,2];"), "{out}");
    assert!(balanced(&out), "unbalanced brackets:\n{out}");
}

/// X.697 24: a BIT STRING with a fixed size is a JSON string of hexadecimal digits, only a
/// BIT STRING of variable size is an object with `value` and `length`. `is_fixed_size` looks
/// for a single value constraint and never sees a SIZE constraint.
#[test]
fn fixed_size_bit_string_is_a_string() {
    let out = ts(&[
        "M DEFINITIONS ::= BEGIN Fixed ::= BIT STRING (SIZE(8)) Var ::= BIT STRING (SIZE(1..8)) S ::= SEQUENCE { f BIT STRING (SIZE(16)) } END",
    ]);
    let m = namespace(&out, "M").expect("namespace M");
    assert_eq!(decls(&m, "Var"), vec!["{value:string,length:number}"], "{out}");
    assert_eq!(decls(&m, "Fixed"), vec!["string"], "{out}");
    assert_eq!(decls(&m, "S"), vec!["{f:string,}"], "{out}");
}

/// X.680 13.16: a module without an IMPORTS clause refers to the definitions of other modules
/// by external references `Module.Type`. The module part is thrown away, and the bare name is
/// neither declared nor imported in the namespace.
#[test]
fn external_type_reference_is_resolvable() {
    let out = ts(&[
        "A DEFINITIONS ::= BEGIN T ::= SEQUENCE { x B.Uu } END",
        "B DEFINITIONS ::= BEGIN Uu ::= INTEGER END",
    ]);
    let a = namespace(&out, "A").expect("namespace A");
    let t = decls(&a, "T");
    assert_eq!(t.len(), 1, "{out}");
    assert!(
        t[0] == "{x:B.Uu,}" || (t[0] == "{x:Uu,}" && known(&a, "Uu")),
        "Uu is neither qualified, declared nor imported in A:\n{out}"
    );
}
