//! Hunt for property C14: "ENUMERATED items get the numbers X.680 §20 assigns".
//!
//! Every test compiles a minimal module with the rasn backend and compares the variants of
//! the generated Rust enum (identifier, discriminant, extension-addition flag, in order of
//! appearance) with what X.680 §20 demands.

use rasn_compiler::prelude::*;

/// (original ASN.1 identifier, number, is extension addition)
type Variants = Vec<(String, i128, bool)>;

fn compile(body: &str) -> Result<String, String> {
    let src = format!("M DEFINITIONS AUTOMATIC TAGS ::= BEGIN\n{body}\nEND");
    let compiled = std::panic::catch_unwind(|| {
        Compiler::<RasnBackend, _>::new()
            .add_asn_literal(&src)
            .compile_to_string()
    })
    .map_err(|_| String::from("the compiler panicked"))?;
    compiled
        .map(|r| r.generated)
        .map_err(|e| format!("compile error: {e:?}"))
}

/// Projects `pub enum <name> { .. }` of the generated bindings onto its variants.
fn variants_of(generated: &str, name: &str) -> Option<Variants> {
    let flat: String = generated.split_whitespace().collect::<Vec<_>>().join(" ");
    let body = flat
        .split_once(&format!("pub enum {name} {{"))?
        .1
        .split_once('}')?
        .0;
    let mut out = vec![];
    for member in body.split(',').map(str::trim).filter(|m| !m.is_empty()) {
        let is_addition = member.contains("extension_addition");
        let original = member
            .split_once("identifier = \"")
            .map(|(_, rest)| rest.split_once('"').unwrap().0.to_string());
        let declaration = member.rsplit(']').next().unwrap().trim();
        let (rust_name, number) = declaration.split_once('=')?;
        out.push((
            original.unwrap_or_else(|| rust_name.trim().to_string()),
            number.replace(' ', "").parse().ok()?,
            is_addition,
        ));
    }
    Some(out)
}

fn enumerals(body: &str, name: &str) -> Result<Variants, String> {
    let generated = compile(body)?;
    variants_of(&generated, name).ok_or(format!("no `enum {name}` was generated:\n{generated}"))
}

fn expect(items: &[(&str, i128, bool)]) -> Result<Variants, String> {
    Ok(items.iter().map(|(n, i, x)| (n.to_string(), *i, *x)).collect())
}

#[test]
fn sanity() {
    assert_eq!(
        enumerals(
            "E ::= ENUMERATED { a-b, b(0), c(-1), type, ..., d, e(7), f }",
            "E"
        ),
        expect(&[
            ("a-b", 1, false),
            ("b", 0, false),
            ("c", -1, false),
            ("type", 2, false),
            ("d", 3, true),
            ("e", 7, true),
            ("f", 8, true),
        ])
    );
}

/// X.680 20.1: NamedNumber ::= identifier "(" SignedNumber ")" | identifier "(" DefinedValue ")".
/// 20.3 note / 19.2-19.3 by reference: the DefinedValue is an INTEGER value reference.
#[test]
fn number_given_by_defined_value() {
    assert_eq!(
        enumerals("v INTEGER ::= 5  E ::= ENUMERATED { a(v), b }", "E"),
        expect(&[("a", 5, false), ("b", 0, false)])
    );
}

/// X.680 20.1: Enumerations ::= RootEnumeration "," "..." ExceptionSpec "," AdditionalEnumeration
/// with ExceptionSpec ::= "!" ExceptionIdentification | empty (X.680 53.4).
#[test]
fn exception_spec_after_extension_marker() {
    assert_eq!(
        enumerals("E ::= ENUMERATED { a, b, ... !1, c }", "E"),
        expect(&[("a", 0, false), ("b", 1, false), ("c", 2, true)])
    );
}

/// A subtype constraint directly on the ENUMERATED type notation (X.680 49.1, 51.2) does not
/// change the numbers of the parent type's enumerals.
#[test]
fn constrained_enumerated_type_assignment() {
    assert_eq!(
        enumerals("E ::= ENUMERATED { a, b(0) } (a)", "E"),
        expect(&[("a", 1, false), ("b", 0, false)])
    );
}

/// An ENUMERATED defined in place as a SEQUENCE component with a DEFAULT value is valid
/// (X.680 25.1, 25.9); its enumerals still need their numbers in the bindings.
#[test]
fn inline_enumerated_component_with_default() {
    assert_eq!(
        enumerals("S ::= SEQUENCE { e ENUMERATED { x(3), y } DEFAULT y }", "SE"),
        expect(&[("x", 3, false), ("y", 0, false)])
    );
}

/// X.680 12.1.6: VERTICAL TABULATION (11) and FORM FEED (12) are white-space (and newline)
/// characters and may stand between any two lexical items.
#[test]
fn form_feed_between_enumerals() {
    assert_eq!(
        enumerals("E ::= ENUMERATED { a,\u{c} b(0) }", "E"),
        expect(&[("a", 1, false), ("b", 0, false)])
    );
}

/// Explicit numbers are kept whatever their size: an addition that carries the largest number
/// the IR can hold must not abort the compiler (`index + 1` overflows in `number_enumerals`).
#[test]
fn largest_number_on_an_addition() {
    assert_eq!(
        enumerals(
            "E ::= ENUMERATED { a, ..., b(170141183460469231731687303715884105727) }",
            "E"
        ),
        expect(&[("a", 0, false), ("b", i128::MAX, true)])
    );
}
