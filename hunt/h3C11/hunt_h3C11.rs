//! Hunt for violations of property C11: the generated text and the multiset of warnings are a
//! deterministic function of the set of input definitions (repetition, other threads, permuted
//! assignments / modules / sources all give byte-identical bindings).
//!
//! Every test asserts the property, so a failing test is a confirmed violation.
use rasn_compiler::prelude::*;

/// rustfmt is applied "when found in the environment" (known, by design); keep it out of the picture.
fn no_fmt() {
    std::env::remove_var("CARGO");
    std::env::remove_var("CARGO_HOME");
}

fn render(result: Result<CompileResult, CompilerError>) -> String {
    match result {
        Ok(r) => {
            let mut w: Vec<String> = r.warnings.iter().map(|w| w.to_string()).collect();
            w.sort();
            format!("OK\n{}\nWARNINGS\n{}", r.generated, w.join("\n"))
        }
        Err(e) => format!("ERR {e}"),
    }
}

fn rasn(src: &str) -> String {
    render(
        Compiler::<RasnBackend, _>::new()
            .add_asn_literal(src)
            .compile_to_string(),
    )
}

fn ts(src: &str) -> String {
    render(
        Compiler::<TypescriptBackend, _>::new()
            .add_asn_literal(src)
            .compile_to_string(),
    )
}

fn module(assignments: &[&str]) -> String {
    format!(
        "Mod DEFINITIONS AUTOMATIC TAGS ::= BEGIN\n{}\nEND\n",
        assignments.join("\n")
    )
}

// ---------------------------------------------------------------------------------------------
// 1. The comments in front of an assignment are part of that definition (they become its doc
//    comment). Whether they survive depends on the assignment that happens to stand in front.
// ---------------------------------------------------------------------------------------------

/// `Flag ::= BOOLEAN` swallows the comments that follow it, so the doc comment of `Count`
/// exists only when `Count` is not written directly after a BOOLEAN type assignment.
#[test]
fn doc_comment_lost_after_boolean() {
    no_fmt();
    let flag = "Flag ::= BOOLEAN";
    let count = "-- number of items\nCount ::= INTEGER";
    let flag_first = module(&[flag, count]);
    let count_first = module(&[count, flag]);

    let (a, b) = (rasn(&flag_first), rasn(&count_first));
    assert!(a.starts_with("OK") && b.starts_with("OK"), "{a}\n{b}");
    assert_eq!(
        a, b,
        "rasn bindings differ when the two assignments of the module are swapped"
    );
    let (a, b) = (ts(&flag_first), ts(&count_first));
    assert_eq!(
        a, b,
        "TypeScript bindings differ when the two assignments of the module are swapped"
    );
}

/// Same defect, second site: `INSTANCE OF CLASS-NAME` without a constraint.
#[test]
fn doc_comment_lost_after_instance_of() {
    no_fmt();
    let class = "FOO ::= CLASS { &id OBJECT IDENTIFIER UNIQUE, &Type }";
    let inst = "Inst ::= INSTANCE OF FOO";
    let count = "/* number of items */\nCount ::= INTEGER";
    let inst_first = module(&[class, inst, count]);
    let count_first = module(&[class, count, inst]);

    let (a, b) = (rasn(&inst_first), rasn(&count_first));
    assert!(a.starts_with("OK") && b.starts_with("OK"), "{a}\n{b}");
    assert_eq!(
        a, b,
        "rasn bindings differ when `Inst` and `Count` are swapped"
    );
}

/// Real-world shape (e.g. itu-t_x_x462 MhsAcctAsn1Module, v2x.asn1): reversing the module keeps
/// every comment in front of its assignment, yet the bindings change.
#[test]
fn doc_comment_lost_after_boolean_reversal() {
    no_fmt();
    let defs = [
        "-- operation status\nOperationStatus ::= INTEGER {in-progress(0), ok(1), error(2)}",
        "-- service flag\nServiceFlag ::= BOOLEAN",
        "-- Contact attributes\nContactId ::= IA5String",
    ];
    let forward = module(&defs);
    let mut reversed_defs = defs;
    reversed_defs.reverse();
    let reversed = module(&reversed_defs);
    assert_eq!(rasn(&forward), rasn(&reversed));
}

// ---------------------------------------------------------------------------------------------
// 2./3. "Running it on another thread": the recursion depth of the compiler is only bounded by
//    the stack of the calling thread. The main thread has 8 MiB, every `std::thread::spawn`ed
//    thread (and every thread of a pool / of the test harness) has 2 MiB, so the very same input
//    compiles on one and aborts the whole process on the other.
//    The compilation on the small thread is done in a child process (this test binary
//    re-executed), because a stack overflow cannot be caught.
// ---------------------------------------------------------------------------------------------

const MAIN_THREAD_STACK: usize = 8 * 1024 * 1024;

fn nested_sequences(depth: usize) -> String {
    let mut s = String::from("M DEFINITIONS AUTOMATIC TAGS ::= BEGIN\nA ::= ");
    for _ in 0..depth {
        s.push_str("SEQUENCE { a ");
    }
    s.push_str("INTEGER");
    for _ in 0..depth {
        s.push_str(" }");
    }
    s.push_str("\nEND\n");
    s
}

fn reference_chain(length: usize) -> String {
    let mut s = String::from("M DEFINITIONS AUTOMATIC TAGS ::= BEGIN\nT0 ::= INTEGER (0..10)\n");
    for i in 1..=length {
        s.push_str(&format!("T{i} ::= T{}\n", i - 1));
    }
    s.push_str(&format!("v T{length} ::= 5\nEND\n"));
    s
}

const BEGIN_MARK: &str = "<<<H3C11-BEGIN>>>";
const END_MARK: &str = "<<<H3C11-END>>>";

/// Compiles `src` on a thread that has the stack of the main thread and, in a child process, on
/// a plain `std::thread::spawn` thread; asserts that both give the same result.
fn same_result_on_spawned_thread(test_name: &str, src: String) {
    no_fmt();
    if std::env::var("H3C11_CHILD").is_ok() {
        // child: another thread, nothing else changed
        let out = std::thread::spawn(move || rasn(&src)).join().unwrap();
        println!("{BEGIN_MARK}{out}{END_MARK}");
        return;
    }
    let expected = {
        let src = src.clone();
        std::thread::Builder::new()
            .stack_size(MAIN_THREAD_STACK)
            .spawn(move || rasn(&src))
            .unwrap()
            .join()
            .unwrap()
    };
    assert!(
        expected.starts_with("OK"),
        "the input compiles on a thread with the stack of the main thread: {}",
        &expected[..expected.len().min(200)]
    );
    let child = std::process::Command::new(std::env::current_exe().unwrap())
        .args(["--exact", test_name, "--nocapture", "--test-threads=1"])
        .env("H3C11_CHILD", "1")
        .env_remove("RUST_MIN_STACK")
        .output()
        .unwrap();
    let stdout = String::from_utf8_lossy(&child.stdout);
    let stderr = String::from_utf8_lossy(&child.stderr);
    assert!(
        child.status.success(),
        "compiling the same input on a std::thread::spawn thread kills the process ({}): {}",
        child.status,
        stderr.lines().filter(|l| l.contains("overflow")).collect::<Vec<_>>().join(" / ")
    );
    let got = stdout
        .split(BEGIN_MARK)
        .nth(1)
        .and_then(|s| s.split(END_MARK).next())
        .unwrap_or("<no output>");
    assert_eq!(expected, got);
}

/// Anonymous SEQUENCE types nested 24 deep (unoptimised build; 400 deep when optimised):
/// fine on the main thread, stack overflow in the nom parser on a spawned thread.
#[test]
fn nested_types_compile_on_spawned_thread() {
    let depth = if cfg!(debug_assertions) { 24 } else { 400 };
    same_result_on_spawned_thread(
        "nested_types_compile_on_spawned_thread",
        nested_sequences(depth),
    );
}

/// A value of a type that is reached through a chain of 200 type references
/// (`T200 ::= T199`, ... `T1 ::= T0`; 16000 when optimised): the linker follows the chain recursively.
#[test]
fn reference_chain_compiles_on_spawned_thread() {
    let length = std::env::var("H3C11_LEN").ok().and_then(|v| v.parse().ok()).unwrap_or(if cfg!(debug_assertions) { 200 } else { 16000 });
    same_result_on_spawned_thread(
        "reference_chain_compiles_on_spawned_thread",
        reference_chain(length),
    );
}
