//! Property C04: emitted value and size bounds equal the PER-visible effective constraint.
//! Every test except `sanity` is expected to FAIL on the unchanged code.
use rasn_compiler::prelude::*;

/// Compiles the body of a module with the rasn backend and returns the generated
/// code with all whitespace removed (so that attribute formatting does not matter).
fn gen(body: &str) -> String {
    let src = format!("HuntC04 DEFINITIONS AUTOMATIC TAGS ::= BEGIN\n{body}\nEND");
    let res = Compiler::<RasnBackend, _>::new()
        .add_asn_literal(&src)
        .compile_to_string()
        .unwrap_or_else(|e| panic!("compilation failed for\n{body}\n{e:?}"));
    assert!(
        res.warnings.is_empty(),
        "unexpected warnings for\n{body}\n{:?}",
        res.warnings
    );
    res.generated.chars().filter(|c| !c.is_whitespace()).collect()
}

#[test]
fn sanity() {
    let g = gen("A ::= INTEGER (1..5)\nB ::= OCTET STRING (SIZE(1..4, ...))");
    assert!(g.contains(r#"#[rasn(delegate,value("1..=5"))]pubstructA(pubu8);"#), "{g}");
    assert!(g.contains(r#"#[rasn(delegate,size("1..=4",extensible))]pubstructB(pubOctetString);"#), "{g}");
}

/// A component whose type is a *reference* to an INTEGER type is treated as unsigned:
/// the accumulated bound starts at 0, so every negative lower bound is replaced by 0.
#[test]
fn negative_lower_bound_on_component_of_referenced_integer_type() {
    let g = gen("P ::= INTEGER\nA ::= SEQUENCE { a P (-3..5) }");
    assert!(!g.contains(r#"value("0..=5")"#), "values -3..-1 are excluded: {g}");
    assert!(g.contains(r#"#[rasn(value("-3..=5"))]puba:P"#), "{g}");
}

/// X.691 10.3.21: a union of PER-visible parts is PER-visible; the contained subtype P
/// contributes 1..9, so the effective constraint is 1..30. The fold drops the contained subtype.
#[test]
fn union_with_contained_subtype_keeps_the_values_of_the_subtype() {
    let g = gen("P ::= INTEGER (1..9)\nA ::= INTEGER (P | 20..30)");
    assert!(!g.contains(r#"value("20..=30")"#), "values 1..9 are excluded: {g}");
    assert!(g.contains(r#"#[rasn(delegate,value("1..=30"))]pubstructA("#), "{g}");
}

/// The element type of a SEQUENCE OF / SET OF is `P (2..5)`; its constraint has to show up
/// somewhere in the generated code (it is silently dropped: the element is plain `P`, 1..9).
#[test]
fn constraint_on_referenced_element_type_of_sequence_of() {
    let g = gen("P ::= INTEGER (1..9)\nA ::= SEQUENCE OF P (2..5)");
    assert!(g.contains(r#"value("2..=5")"#), "{g}");
}

/// A union of two SIZE constraints is a size constraint (hull 1..7), not a value constraint.
#[test]
fn union_of_size_constraints_is_a_size_bound() {
    let g = gen("A ::= OCTET STRING (SIZE(1..3) | SIZE(5..7))");
    assert!(!g.contains("value("), "size bound rendered as value bound: {g}");
    assert!(g.contains(r#"#[rasn(delegate,size("1..=7"))]pubstructA(pubOctetString);"#), "{g}");
    // same flag is lost in three-operand intersections whose first operand is not SIZE
    let g = gen(r#"B ::= IA5String (FROM("a".."c") ^ FROM("a".."z") ^ SIZE(1..3))"#);
    assert!(!g.contains("value("), "size bound rendered as value bound: {g}");
    assert!(g.contains(r#"size("1..=3")"#), "{g}");
}

/// X.680 50.1 (ElementSetSpecs ::= RootElementSetSpec "," "..." "," AdditionalElementSetSpec):
/// everything after ", ...," is an extension addition; X.691 10.3.10: only the root is used
/// for the bound. `5 | 7` leaks `7` into the root.
#[test]
fn set_operator_in_extension_additions_does_not_change_the_root() {
    let g = gen("A ::= INTEGER (1..3, ..., 5 | 7)");
    assert!(g.contains(r#"#[rasn(delegate,value("1..=3",extensible))]pubstructA("#), "{g}");
}

/// X.680 51.4.1/51.4.2: `"<" UpperEndValue` excludes the endpoint: (1..<5) is 1..4.
#[test]
fn open_upper_endpoint_is_excluded() {
    let g = gen("A ::= INTEGER (1..<5)");
    assert!(g.contains(r#"#[rasn(delegate,value("1..=4"))]pubstructA(pubu8);"#), "{g}");
}
