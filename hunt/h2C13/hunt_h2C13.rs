//! Property C13: white-space, line endings and comments between lexical items do not matter.
//!
//! Every test compiles a base text and a re-laid-out text that differs from the base only in
//! the white-space / comments between two lexical items, and demands the same outcome
//! (same Ok/Err status and, apart from doc attributes, identical bindings and warnings).
use rasn_compiler::prelude::*;

/// Removes `#[doc = "..."]` attributes and `///` lines, then collapses white-space.
fn strip_docs(s: &str) -> String {
    let mut out = String::new();
    let b = s.as_bytes();
    let mut i = 0;
    while i < b.len() {
        let rest = &s[i..];
        let attr = ["# [doc = \"", "#[doc = \"", "# [doc=\"", "#[doc=\""]
            .iter()
            .find(|p| rest.starts_with(**p))
            .map(|p| p.len());
        if let Some(l) = attr {
            let mut j = i + l;
            while j < b.len() && b[j] != b'"' {
                j += if b[j] == b'\\' { 2 } else { 1 };
            }
            while j < b.len() && b[j] != b']' {
                j += 1;
            }
            i = j + 1;
            continue;
        }
        let ch = rest.chars().next().unwrap();
        out.push(ch);
        i += ch.len_utf8();
    }
    out.lines()
        .filter(|l| !l.trim_start().starts_with("///"))
        .collect::<Vec<_>>()
        .join("\n")
        .split_whitespace()
        .collect::<Vec<_>>()
        .join(" ")
}

/// Ok(bindings without docs + warnings) or Err(error text)
fn compile(src: &str) -> Result<String, String> {
    match Compiler::<RasnBackend, _>::new()
        .add_asn_literal(src)
        .compile_to_string()
    {
        Ok(r) => Ok(format!(
            "{}\nWARNINGS: {}",
            strip_docs(&r.generated),
            r.warnings
                .iter()
                .map(|w| format!("{w:?}"))
                .collect::<Vec<_>>()
                .join("; ")
        )),
        Err(e) => Err(format!("{e:?}")),
    }
}

fn module(body: &str) -> String {
    format!("M DEFINITIONS AUTOMATIC TAGS ::= BEGIN\n{body}\nEND\n")
}

/// `base` has to compile (it shows that the input is accepted at all); every variant has to
/// give exactly the same result.
fn assert_same_outcome(base: &str, variants: &[&str]) {
    let expected = compile(base);
    assert!(
        expected.is_ok(),
        "the base text is expected to compile:\n{base}\n{expected:?}"
    );
    let mut deviations = vec![];
    for variant in variants {
        let got = compile(variant);
        if got != expected {
            deviations.push(format!(
                "--- re-laid-out text:\n{variant}\n--- outcome:\n{got:?}\n"
            ));
        }
    }
    assert!(
        deviations.is_empty(),
        "{} of {} re-laid-out texts deviate from the base\n--- base text:\n{base}\n--- outcome:\n{expected:?}\n{}",
        deviations.len(),
        variants.len(),
        deviations.join("\n")
    );
}

#[test]
fn sanity() {
    let base = module("A ::= SEQUENCE { a INTEGER (0..7), b BOOLEAN OPTIONAL }");
    let relaid = module(
        "A -- c --::=/* x */SEQUENCE\r\n{\ta -- \"{ END\n INTEGER(0 ..7)/* /* n */ */,b\nBOOLEAN\tOPTIONAL}",
    );
    assert_same_outcome(&base, &[&relaid]);
    assert!(compile(&base).unwrap().contains("pub struct A"));
}

/// X.683 8.1 / 9.5: the parameters of a ParameterList and of an ActualParameterList are
/// separated by the lexical item ",". White-space or a comment in front of that comma is a
/// syntax error (real-world: every X.500 / IN module fails once it is re-laid-out with a
/// space before the commas of `MAPPING-BASED-MATCHING {SelectedBy, BOOLEAN:combinable, ...}`).
#[test]
fn whitespace_before_comma_in_parameter_lists() {
    let base = module("P {T, U} ::= SEQUENCE { a T, b U }\nA ::= INTEGER\nQ ::= P {A, NULL}");
    assert_same_outcome(
        &base,
        &[
            // formal parameter list
            &module("P {T , U} ::= SEQUENCE { a T, b U }\nA ::= INTEGER\nQ ::= P {A, NULL}"),
            &module("P {T -- first --, U} ::= SEQUENCE { a T, b U }\nA ::= INTEGER\nQ ::= P {A, NULL}"),
            // actual parameter list
            &module("P {T, U} ::= SEQUENCE { a T, b U }\nA ::= INTEGER\nQ ::= P {A , NULL}"),
            &module("P {T, U} ::= SEQUENCE { a T, b U }\nA ::= INTEGER\nQ ::= P {A /* c */, NULL}"),
        ],
    );
}

/// X.683 9.1: `ParameterizedReference ::= Reference | Reference "{" "}"` - three lexical
/// items. In EXPORTS and IMPORTS only the exact text `Ref{}` is accepted.
#[test]
fn parameterized_reference_in_exports_and_imports() {
    let base = "M DEFINITIONS ::= BEGIN EXPORTS P{}; IMPORTS Q{} FROM N; P {T} ::= SEQUENCE { a T } R ::= Q {NULL} END \
                N DEFINITIONS ::= BEGIN Q {T} ::= SEQUENCE { b T } END";
    assert_same_outcome(
        base,
        &[
            &base.replace("P{};", "P {};"),
            &base.replace("P{};", "P{ };"),
            &base.replace("Q{} FROM", "Q {} FROM"),
            &base.replace("Q{} FROM", "Q{ -- none -- } FROM"),
        ],
    );
}

/// X.681 15.1: `ValueFromObject ::= ReferencedObjects "." FieldName` (likewise TypeFromObject):
/// the object reference, the "." and the `&field` are separate lexical items.
/// `CLASS . &field` is accepted with any layout, `object . &field` only without white-space.
#[test]
fn whitespace_around_dot_of_information_from_object() {
    let class = "C ::= CLASS { &id INTEGER UNIQUE, &max INTEGER, &T }\no C ::= { &id 1, &max 5, &T BOOLEAN }\n";
    let base = module(&format!(
        "{class}A ::= INTEGER (0..o.&max)\nv INTEGER ::= o.&max\nS ::= SEQUENCE {{ a o.&T }}"
    ));
    assert_same_outcome(
        &base,
        &[
            &module(&format!(
                "{class}A ::= INTEGER (0..o . &max)\nv INTEGER ::= o.&max\nS ::= SEQUENCE {{ a o.&T }}"
            )),
            &module(&format!(
                "{class}A ::= INTEGER (0..o.&max)\nv INTEGER ::= o . &max\nS ::= SEQUENCE {{ a o.&T }}"
            )),
            &module(&format!(
                "{class}A ::= INTEGER (0..o.&max)\nv INTEGER ::= o.&max\nS ::= SEQUENCE {{ a o /* c */ . &T }}"
            )),
        ],
    );
}

/// `I ::= INSTANCE OF C` : the type lexer of INSTANCE OF does not skip leading white-space, so
/// the assignment only compiles when INSTANCE follows `::=` without any white-space.
#[test]
fn whitespace_between_assignment_and_instance_of() {
    let base = module("I ::=INSTANCE OF TYPE-IDENTIFIER");
    assert_same_outcome(
        &base,
        &[
            &module("I ::= INSTANCE OF TYPE-IDENTIFIER"),
            &module("I ::=\n  INSTANCE OF TYPE-IDENTIFIER"),
            &module("I ::= -- c --INSTANCE OF TYPE-IDENTIFIER"),
        ],
    );
    // inside a constraint white-space is skipped, a comment is not
    let base = module("X ::= OCTET STRING (CONTAINING INSTANCE OF TYPE-IDENTIFIER)");
    assert_same_outcome(
        &base,
        &[&module(
            "X ::= OCTET STRING (CONTAINING /* c */ INSTANCE OF TYPE-IDENTIFIER)",
        )],
    );
}

/// X.680 12.1.6: the white-space characters are HT (9), LF (10), VT (11), FF (12), CR (13) and
/// SPACE (32). Form feeds (page breaks of modules copied from RFCs / Recommendations) and
/// vertical tabs between lexical items are syntax errors.
#[test]
fn form_feed_and_vertical_tab_are_whitespace() {
    let base = module("A ::= INTEGER\nB ::= SEQUENCE { a A }");
    assert_same_outcome(
        &base,
        &[
            &module("A ::= INTEGER\n\u{c}\nB ::= SEQUENCE { a A }"),
            &module("A ::= INTEGER\nB ::= SEQUENCE {\u{c} a A }"),
            &module("A ::= INTEGER\u{b}B ::= SEQUENCE { a A }"),
        ],
    );
}

/// A comment between the braces of `CONSTRAINED BY { }` must not matter, whatever its text.
/// The braces are matched textually, so a comment that contains a brace is a syntax error.
#[test]
fn comment_with_brace_inside_constrained_by() {
    let base = module("A ::= OCTET STRING (CONSTRAINED BY { })");
    assert_same_outcome(
        &base,
        &[
            &module("A ::= OCTET STRING (CONSTRAINED BY { -- see clause 7 -- })"),
            &module("A ::= OCTET STRING (CONSTRAINED BY { -- closes with } -- })"),
            &module("A ::= OCTET STRING (CONSTRAINED BY { /* opens with { */ })"),
        ],
    );
}
