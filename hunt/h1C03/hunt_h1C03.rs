//! Property C03: tags and tagging mode follow X.680 under the module's tagging environment.
//! One failing test per defect found on the unchanged code, plus `sanity`.
#![allow(non_camel_case_types, non_snake_case, unused)]

use rasn_compiler::prelude::*;

/// Compiles `src` with the rasn backend and returns the bindings with all white-space removed.
fn bindings(src: &str) -> String {
    rasn_compiler::Compiler::<RasnBackend, _>::new()
        .add_asn_literal(src)
        .compile_to_string()
        .unwrap_or_else(|e| panic!("input does not compile: {e:?}"))
        .generated
        .replace(|c: char| c.is_whitespace(), "")
}

/// The `#[rasn(..)]` attribute that directly precedes `item` (e.g. "pubstructV{", "pubx:")
/// in the white-space-free bindings; empty when the item carries no rasn attribute.
fn rasn_attr(generated: &str, item: &str) -> String {
    let at = generated
        .find(item)
        .unwrap_or_else(|| panic!("`{item}` not found in {generated}"));
    let before = &generated[..at];
    if !before.ends_with(")]") {
        return String::new();
    }
    let start = before.rfind("#[").unwrap();
    let attr = &before[start..];
    if attr.starts_with("#[rasn(") {
        attr.to_owned()
    } else {
        String::new()
    }
}

fn hex(bytes: &[u8]) -> String {
    bytes
        .iter()
        .map(|b| format!("{b:02X}"))
        .collect::<Vec<_>>()
        .join(" ")
}

mod sanity_bindings {
    rasn_compiler_derive::asn1!(
        "Sanity DEFINITIONS EXPLICIT TAGS ::= BEGIN
         S ::= SEQUENCE { a [0] INTEGER, b [1] IMPLICIT BOOLEAN }
         END"
    );
}

#[test]
fn sanity() {
    let g = bindings(
        "Sanity DEFINITIONS EXPLICIT TAGS ::= BEGIN
         S ::= SEQUENCE { a [0] INTEGER, b [1] IMPLICIT BOOLEAN }
         T ::= [APPLICATION 3] OCTET STRING
         END",
    );
    assert_eq!(rasn_attr(&g, "puba:"), "#[rasn(tag(explicit(context,0)))]");
    assert_eq!(rasn_attr(&g, "pubb:"), "#[rasn(tag(context,1))]");
    assert_eq!(
        rasn_attr(&g, "pubstructT("),
        "#[rasn(delegate,tag(explicit(application,3)))]"
    );
    assert_eq!(rasn_attr(&g, "pubstructS{"), "");
    use sanity_bindings::sanity::*;
    assert_eq!(
        hex(&rasn::der::encode(&S::new(7.into(), true)).unwrap()),
        "30 08 A0 03 02 01 07 81 01 FF"
    );
}

/// `IMPLICITRef` is an ordinary typereference (X.680 12.2: only the exact reserved words are
/// excluded). The tag parser consumes the prefix `IMPLICIT` as the tagging keyword and goes on
/// with the type `Ref`, which happens to exist: wrong tagging mode and wrong type, silently.
#[test]
fn typereference_starting_with_a_tagging_keyword() {
    let g = bindings(
        "M DEFINITIONS EXPLICIT TAGS ::= BEGIN
         Ref ::= INTEGER
         IMPLICITRef ::= BOOLEAN
         S ::= SEQUENCE { a [0] IMPLICITRef }
         END",
    );
    assert!(
        g.contains("#[rasn(tag(explicit(context,0)))]puba:IMPLICITRef,"),
        "component `a [0] IMPLICITRef` under EXPLICIT TAGS must be an explicitly tagged IMPLICITRef, got: {} pub a: ...{}",
        rasn_attr(&g, "puba:"),
        &g[g.find("puba:").unwrap()..][..20]
    );
}

/// The tag written in a parameterized type assignment belongs to every instance of it.
#[test]
fn tag_of_a_parameterized_type_assignment_is_kept_by_its_instances() {
    let g = bindings(
        "M DEFINITIONS IMPLICIT TAGS ::= BEGIN
         PT{T} ::= [APPLICATION 9] SEQUENCE { a T }
         V ::= PT{BOOLEAN}
         END",
    );
    assert_eq!(
        rasn_attr(&g, "pubstructV{"),
        "#[rasn(tag(application,9))]",
        "V ::= PT{{BOOLEAN}} is [APPLICATION 9] IMPLICIT SEQUENCE {{ a BOOLEAN }}"
    );
}

/// A type written inline as an actual parameter is text of the module like any other:
/// its tags without keyword are explicit under EXPLICIT TAGS (X.680 31.2.7).
#[test]
fn tags_inside_an_inline_actual_parameter_follow_the_module_default() {
    let g = bindings(
        "M DEFINITIONS EXPLICIT TAGS ::= BEGIN
         P{T} ::= SEQUENCE { a [0] T }
         U ::= P{ SEQUENCE { x [3] INTEGER } }
         END",
    );
    assert_eq!(rasn_attr(&g, "puba:"), "#[rasn(tag(explicit(context,0)))]");
    assert_eq!(
        rasn_attr(&g, "pubx:"),
        "#[rasn(tag(explicit(context,3)))]",
        "x [3] INTEGER is written in an EXPLICIT TAGS module"
    );
}

/// Automatic tagging is decided by the module in which the component list is written
/// (X.680 25.3, 25.7 NOTE 2), not by the module that instantiates a parameterized type.
#[test]
fn automatic_tagging_of_a_parameterized_type_follows_the_defining_module() {
    let g = bindings(
        "M1 DEFINITIONS EXPLICIT TAGS ::= BEGIN
         EXPORTS ALL;
         Q{T} ::= SEQUENCE { a T, b INTEGER }
         END
         M2 DEFINITIONS AUTOMATIC TAGS ::= BEGIN
         IMPORTS Q FROM M1;
         V ::= Q{BOOLEAN}
         END",
    );
    assert_eq!(
        rasn_attr(&g, "pubstructV{"),
        "",
        "the component list of Q is written in an EXPLICIT TAGS module: no automatic tagging"
    );
    let g = bindings(
        "M1 DEFINITIONS AUTOMATIC TAGS ::= BEGIN
         EXPORTS ALL;
         Q{T} ::= SEQUENCE { a T, b INTEGER }
         END
         M2 DEFINITIONS EXPLICIT TAGS ::= BEGIN
         IMPORTS Q FROM M1;
         V ::= Q{BOOLEAN}
         END",
    );
    assert_eq!(
        rasn_attr(&g, "pubstructV{"),
        "#[rasn(automatic_tags)]",
        "the component list of Q is written in an AUTOMATIC TAGS module"
    );
}

mod open_type_bindings {
    rasn_compiler_derive::asn1!(
        "OpenType DEFINITIONS IMPLICIT TAGS ::= BEGIN
         S ::= SEQUENCE { x [1] ANY }
         T ::= [5] ANY
         END"
    );
}

/// X.680 31.2.7 c): a tagged open type is always tagged explicitly. The bindings mark the tag
/// implicit, and rasn then writes no tag at all for the `Any` value.
#[test]
fn tagged_open_type_is_explicit_under_implicit_tags() {
    let g = bindings(
        "OpenType DEFINITIONS IMPLICIT TAGS ::= BEGIN
         S ::= SEQUENCE { x [1] ANY }
         T ::= [5] ANY
         END",
    );
    use open_type_bindings::open_type::*;
    let inner = rasn::types::Any::new(vec![0x02, 0x01, 0x07]);
    let s = hex(&rasn::der::encode(&S::new(inner.clone())).unwrap());
    let t = hex(&rasn::der::encode(&T(inner)).unwrap());
    assert_eq!(
        (s.as_str(), t.as_str()),
        ("30 05 A1 03 02 01 07", "A5 03 02 01 07"),
        "attributes: x {} / T {}",
        rasn_attr(&g, "pubx:"),
        rasn_attr(&g, "pubstructT(")
    );
    assert_eq!(rasn_attr(&g, "pubx:"), "#[rasn(tag(explicit(context,1)))]");
    assert_eq!(
        rasn_attr(&g, "pubstructT("),
        "#[rasn(delegate,tag(explicit(context,5)))]"
    );
}

mod components_of_bindings {
    rasn_compiler_derive::asn1!(
        "ComponentsOf DEFINITIONS AUTOMATIC TAGS ::= BEGIN
         A ::= SEQUENCE { a [5] INTEGER, b [6] BOOLEAN }
         B ::= SEQUENCE { c INTEGER, COMPONENTS OF A }
         END"
    );
}

/// X.680 25.7/25.8: the decision to tag automatically is taken on the component list as written,
/// BEFORE the COMPONENTS OF transformation; the transformation itself is applied afterwards.
/// B's own list contains no tagged component, so B is c [0], a [1], b [2].
#[test]
fn automatic_tagging_is_decided_before_components_of() {
    use components_of_bindings::components_of::*;
    assert_eq!(
        hex(&rasn::der::encode(&B::new(1.into(), 2.into(), true)).unwrap()),
        "30 09 80 01 01 81 01 02 82 01 FF"
    );
}
