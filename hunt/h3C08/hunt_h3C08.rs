//! Hunt for violations of C08: compilation and error rendering are total.
use rasn_compiler::prelude::*;
use std::sync::mpsc;
use std::time::Duration;

#[derive(Debug)]
enum Outcome {
    Returned(String),
    Panicked(String),
    TimedOut,
}

fn render(src: &str, res: Result<CompileResult, CompilerError>) -> String {
    match res {
        Ok(r) => {
            let mut s = format!("OK {} bytes", r.generated.len());
            for w in &r.warnings {
                s.push_str(&format!("\n  W: {}", w));
                let _ = w.contextualize(src);
            }
            s
        }
        Err(e) => {
            let _ = e.contextualize(src);
            format!("ERR {}", e)
        }
    }
}

fn run_with<F>(f: F, secs: u64) -> Outcome
where
    F: FnOnce() -> String + Send + 'static,
{
    let (tx, rx) = mpsc::channel();
    std::thread::Builder::new()
        .stack_size(8 * 1024 * 1024)
        .spawn(move || {
            let r = std::panic::catch_unwind(std::panic::AssertUnwindSafe(f));
            let _ = tx.send(match r {
                Ok(s) => Outcome::Returned(s),
                Err(p) => Outcome::Panicked(
                    p.downcast_ref::<String>()
                        .cloned()
                        .or_else(|| p.downcast_ref::<&str>().map(|s| s.to_string()))
                        .unwrap_or_else(|| "?".into()),
                ),
            });
        })
        .unwrap();
    rx.recv_timeout(Duration::from_secs(secs))
        .unwrap_or(Outcome::TimedOut)
}

fn wrap(body: &str) -> String {
    format!("Hunt-Mod DEFINITIONS AUTOMATIC TAGS ::= BEGIN\n{body}\nEND\n")
}

fn rasn(src: &str) -> Outcome {
    let s = src.to_string();
    run_with(
        move || {
            let r = Compiler::<RasnBackend, _>::new()
                .add_asn_literal(s.clone())
                .compile_to_string();
            render(&s, r)
        },
        10,
    )
}

fn rasn_cfg(src: &str, cfg: RasnConfig) -> Outcome {
    let s = src.to_string();
    run_with(
        move || {
            let r = Compiler::<RasnBackend, _>::new_with_config(cfg)
                .add_asn_literal(s.clone())
                .compile_to_string();
            render(&s, r)
        },
        10,
    )
}

fn ts(src: &str) -> Outcome {
    let s = src.to_string();
    run_with(
        move || {
            let r = Compiler::<TypescriptBackend, _>::new()
                .add_asn_literal(s.clone())
                .compile_to_string();
            render(&s, r)
        },
        10,
    )
}

fn assert_total(src: &str) {
    let a = rasn(src);
    assert!(matches!(a, Outcome::Returned(_)), "rasn backend: {a:?}");
    let b = ts(src);
    assert!(matches!(b, Outcome::Returned(_)), "typescript backend: {b:?}");
}

/// Exploration helper: runs every file of $HUNT_DIR and prints the outcome.
#[test]
#[ignore]
fn explore() {
    let dir = std::env::var("HUNT_DIR").unwrap_or("/tmp/wt/h3C08/cands".into());
    let mut files: Vec<_> = std::fs::read_dir(dir)
        .unwrap()
        .map(|e| e.unwrap().path())
        .collect();
    files.sort();
    std::panic::set_hook(Box::new(|info| {
        eprintln!("   PANIC at {:?}", info.location().map(|l| l.to_string()));
    }));
    for f in files {
        let body = std::fs::read_to_string(&f).unwrap();
        let src = if body.contains("DEFINITIONS") {
            body
        } else {
            wrap(&body)
        };
        eprintln!("=== {}", f.display());
        let cfg_open = std::env::var("HUNT_OPEN").is_ok();
        let a = if cfg_open {
            rasn_cfg(
                &src,
                RasnConfig {
                    opaque_open_types: false,
                    generate_from_impls: true,
                    ..Default::default()
                },
            )
        } else {
            rasn(&src)
        };
        match &a {
            Outcome::Returned(s) => eprintln!(" rasn: {}", s.lines().take(4).collect::<Vec<_>>().join(" | ").chars().take(300).collect::<String>()),
            o => eprintln!(" rasn: !!!!!!!! {o:?}"),
        }
        let b = ts(&src);
        match &b {
            Outcome::Returned(s) => eprintln!(" ts:   {}", s.lines().take(4).collect::<Vec<_>>().join(" | ").chars().take(300).collect::<String>()),
            o => eprintln!(" ts:   !!!!!!!! {o:?}"),
        }
    }
}

/// Exploration helper: runs every record of $HUNT_FILE (records separated by a line `%%%%`)
#[test]
#[ignore]
fn fuzzfile() {
    use std::collections::HashMap;
    use std::sync::{Arc, Mutex};
    let file = std::env::var("HUNT_FILE").unwrap();
    let text = std::fs::read_to_string(file).unwrap();
    let last_loc = Arc::new(Mutex::new(String::new()));
    let ll = last_loc.clone();
    std::panic::set_hook(Box::new(move |info| {
        *ll.lock().unwrap() = info.location().map(|l| l.to_string()).unwrap_or_default();
    }));
    let open = std::env::var("HUNT_OPEN").is_ok();
    let mut seen: HashMap<String, usize> = HashMap::new();
    let mut n = 0;
    for rec in text.split("\n%%%%\n") {
        if rec.trim().is_empty() {
            continue;
        }
        n += 1;
        if n <= std::env::var("HUNT_SKIP").ok().and_then(|s| s.parse::<usize>().ok()).unwrap_or(0) {
            continue;
        }
        std::fs::write("/tmp/wt/h3C08/progress.txt", n.to_string()).unwrap();
        let src = if rec.contains("DEFINITIONS") { rec.to_string() } else { wrap(rec) };
        if std::env::var("HUNT_TRACE").is_ok() {
            std::fs::write("/tmp/wt/h3C08/last_input.asn", &src).unwrap();
        }
        for backend in 0..2 {
            let o = if backend == 0 {
                if open {
                    rasn_cfg(&src, RasnConfig { opaque_open_types: false, generate_from_impls: true, ..Default::default() })
                } else {
                    rasn(&src)
                }
            } else {
                ts(&src)
            };
            let key = match &o {
                Outcome::Returned(_) => continue,
                Outcome::Panicked(m) => format!("PANIC {} :: {}", last_loc.lock().unwrap(), m.chars().take(80).collect::<String>()),
                Outcome::TimedOut => "TIMEOUT".to_string(),
            };
            let c = seen.entry(key.clone()).or_insert(0);
            *c += 1;
            if *c <= 2 {
                eprintln!("#### [{}] {key}\n{rec}\n", if backend == 0 { "rasn" } else { "ts" });
            }
        }
    }
    eprintln!("ran {n} records");
    for (k, v) in seen {
        eprintln!("{v:6} x {k}");
    }
}


// ---------------------------------------------------------------------------------------------
// Confirmed violations. Inputs whose failure mode is stack exhaustion (which aborts the whole
// test process and cannot be caught) are run in a child process: the test binary re-executes
// itself with HUNT_CHILD set to the name of the case.
// ---------------------------------------------------------------------------------------------

fn open_types_config() -> RasnConfig {
    RasnConfig {
        opaque_open_types: false,
        ..Default::default()
    }
}

fn child_input(case: &str) -> String {
    match case {
        "object_reference_cycle" => wrap(
            "CLS ::= CLASS { &id INTEGER UNIQUE } WITH SYNTAX { ID &id }\n\
             z CLS ::= { a }\n\
             a CLS ::= { b }\n\
             b CLS ::= { a }",
        ),
        "object_set_reference_cycle" => wrap(
            "CLS ::= CLASS { &id INTEGER UNIQUE }\n\
             Z CLS ::= { A1, ... }\n\
             A1 CLS ::= { B1, ... }\n\
             B1 CLS ::= { A1, ... }",
        ),
        "flat_union" => wrap(&format!(
            "A ::= INTEGER ({})",
            (0..600).map(|i| i.to_string()).collect::<Vec<_>>().join(" | ")
        )),
        "doubled_quotes" => wrap(&format!("v IA5String ::= \"{}\"", "\"\"".repeat(10_000))),
        "alias_chain" => wrap(&format!(
            "{}A800 ::= INTEGER\nv A0 ::= 1",
            (0..800)
                .map(|i| format!("A{i} ::= A{}\n", i + 1))
                .collect::<String>()
        )),
        "circular_default_of_referenced_type" => wrap(
            "T ::= BOOLEAN\n\
             A ::= SEQUENCE { x T DEFAULT b }\n\
             b BOOLEAN ::= b",
        ),
        other => panic!("unknown case {other}"),
    }
}

/// Entry point of the child process; does nothing unless HUNT_CHILD is set.
#[test]
fn child_entry() {
    let Ok(case) = std::env::var("HUNT_CHILD") else {
        return;
    };
    let src = child_input(&case);
    // the same 8 MiB stack as the main thread of the CLI
    let handle = std::thread::Builder::new()
        .stack_size(8 * 1024 * 1024)
        .spawn(move || {
            for backend in 0..2 {
                let res = if backend == 0 {
                    Compiler::<RasnBackend, _>::new()
                        .add_asn_literal(src.clone())
                        .compile_to_string()
                } else {
                    Compiler::<TypescriptBackend, _>::new()
                        .add_asn_literal(src.clone())
                        .compile_to_string()
                };
                let _ = render(&src, res);
            }
        })
        .unwrap();
    handle.join().expect("compilation panicked");
    println!("CHILD-RETURNED-NORMALLY");
}

/// Runs `case` in a child process and asserts that compilation returned normally there.
fn assert_total_in_child(case: &str) {
    let exe = std::env::current_exe().unwrap();
    let out = std::process::Command::new(exe)
        .args(["--exact", "child_entry", "--nocapture", "--test-threads=1"])
        .env("HUNT_CHILD", case)
        .output()
        .unwrap();
    let stdout = String::from_utf8_lossy(&out.stdout);
    let stderr = String::from_utf8_lossy(&out.stderr);
    assert!(
        out.status.success() && stdout.contains("CHILD-RETURNED-NORMALLY"),
        "compiling case '{case}' did not return normally: status {:?}\n{}",
        out.status,
        stderr
            .lines()
            .filter(|l| l.contains("overflow") || l.contains("panicked") || l.contains("fatal"))
            .collect::<Vec<_>>()
            .join("\n")
    );
}


fn assert_returns(o: Outcome, what: &str) {
    assert!(matches!(o, Outcome::Returned(_)), "{what}: {o:?}");
}

/// An information object as actual parameter of a parameterized type reaches `todo!()`
/// in `ASN1Type::resolve_parameters`.
#[test]
fn information_object_as_actual_parameter() {
    assert_total(&wrap("P { T } ::= INTEGER\nA ::= P { { &id 1 } }"));
}

/// opaque_open_types = false: a table constraint whose object set is written inline
/// reaches `todo!()` in `generate_sequence_or_set_in_environment`.
#[test]
fn open_types_inline_object_set_in_table_constraint() {
    let src = wrap(
        "CLS ::= CLASS { &id INTEGER UNIQUE, &Type }\n\
         A ::= SEQUENCE { v CLS.&Type ({ {&id 1, &Type INTEGER} }) }",
    );
    assert_returns(rasn_cfg(&src, open_types_config()), "rasn, opaque_open_types = false");
}

/// opaque_open_types = false: a type field whose constraint cannot be folded (here an empty
/// intersection) makes `generate_information_object_set` unwrap an Err.
#[test]
fn open_types_type_field_with_unsatisfiable_constraint() {
    let src = wrap(
        "CLS ::= CLASS { &id INTEGER UNIQUE, &Type }\n\
         S CLS ::= { { &id 1, &Type INTEGER (1 ^ 2) } }",
    );
    assert_returns(rasn_cfg(&src, open_types_config()), "rasn, opaque_open_types = false");
}

/// opaque_open_types = false: an object with an object set field reaches `todo!()`
/// in `resolve_standard_syntax`.
#[test]
fn open_types_object_set_field() {
    let src = wrap(
        "CLS ::= CLASS { &id INTEGER UNIQUE, &Set CLS OPTIONAL }\n\
         S CLS ::= { { &id 1, &Set { { &id 2 } } } }",
    );
    assert_returns(rasn_cfg(&src, open_types_config()), "rasn, opaque_open_types = false");
}

/// A valid module: 30 SEQUENCE types, each of which refers twice to the next one. The check for
/// recursive types (`ASN1Type::recurses`) walks every path through this DAG: 2^30 of them.
#[test]
fn diamond_shaped_type_references() {
    let n = 30;
    let mut body: String = (0..n)
        .map(|i| format!("T{i:02} ::= SEQUENCE {{ a T{:02}, b T{:02} }}\n", i + 1, i + 1))
        .collect();
    body.push_str(&format!("T{n:02} ::= INTEGER"));
    assert_total(&wrap(&body));
}

/// Braces nested 20 deep after an object set assignment: every level is parsed again by several
/// alternatives (value, object set, information object), the parse time doubles with each level.
#[test]
fn nested_braces_in_object_set() {
    let n = 20;
    let body = format!(
        "CLS ::= CLASS {{ &id INTEGER UNIQUE }}\nS CLS ::= {}{{&id 1}}{}",
        "{ ".repeat(n),
        " }".repeat(n)
    );
    assert_total(&wrap(&body));
}

/// A chain of 18 SEQUENCE types each of which includes the next one twice with COMPONENTS OF:
/// the components are copied 2^18 times.
#[test]
fn doubled_components_of() {
    let n = 18;
    let mut body: String = (0..n)
        .map(|i| {
            format!(
                "T{i:02} ::= SEQUENCE {{ a{i} INTEGER, COMPONENTS OF T{:02}, COMPONENTS OF T{:02} }}\n",
                i + 1,
                i + 1
            )
        })
        .collect();
    body.push_str(&format!("T{n:02} ::= SEQUENCE {{ z INTEGER }}"));
    assert_total(&wrap(&body));
}

/// `z CLS ::= { a }  a CLS ::= { b }  b CLS ::= { a }`: an object defined by reference to another
/// object is resolved recursively without a visited set (`resolve_and_link`): stack exhaustion.
#[test]
fn object_reference_cycle() {
    assert_total_in_child("object_reference_cycle");
}

/// `Z CLS ::= { A1, ... }  A1 CLS ::= { B1, ... }  B1 CLS ::= { A1, ... }`: object set references
/// that run in a circle are flattened forever (`ObjectSet::resolve_object_set_references`).
#[test]
fn object_set_reference_cycle() {
    assert_total_in_child("object_set_reference_cycle");
}

/// A flat union of 600 single values (no nesting in the source) exhausts the stack in the
/// parser: `set_operation` parses `a | b | c ...` by recursion, one level per operand.
#[test]
fn flat_union_of_600_values() {
    assert_total_in_child("flat_union");
}

/// A character string with 10000 doubled quotes: `take_until_and_not` recurses once per `""`.
#[test]
fn string_with_many_doubled_quotes() {
    assert_total_in_child("doubled_quotes");
}

/// 800 type assignments `A0 ::= A1 ... A799 ::= A800` and a value of type A0:
/// `ASN1Value::link_with_type` recurses once per reference (~14 KiB of stack each).
#[test]
fn value_of_long_alias_chain() {
    assert_total_in_child("alias_chain");
}


/// `T ::= BOOLEAN  A ::= SEQUENCE { x T DEFAULT b }  b BOOLEAN ::= b`: the DEFAULT of a component
/// whose type is a type reference is replaced by the referenced value's own value and linked
/// again (`ASN1Value::link_with_type`, arm for a type reference and a value reference); a value
/// that refers to itself is followed forever.
#[test]
fn circular_default_of_referenced_type() {
    assert_total_in_child("circular_default_of_referenced_type");
}

/// A valid module of 24 lines `A00 ::= INTEGER (A01 | A01)` ... : every contained subtype is
/// replaced by a copy of the referenced type, constraints included, so the constraint of A00
/// has 2^23 leaves.
#[test]
fn contained_subtypes_expand_exponentially() {
    let n = 23;
    let mut body: String = (0..n)
        .map(|i| format!("A{i:02} ::= INTEGER (A{:02} | A{:02})\n", i + 1, i + 1))
        .collect();
    body.push_str(&format!("A{n:02} ::= INTEGER (0..5)"));
    assert_total(&wrap(&body));
}

/// 3000 instances of one parameterized type: every instance clones the whole table of
/// definitions (`ASN1Type::resolve_parameters`), the time grows with the square of the module.
#[test]
fn many_instances_of_a_parameterized_type() {
    let mut body = String::from("P { T } ::= SEQUENCE { a T }\n");
    for i in 0..3000 {
        body.push_str(&format!("A{i} ::= P {{ INTEGER }}\n"));
    }
    assert_total(&wrap(&body));
}

/// A BIT STRING type with 300 named bits just below the limit of 65535 and a value that names
/// all of them: `bit_string_value_from_named_bits` searches both lists for each of the 65536 bits.
#[test]
fn value_with_many_named_bits() {
    let names: Vec<String> = (0..300).map(|i| format!("b{i}")).collect();
    let body = format!(
        "B ::= BIT STRING {{ {} }}\nv B ::= {{ {} }}",
        names
            .iter()
            .enumerate()
            .map(|(i, n)| format!("{n}({})", 65535 - i))
            .collect::<Vec<_>>()
            .join(", "),
        names.join(", ")
    );
    assert_total(&wrap(&body));
}
