//! Property C17: "Syntax errors are reported at the malformed definition, consistently".
//!
//! Every test (except `sanity`) compiles a minimal malformed input and asserts what the
//! property demands of the structured report (`ReportData`), of `Display` and of
//! `CompilerError::contextualize`. They fail on the unchanged code.

use rasn_compiler::prelude::*;

/// Compiles a literal and returns the error together with the lexer report it carries.
fn lexer_report(src: &str) -> (CompilerError, ReportData) {
    let err = Compiler::<RasnBackend, _>::new()
        .add_asn_literal(src)
        .compile_to_string()
        .expect_err("the input is malformed");
    let report = match &err {
        CompilerError::Lexer(LexerError {
            kind: LexerErrorType::MatchingError(report),
        }) => report.clone(),
        other => panic!("expected a lexer matching error, got {other:?}"),
    };
    (err, report)
}

/// The line that `contextualize` marks as failed: its printed line number and its text.
fn marked_line(contextualized: &str) -> Option<(usize, String)> {
    let mut marked = contextualized
        .lines()
        .filter(|l| l.contains("FAILED AT THIS LINE"));
    let line = marked.next()?;
    assert!(marked.next().is_none(), "more than one line is marked");
    let (number, text) = line.split_once('│')?;
    let text = text
        .split("◀")
        .next()
        .unwrap_or_default()
        .trim()
        .to_string();
    Some((number.trim().parse().ok()?, text))
}

/// 1-based number of the line that holds `offset`.
fn line_of(src: &str, offset: usize) -> usize {
    1 + src[..offset].matches('\n').count()
}

/// 1-based (byte) column of `offset` in its line.
fn column_of(src: &str, offset: usize) -> usize {
    offset - src[..offset].rfind('\n').map_or(0, |i| i + 1) + 1
}

#[test]
fn sanity() {
    // a healthy input compiles
    let ok = Compiler::<RasnBackend, _>::new()
        .add_asn_literal("M DEFINITIONS ::= BEGIN\nA ::= INTEGER\n\nB ::= BOOLEAN\nEND\n")
        .compile_to_string();
    assert!(ok.is_ok(), "{ok:?}");

    // a malformed one is reported at the malformed assignment, the same way everywhere
    let src = "M DEFINITIONS ::= BEGIN\nA ::= INTEGER\n\nB ::= ?\nEND\n";
    let (err, report) = lexer_report(src);
    assert_eq!(report.offset, src.find("B ::= ?").unwrap());
    assert_eq!(report.line, line_of(src, report.offset));
    assert_eq!(report.line, 4);
    assert!(err.to_string().contains("line 4,"), "{err}");
    assert_eq!(
        marked_line(&err.contextualize(src)),
        Some((4, "B ::= ?".to_string()))
    );
}

/// When no line that starts in column one follows the error (here: the module is indented as a
/// whole, the way it is in many documents and in this crate's own unit tests), the excerpt is
/// taken by the fallback branch of `until_next_unindented`, which trims the leading line breaks
/// off the excerpt. `contextualize` still numbers the excerpt from `context_start_line`, so all
/// line numbers are too low and a line other than the reported one gets the mark.
#[test]
fn contextualize_marks_the_reported_line_in_an_indented_module() {
    let src = "  M DEFINITIONS ::= BEGIN\n\n  A ::= INTEGER\n\n  B ::= ?\n\n  C ::= BOOLEAN\n  END\n";
    let (err, report) = lexer_report(src);
    assert_eq!(report.offset, src.find("B ::= ?").unwrap());
    assert_eq!(report.line, 5);
    assert!(err.to_string().contains("line 5,"), "{err}");
    let contextualized = err.contextualize(src);
    assert_eq!(
        marked_line(&contextualized),
        Some((5, "B ::= ?".to_string())),
        "Display and the report say line 5 (`B ::= ?`), contextualize marks another line:\n{contextualized}"
    );
}

/// The same fallback branch cuts the excerpt after 300 bytes, without regard to where the error
/// is: a comment of a few lines before the malformed assignment is enough to push the failing
/// line out of the excerpt, and no line is marked at all.
#[test]
fn contextualize_shows_the_failing_line_after_a_long_comment() {
    let comment = (0..8)
        .map(|i| format!("   line {i} of the description of B, which is a rather long one"))
        .collect::<Vec<_>>()
        .join("\n");
    let src = format!(
        "M DEFINITIONS ::= BEGIN\nA ::= INTEGER\n/* B\n{comment}\n*/\nB ::= ?\n  END\n"
    );
    let (err, report) = lexer_report(&src);
    assert_eq!(report.offset, src.find("B ::= ?").unwrap());
    assert_eq!(report.line, line_of(&src, report.offset));
    let contextualized = err.contextualize(&src);
    let marked = marked_line(&contextualized);
    assert_eq!(
        marked.map(|(_, text)| text),
        Some("B ::= ?".to_string()),
        "the failing line is not part of what contextualize shows:\n{contextualized}"
    );
}

/// `Input::slice` counts columns from 1 on the first line, but from 2 on every line that follows
/// a line break (`consumed_len - last.0 + 1`), so `file:line:column` points one character to the
/// right of the reported offset everywhere but on line 1.
#[test]
fn column_is_counted_the_same_way_on_every_line() {
    // on the first line the column is the 1-based position of the reported offset
    let first_line = "M ::= ? BEGIN END";
    let (_, report) = lexer_report(first_line);
    assert_eq!(report.offset, first_line.find("::=").unwrap());
    assert_eq!(
        (report.line, report.column),
        (1, column_of(first_line, report.offset))
    );

    // on any other line it is one more than that
    let second_line = "M DEFINITIONS ::= BEGIN\nA ::= ?\nEND\n";
    let (err, report) = lexer_report(second_line);
    assert_eq!(report.offset, second_line.find("A ::= ?").unwrap());
    assert_eq!(report.line, 2);
    assert_eq!(
        report.column,
        column_of(second_line, report.offset),
        "offset {} is the first character of line 2, reported as `{err}`",
        report.offset
    );
}

/// The lexer does not take a no-break space (the usual souvenir of copying a module out of a
/// PDF) for white-space and reports a syntax error at it. `contextualize` however drops every
/// line of the excerpt that is empty after `str::trim`, which does strip U+00A0 (and FF, VT,
/// U+2003...): the reported line is not shown and nothing is marked.
#[test]
fn contextualize_shows_a_line_that_fails_at_a_no_break_space() {
    let src = "M DEFINITIONS ::= BEGIN\nA ::= INTEGER\u{a0}\nB ::= BOOLEAN\nEND\n";
    let (err, report) = lexer_report(src);
    assert_eq!(report.offset, src.find('\u{a0}').unwrap());
    assert_eq!(report.line, 2);
    assert!(err.to_string().contains("line 2,"), "{err}");
    let contextualized = err.contextualize(src);
    assert_eq!(
        marked_line(&contextualized).map(|(number, _)| number),
        Some(2),
        "Display and the report say line 2, contextualize marks nothing:\n{contextualized}"
    );
}

/// The context start is reset by value, object and class assignments, but not by type
/// assignments (`top_level_type_declaration` has no `context_boundary`). An error that is not
/// swallowed by `many0` (`DEFAULT` cuts) inside a type assignment is therefore contextualized
/// from wherever the context was reset last: the end of the module header if the module holds
/// only types, so that every definition of the module is printed as "the" failing one.
#[test]
fn context_starts_at_the_malformed_type_assignment() {
    let src = "M DEFINITIONS ::= BEGIN\nGood1 ::= INTEGER\nGood2 ::= BOOLEAN\nBad ::= SEQUENCE {\n  a INTEGER DEFAULT ?\n}\nEND\n";
    let (err, report) = lexer_report(src);
    assert_eq!(report.offset, src.find('?').unwrap());
    assert_eq!(report.line, 5);
    // the context of an error in `Bad` does not begin before the end of the preceding assignment
    let end_of_good2 = src.find("Good2 ::= BOOLEAN").unwrap() + "Good2 ::= BOOLEAN".len();
    assert!(
        report.context_start_offset >= end_of_good2,
        "context starts at offset {} (line {}), `Bad` starts at offset {} (line 4)",
        report.context_start_offset,
        report.context_start_line,
        src.find("Bad").unwrap()
    );
    let contextualized = err.contextualize(src);
    assert!(
        !contextualized.contains("Good1"),
        "well-formed definitions are shown as part of the failing one:\n{contextualized}"
    );
}

/// When a source that was given by path cannot be read or is not UTF-8, the error names neither
/// the path nor a position, which leaves the user guessing as soon as several files are compiled.
#[test]
fn unreadable_source_file_is_named() {
    let dir = std::path::Path::new(env!("CARGO_TARGET_TMPDIR"));
    let good = dir.join("h2c17_good.asn");
    let bad = dir.join("h2c17_not_utf8.asn");
    std::fs::write(&good, "M DEFINITIONS ::= BEGIN\nA ::= INTEGER\nEND\n").unwrap();
    std::fs::write(&bad, b"N DEFINITIONS ::= BEGIN\nB ::= \xff\nEND\n").unwrap();
    let err = Compiler::<RasnBackend, _>::new()
        .add_asn_by_path(&good)
        .add_asn_by_path(&bad)
        .compile_to_string()
        .expect_err("the second file is not valid UTF-8");
    assert!(
        err.to_string().contains("h2c17_not_utf8.asn"),
        "the failing file is not named: `{err}` / {err:?}"
    );
}
