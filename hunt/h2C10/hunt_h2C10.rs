//! Hunt for violations of property C10:
//! "No definition is lost silently; warnings are local; Err carries nothing".
//!
//! Every test compiles a minimal input and asserts what the property demands:
//! each top-level assignment is either present in the bindings (in the Rust/TS
//! module of its own ASN.1 module) or it is the subject of a returned warning,
//! i.e. a warning whose text names it.

use rasn_compiler::prelude::*;

struct Outcome {
    generated: String,
    warnings: Vec<String>,
}

fn outcome(result: Result<CompileResult, CompilerError>) -> Outcome {
    let result = result.expect("the input is valid ASN.1 and must not fail to compile");
    Outcome {
        generated: result.generated,
        // the texts of the warnings: they are what carries the name of the definition
        warnings: result.warnings.iter().map(|w| w.to_string()).collect(),
    }
}

fn rasn(sources: &[&str]) -> Outcome {
    let mut compiler = Compiler::<RasnBackend, _>::new().add_asn_literal(sources[0]);
    for source in &sources[1..] {
        compiler = compiler.add_asn_literal(*source);
    }
    outcome(compiler.compile_to_string())
}

fn typescript(sources: &[&str]) -> Outcome {
    let mut compiler = Compiler::<TypescriptBackend, _>::new().add_asn_literal(sources[0]);
    for source in &sources[1..] {
        compiler = compiler.add_asn_literal(*source);
    }
    outcome(compiler.compile_to_string())
}

impl Outcome {
    /// The text of the generated rust module `module` (empty, if there is none)
    fn rust_module(&self, module: &str) -> &str {
        let start = match self.generated.find(&format!("pub mod {module} {{")) {
            Some(start) => start,
            None => return "",
        };
        let rest = &self.generated[start..];
        let end = rest[1..].find("pub mod ").map_or(rest.len(), |e| e + 1);
        &rest[..end]
    }

    fn warns_about(&self, name: &str) -> bool {
        self.warnings.iter().any(|w| {
            w.split(|c: char| !(c.is_alphanumeric() || c == '-' || c == '_'))
                .any(|word| word == name)
        })
    }

    fn dump(&self) -> String {
        format!(
            "\n--- generated:\n{}\n--- warnings:\n{}\n",
            self.generated,
            self.warnings.join("\n")
        )
    }
}

#[test]
fn sanity() {
    let out = rasn(&[
        "M1 DEFINITIONS AUTOMATIC TAGS ::= BEGIN Alpha ::= INTEGER beta INTEGER ::= 1 Gamma ::= REAL END",
        "M2 DEFINITIONS AUTOMATIC TAGS ::= BEGIN Delta ::= BOOLEAN OPERATION MACRO ::= BEGIN TYPE NOTATION ::= \"x\" VALUE NOTATION ::= value(VALUE INTEGER) END END",
    ]);
    assert!(out.rust_module("m1").contains("pub struct Alpha("), "{}", out.dump());
    assert!(out.rust_module("m1").contains("pub static BETA"), "{}", out.dump());
    assert!(out.rust_module("m2").contains("pub struct Delta("), "{}", out.dump());
    assert!(!out.rust_module("m2").contains("Alpha"), "{}", out.dump());
    // Gamma and OPERATION are unsupported: no bindings, but a warning each (2 in total)
    assert!(!out.generated.contains("Gamma"), "{}", out.dump());
    assert_eq!(out.warnings.len(), 2, "{}", out.dump());
    assert!(out.warns_about("OPERATION"), "{}", out.dump());
    assert!(!out.warns_about("Alpha"), "{}", out.dump());

    let ts = typescript(&["M1 DEFINITIONS ::= BEGIN Alpha ::= INTEGER beta INTEGER ::= 1 END"]);
    assert!(ts.generated.contains("export type Alpha"), "{}", ts.dump());
    assert!(ts.generated.contains("export const beta"), "{}", ts.dump());
    assert!(ts.warnings.is_empty(), "{}", ts.dump());

    // Err carries nothing
    assert!(Compiler::<RasnBackend, _>::new()
        .add_asn_literal("M1 DEFINITIONS ::= BEGIN Alpha ::= INTEGER END")
        .add_asn_literal("M2 DEFINITIONS ::= BEGIN Beta ::= END")
        .compile_to_string()
        .is_err());
}

/// Defect 1: definitions are indexed by their bare name across all modules
/// (`Validator::new`), so of two assignments with the same name in different
/// modules only the last one survives. The other one has no bindings and no warning.
#[test]
fn same_name_in_two_modules_loses_one_definition_silently() {
    let out = rasn(&[
        "M1 DEFINITIONS AUTOMATIC TAGS ::= BEGIN Shared ::= INTEGER END",
        "M2 DEFINITIONS AUTOMATIC TAGS ::= BEGIN Shared ::= BOOLEAN END",
    ]);
    assert!(
        out.rust_module("m2").contains("pub struct Shared(pub bool)"),
        "M2.Shared is missing{}",
        out.dump()
    );
    assert!(
        out.rust_module("m1").contains("pub struct Shared(pub Integer)") || out.warns_about("Shared"),
        "M1.Shared has neither bindings nor a warning{}",
        out.dump()
    );
}

/// Defect 1, "warnings are local" face: the unsupported `Shared ::= REAL` of M2 is warned
/// about, and the perfectly supported, independent `Shared ::= INTEGER` of M1 vanishes with it.
#[test]
fn warning_about_one_module_removes_same_named_definition_of_another() {
    let out = rasn(&[
        "M1 DEFINITIONS AUTOMATIC TAGS ::= BEGIN Shared ::= INTEGER Other ::= NULL END",
        "M2 DEFINITIONS AUTOMATIC TAGS ::= BEGIN Shared ::= REAL END",
    ]);
    assert!(
        out.rust_module("m1").contains("pub struct Other("),
        "{}",
        out.dump()
    );
    assert!(
        out.rust_module("m1").contains("pub struct Shared(pub Integer)"),
        "M1.Shared does not depend on M2.Shared, but its bindings are gone{}",
        out.dump()
    );
}

/// Defect 2: the warnings for unsupported types (REAL, VideotexString, TIME; top-level or
/// nested) are built with `top_level_declaration: None`: neither their text nor their fields
/// say which definition was dropped.
#[test]
fn warning_for_unsupported_type_names_its_subject() {
    let out = rasn(&[
        "M1 DEFINITIONS AUTOMATIC TAGS ::= BEGIN Alpha ::= REAL Beta ::= VideotexString Gamma ::= SEQUENCE { inner VideotexString } Delta ::= BOOLEAN END",
    ]);
    assert!(out.rust_module("m1").contains("pub struct Delta("), "{}", out.dump());
    for name in ["Alpha", "Beta", "Gamma"] {
        assert!(
            out.rust_module("m1").contains(&format!("pub struct {name}")) || out.warns_about(name),
            "{name} has no bindings and no returned warning is about {name}{}",
            out.dump()
        );
    }
}

/// Defect 3: `same-arcs RELATIVE-OID ::= { base-arcs }` (X.680 32.3: a RelativeOIDComponents
/// may be a DefinedValue) is lexed as an *object set* of the "class" RELATIVE-OID
/// (`top_level_object_set_declaration` does not exclude reserved words). The value gets no
/// bindings; the only diagnostic is "Failed to resolve reference in object set.", which does
/// not mention `same-arcs`.
#[test]
fn relative_oid_value_made_of_one_reference_is_not_lost() {
    let out = rasn(&[
        "M1 DEFINITIONS AUTOMATIC TAGS ::= BEGIN base-arcs RELATIVE-OID ::= { 3 4 } same-arcs RELATIVE-OID ::= { base-arcs } more-arcs RELATIVE-OID ::= { base-arcs 5 } END",
    ]);
    assert!(out.rust_module("m1").contains("pub static BASE_ARCS"), "{}", out.dump());
    assert!(out.rust_module("m1").contains("pub static MORE_ARCS"), "{}", out.dump());
    assert!(
        out.rust_module("m1").contains("pub static SAME_ARCS") || out.warns_about("same-arcs"),
        "same-arcs has no bindings and no warning that names it{}",
        out.dump()
    );
}

/// Defect 4 (TypeScript backend): value assignments that `value_to_tokens` cannot render
/// (OID values with a name-form arc, SEQUENCE values, time values) are dropped with warnings
/// built from `..Default::default()`, i.e. without the name of the dropped value.
#[test]
fn typescript_warning_for_dropped_value_names_its_subject() {
    let out = typescript(&[
        "M1 DEFINITIONS AUTOMATIC TAGS ::= BEGIN top-arc OBJECT IDENTIFIER ::= { iso 3 } start-time UTCTime ::= \"200101000000Z\" Kept ::= BOOLEAN END",
    ]);
    assert!(out.generated.contains("export type Kept"), "{}", out.dump());
    for (name, binding) in [("top-arc", "export const top_arc"), ("start-time", "export const start_time")] {
        assert!(
            out.generated.contains(binding) || out.warns_about(name),
            "{name} has no bindings and no returned warning is about {name}{}",
            out.dump()
        );
    }
}
