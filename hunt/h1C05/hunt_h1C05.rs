//! Property C05: extension markers, additions and addition groups are preserved.
//!
//! Every test (except `sanity`) compiles a minimal, valid ASN.1 module and asserts what
//! the property demands. They fail on the unchanged code.

use rasn_compiler::prelude::*;

/// Compiles the given module(s) with the rasn backend and returns the generated code
/// with all white-space removed (so that the assertions do not depend on formatting).
fn compile(modules: &[&str]) -> Result<String, String> {
    let mut compiler = Compiler::<RasnBackend, _>::new().add_asn_literal(modules[0]);
    for m in &modules[1..] {
        compiler = compiler.add_asn_literal(*m);
    }
    compiler
        .compile_to_string()
        .map(|r| r.generated.replace(|c: char| c.is_whitespace(), ""))
        .map_err(|e| format!("{e:?}"))
}

fn module(body: &str) -> String {
    format!("M DEFINITIONS AUTOMATIC TAGS ::= BEGIN\n{body}\nEND")
}

/// The attributes in front of the field `pub <name>:` of the (white-space free) code.
fn attributes_of<'a>(code: &'a str, name: &str) -> &'a str {
    let field = format!("pub{name}:");
    let at = code
        .find(&field)
        .unwrap_or_else(|| panic!("no field {name} in {code}"));
    let before = &code[..at];
    let start = before.rfind("pub").unwrap_or(0);
    &before[start..]
}

fn is_addition(code: &str, name: &str) -> bool {
    attributes_of(code, name).contains("extension_addition")
}

#[test]
fn sanity() {
    let code = compile(&[&module(
        "A ::= SEQUENCE { a BOOLEAN, ..., b NULL, [[ c INTEGER, d BOOLEAN ]] }",
    )])
    .unwrap();
    assert!(code.contains("#[non_exhaustive]pubstructA{"), "{code}");
    assert!(!is_addition(&code, "a"), "{code}");
    assert!(
        attributes_of(&code, "b").contains("#[rasn(extension_addition)]"),
        "{code}"
    );
    assert!(
        attributes_of(&code, "ext_group_c").contains("extension_addition_group"),
        "{code}"
    );
    assert!(code.contains("pubext_group_c:Option<AExtGroupC>"), "{code}");
    assert!(
        code.contains("pubstructAExtGroupC{pubc:Integer,pubd:bool,}"),
        "{code}"
    );
    assert!(!code.contains("#[non_exhaustive]pubstructAExtGroupC"), "{code}");
}

/// X.680 (02/2021) 25.1: ComponentTypeLists ::= RootComponentTypeList ","
/// ExtensionAndException ExtensionAdditions ExtensionEndMarker "," RootComponentTypeList
/// The components after the second marker belong to the root again.
#[test]
fn second_extension_marker_with_trailing_root_components() {
    let code = compile(&[&module(
        "A ::= SEQUENCE { a BOOLEAN, ..., b NULL, ..., c INTEGER }",
    )])
    .expect("a SEQUENCE with an extension end marker is valid ASN.1");
    assert!(code.contains("#[non_exhaustive]pubstructA{"), "{code}");
    assert!(!is_addition(&code, "a"), "{code}");
    assert!(is_addition(&code, "b"), "{code}");
    assert!(!is_addition(&code, "c"), "{code}");
}

/// X.680 25.1 / 49: ExtensionAndException ::= "..." | "..." ExceptionSpec
#[test]
fn extension_marker_with_exception_spec() {
    let code = compile(&[&module("A ::= SEQUENCE { a BOOLEAN, ... ! 5, b NULL }")])
        .expect("an extension marker followed by an exception spec is valid ASN.1");
    assert!(code.contains("#[non_exhaustive]pubstructA{"), "{code}");
    assert!(!is_addition(&code, "a"), "{code}");
    assert!(is_addition(&code, "b"), "{code}");
}

/// X.680 12.1: white-space may appear between any two lexical items, so
/// `... ,` is the same as `...,`. (CHOICE and ENUMERATED accept it.)
#[test]
fn whitespace_between_marker_and_comma() {
    let code = compile(&[&module("A ::= SEQUENCE { a BOOLEAN, ... , b NULL }")])
        .expect("white-space between the extension marker and the comma is allowed");
    assert!(code.contains("#[non_exhaustive]pubstructA{"), "{code}");
    assert!(!is_addition(&code, "a"), "{code}");
    assert!(is_addition(&code, "b"), "{code}");
}

/// X.680 29.1: ExtensionAdditionAlternativesGroup ::= "[[" VersionNumber AlternativeTypeList "]]"
/// with VersionNumber ::= empty | number ":" - just as in a SEQUENCE, where it is accepted.
#[test]
fn choice_addition_group_with_version_number() {
    let code = compile(&[&module(
        "A ::= CHOICE { a BOOLEAN, ..., [[ 2: b NULL, c INTEGER ]], d BOOLEAN }",
    )])
    .expect("a version number in a CHOICE addition group is valid ASN.1");
    assert!(code.contains("#[non_exhaustive]pubenumA{"), "{code}");
    assert!(code.contains("a(bool),#[rasn(extension_addition)]b(()),#[rasn(extension_addition)]c(Integer),#[rasn(extension_addition)]d(bool),"), "{code}");
}

/// EXTENSIBILITY IMPLIED inserts a marker into the *types* of the module (X.680 13.4).
/// An extension addition group is no type; the struct that stands for it must contain
/// exactly the grouped components. Marking it `#[non_exhaustive]` makes rasn treat the group
/// as an extensible SEQUENCE, i.e. PER gets an additional extension bit inside the group.
#[test]
fn extensibility_implied_does_not_make_the_addition_group_extensible() {
    let code = compile(&[
        "M DEFINITIONS AUTOMATIC TAGS EXTENSIBILITY IMPLIED ::= BEGIN
           A ::= SEQUENCE { a BOOLEAN, ..., [[ b BOOLEAN, c INTEGER ]] }
         END",
    ])
    .unwrap();
    assert!(code.contains("#[non_exhaustive]pubstructA{"), "{code}");
    assert!(
        attributes_of(&code, "ext_group_b").contains("extension_addition_group"),
        "{code}"
    );
    assert!(code.contains("pubstructAExtGroupB{"), "{code}");
    assert!(
        !code.contains("#[non_exhaustive]pubstructAExtGroupB{"),
        "the synthetic struct of the [[ ]] group is generated as extensible: {code}"
    );
}

/// X.680 25.1, 25.5: COMPONENTS OF is a ComponentType of the root; the components it
/// brings in are root components, the components after the marker are additions.
#[test]
fn components_of_in_front_of_the_marker() {
    let code = compile(&[&module(
        "B ::= SEQUENCE { x INTEGER }
         A ::= SEQUENCE { COMPONENTS OF B, ..., c BOOLEAN }",
    )])
    .unwrap();
    assert!(code.contains("#[non_exhaustive]pubstructA{"), "{code}");
    let a = &code[code.find("pubstructA{").unwrap()..];
    let a = &a[..a.find('}').unwrap()];
    assert!(!is_addition(a, "x"), "{a}");
    assert!(
        is_addition(a, "c"),
        "c stands after the marker but is not an extension addition: {a}"
    );
}
