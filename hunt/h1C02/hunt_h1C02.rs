//! Property C02: "Constructed types keep every component, in order, with the right shape".
//!
//! Every test compiles a minimal ASN.1 input with the unchanged compiler and asserts what the
//! property demands of the generated struct / enum items. All tests except `sanity` fail on the
//! unchanged code.

use rasn_compiler::prelude::*;

/// One field of a struct / one variant of an enum: (name, type, attributes)
type Field = (String, String, String);

fn compile(src: &str) -> String {
    let res = Compiler::<RasnBackend, _>::new()
        .add_asn_literal(src)
        .compile_to_string()
        .unwrap_or_else(|e| panic!("compiler error: {e:?}"));
    assert!(
        res.warnings.is_empty(),
        "unexpected warnings: {:?}",
        res.warnings
    );
    res.generated
}

fn module(body: &str) -> String {
    format!("M DEFINITIONS AUTOMATIC TAGS ::= BEGIN\n{body}\nEND")
}

/// The text of `pub mod <name> { ... }` in the generated bindings
fn rust_module<'a>(generated: &'a str, name: &str) -> &'a str {
    let start = generated
        .find(&format!("pub mod {name} {{"))
        .unwrap_or_else(|| panic!("no module {name} in\n{generated}"));
    let rest = &generated[start..];
    let end = rest[1..].find("\npub mod ").map_or(rest.len(), |i| i + 1);
    &rest[..end]
}

/// Projects the struct or enum item `item` to its fields / variants. The generated code is
/// formatted, so that every attribute, field and variant starts on a line of its own.
fn fields(generated: &str, item: &str) -> Vec<Field> {
    let mut out = vec![];
    let mut inside = false;
    let mut attrs = String::new();
    let mut open_attr = false;
    for line in generated.lines() {
        let t = line.trim();
        if !inside {
            if t == format!("pub struct {item} {{") || t == format!("pub enum {item} {{") {
                inside = true;
                attrs.clear();
            }
            continue;
        }
        if t == "}" {
            return out;
        }
        if open_attr || t.starts_with("#[") {
            attrs.push_str(t);
            open_attr = !t.ends_with(']');
            continue;
        }
        let parsed = if let Some(rest) = t.strip_prefix("pub ") {
            rest.split_once(": ")
                .map(|(n, ty)| (n.to_string(), ty.trim_end_matches(',').to_string()))
        } else {
            t.find('(').map(|i| {
                let inner = t[i + 1..].trim_end_matches(',');
                (t[..i].to_string(), inner[..inner.len() - 1].to_string())
            })
        };
        if let Some((n, ty)) = parsed {
            out.push((n, ty, std::mem::take(&mut attrs)));
        }
    }
    panic!("item {item} not found in\n{generated}");
}

fn names(fields: &[Field]) -> Vec<&str> {
    fields.iter().map(|f| f.0.as_str()).collect()
}

fn name_types(fields: &[Field]) -> Vec<(&str, &str)> {
    fields
        .iter()
        .map(|f| (f.0.as_str(), f.1.as_str()))
        .collect()
}

#[test]
fn sanity() {
    let generated = compile(&module(
        r#"S ::= SET { a INTEGER, b BOOLEAN OPTIONAL, c SEQUENCE OF S, ..., d NULL }
           C ::= CHOICE { x INTEGER, y S }"#,
    ));
    let s = fields(&generated, "S");
    assert_eq!(
        name_types(&s),
        vec![
            ("a", "Integer"),
            ("b", "Option<bool>"),
            ("c", "SequenceOf<S>"),
            ("d", "()")
        ]
    );
    assert!(s[3].2.contains("extension_addition"));
    assert!(!s[0].2.contains("extension_addition"));
    assert_eq!(
        name_types(&fields(&generated, "C")),
        vec![("x", "Integer"), ("y", "S")]
    );
}

/// X.680 25.5: `COMPONENTS OF Type` is *replaced*, at the place where it is written, by the
/// root components of the referenced type. The compiler appends them after all other components.
#[test]
fn components_of_is_expanded_in_place() {
    let generated = compile(&module(
        r#"A ::= SEQUENCE { a1 INTEGER, a2 BOOLEAN }
           S ::= SEQUENCE { COMPONENTS OF A, b NULL }"#,
    ));
    assert_eq!(
        name_types(&fields(&generated, "S")),
        vec![("a1", "Integer"), ("a2", "bool"), ("b", "()")]
    );
}

/// The index of the first extension addition is counted in list entries that include the
/// `COMPONENTS OF` entry, but used as an index into the member list that does not contain it:
/// the extension addition `e` is generated as a component of the extension root.
#[test]
fn components_of_does_not_move_the_extension_marker() {
    let generated = compile(&module(
        r#"A ::= SEQUENCE { a1 INTEGER }
           S ::= SEQUENCE { COMPONENTS OF A, ..., e INTEGER }"#,
    ));
    let s = fields(&generated, "S");
    let mut sorted = names(&s);
    sorted.sort();
    assert_eq!(sorted, vec!["a1", "e"]);
    for (name, _, attrs) in &s {
        assert_eq!(
            attrs.contains("extension_addition"),
            name == "e",
            "component {name} has attributes `{attrs}`"
        );
    }
}

/// `COMPONENTS OF B` where `B` itself uses `COMPONENTS OF`: whether the components that `B`
/// includes reach `S` depends on the alphabetical order of the type names. Here they are dropped.
#[test]
fn components_of_a_type_that_uses_components_of() {
    let generated = compile(&module(
        r#"A ::= SEQUENCE { a1 INTEGER, a2 BOOLEAN }
           B ::= SEQUENCE { c BOOLEAN, COMPONENTS OF A }
           S ::= SEQUENCE { b NULL, COMPONENTS OF B }"#,
    ));
    let b = fields(&generated, "B");
    assert_eq!(names(&b), vec!["c", "a1", "a2"]);
    let s = fields(&generated, "S");
    assert_eq!(names(&s), vec!["b", "c", "a1", "a2"]);
}

/// Type references are scoped by module (X.680 13.1), two modules may both define `T`.
/// The linker keys all definitions by their bare name, one `T` silently replaces the other.
#[test]
fn equally_named_types_of_two_modules_are_both_generated() {
    let generated = compile(
        r#"A DEFINITIONS AUTOMATIC TAGS ::= BEGIN
             T ::= SEQUENCE { a INTEGER }
             Sa ::= SEQUENCE { t T }
           END
           B DEFINITIONS AUTOMATIC TAGS ::= BEGIN
             T ::= CHOICE { b BOOLEAN, c NULL }
             Sb ::= SEQUENCE { t T }
           END"#,
    );
    let a = rust_module(&generated, "a");
    let b = rust_module(&generated, "b");
    assert_eq!(name_types(&fields(a, "Sa")), vec![("t", "T")]);
    assert_eq!(name_types(&fields(b, "Sb")), vec![("t", "T")]);
    assert_eq!(
        name_types(&fields(b, "T")),
        vec![("b", "bool"), ("c", "()")]
    );
    assert!(
        a.contains("pub struct T {"),
        "module a lacks the SEQUENCE type T that Sa.t refers to:\n{a}"
    );
    assert_eq!(name_types(&fields(a, "T")), vec![("a", "Integer")]);
}

/// A parameterized type that passes its own dummy parameter on to another parameterized type
/// (X.683 9): the component of the inner type keeps the dummy reference as its type, the
/// generated field refers to a Rust type `T` that does not exist.
#[test]
fn nested_parameterization_substitutes_the_actual_parameter() {
    let generated = compile(&module(
        r#"P {T} ::= SEQUENCE { v T }
           Q {U} ::= SEQUENCE { p P {U} }
           R ::= Q {INTEGER}"#,
    ));
    assert_eq!(name_types(&fields(&generated, "R")), vec![("p", "RP")]);
    assert_eq!(
        name_types(&fields(&generated, "RP")),
        vec![("v", "Integer")]
    );
}

/// `CLS.&id` denotes a fixed-type value field, its type is the type of the field (X.681 14.2,
/// X.680 Annex on ObjectClassFieldType). As a component of a SEQUENCE it is generated as
/// `Integer`, as a component of a SET (or of a SEQUENCE below SEQUENCE OF / SET OF) as `Any`.
#[test]
fn fixed_type_class_field_has_the_same_type_in_set_and_sequence() {
    let generated = compile(&module(
        r#"CLS ::= CLASS { &id INTEGER UNIQUE, &Type } WITH SYNTAX { &Type IDENTIFIED BY &id }
           Seq ::= SEQUENCE { id CLS.&id, post NULL }
           Set ::= SET { id CLS.&id, post NULL }"#,
    ));
    assert_eq!(
        name_types(&fields(&generated, "Seq")),
        vec![("id", "Integer"), ("post", "()")]
    );
    assert_eq!(
        name_types(&fields(&generated, "Set")),
        vec![("id", "Integer"), ("post", "()")]
    );
}
