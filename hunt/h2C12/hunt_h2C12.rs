//! Property C12: modules compile independently of their neighbours; IMPORTS become use lines.
//!
//! Every test but `sanity` demonstrates a defect of the unchanged compiler and is expected to FAIL.

use rasn_compiler::prelude::*;

/// Compiles the given ASN.1 sources with one `Compiler` and returns the generated bindings with
/// all white space removed (so that the checks do not depend on whether rustfmt was found).
fn compile(sources: &[&str]) -> Result<String, String> {
    let mut compiler = Compiler::<RasnBackend, _>::new().add_asn_literal(sources[0]);
    for source in &sources[1..] {
        compiler = compiler.add_asn_literal(*source);
    }
    compiler
        .compile_to_string()
        .map(|result| {
            result
                .generated
                .chars()
                .filter(|c| !c.is_whitespace())
                .collect()
        })
        .map_err(|e| format!("{e:?}"))
}

/// Returns the `pub mod <name> { .. }` block of the (white space free) bindings.
fn module_block(bindings: &str, name: &str) -> String {
    let start_pattern = format!("pubmod{name}{{");
    let start = bindings
        .find(&start_pattern)
        .unwrap_or_else(|| panic!("no module {name} in {bindings}"));
    let mut depth = 0usize;
    for (i, c) in bindings[start..].char_indices() {
        match c {
            '{' => depth += 1,
            '}' => {
                depth -= 1;
                if depth == 0 {
                    return bindings[start..start + i + 1].to_owned();
                }
            }
            _ => (),
        }
    }
    panic!("unbalanced module {name}")
}

/// All occurrences of `ident` (as a whole identifier) in `block` are preceded by `prefix`.
fn always_prefixed(block: &str, ident: &str, prefix: &str) -> bool {
    let is_ident_char = |c: char| c.is_alphanumeric() || c == '_';
    let mut found = false;
    for (i, _) in block.match_indices(ident) {
        let before = block[..i].chars().last();
        let after = block[i + ident.len()..].chars().next();
        if before.is_some_and(is_ident_char) || after.is_some_and(is_ident_char) {
            continue;
        }
        found = true;
        if !block[..i].ends_with(prefix) {
            return false;
        }
    }
    found
}

#[test]
fn sanity() {
    let a = "A DEFINITIONS AUTOMATIC TAGS ::= BEGIN
               IMPORTS Bb, bound FROM B;
               Aa ::= SEQUENCE { b Bb OPTIONAL, i INTEGER (0..bound) }
             END";
    let b = "B DEFINITIONS EXPLICIT TAGS EXTENSIBILITY IMPLIED ::= BEGIN
               Bb ::= SEQUENCE { a [0] INTEGER }
               bound INTEGER ::= 7
             END";
    let z = "Z DEFINITIONS IMPLICIT TAGS ::= BEGIN Zz ::= SEQUENCE { z [1] BOOLEAN } END";
    let with_imported_only = compile(&[a, b]).unwrap();
    let with_neighbour = compile(&[z, b, a]).unwrap();
    let block = module_block(&with_imported_only, "a");
    assert!(block.contains("usesuper::b::{Bb,BOUND};"), "{block}");
    assert!(block.contains("#[rasn(automatic_tags)]pubstructAa"), "{block}");
    assert!(!block.contains("non_exhaustive"), "{block}");
    assert_eq!(block, module_block(&with_neighbour, "a"));
    let block_b = module_block(&with_neighbour, "b");
    assert!(block_b.contains("#[non_exhaustive]pubstructBb"), "{block_b}");
    assert!(block_b.contains("tag(explicit(context,0))"), "{block_b}");
}

/// X.680 13.2 NOTE / 13.4: the tagging and extensibility defaults of a module apply to the type
/// notations that appear textually in that module. A parameterized type written in module B
/// (EXPLICIT TAGS, no EXTENSIBILITY IMPLIED) keeps B's defaults when it is instantiated in module A.
#[test]
fn parameterized_type_keeps_defaults_of_defining_module() {
    let a = "A DEFINITIONS AUTOMATIC TAGS EXTENSIBILITY IMPLIED ::= BEGIN
               IMPORTS Param{} FROM B;
               X ::= Param{INTEGER}
             END";
    let b = "B DEFINITIONS EXPLICIT TAGS ::= BEGIN
               Param{T} ::= SEQUENCE { a T, b BOOLEAN }
               Z ::= Param{INTEGER}
             END";
    let bindings = compile(&[a, b]).unwrap();
    let block_a = module_block(&bindings, "a");
    let block_b = module_block(&bindings, "b");
    // the same instantiation inside B is neither automatically tagged nor extensible
    assert!(!block_b.contains("automatic_tags"), "{block_b}");
    assert!(!block_b.contains("non_exhaustive"), "{block_b}");
    // ... and the SEQUENCE notation of B does not pick up A's defaults
    assert!(
        !block_a.contains("automatic_tags"),
        "AUTOMATIC TAGS of A leaked into a type written in B: {block_a}"
    );
    assert!(
        !block_a.contains("non_exhaustive"),
        "EXTENSIBILITY IMPLIED of A leaked into a type written in B: {block_a}"
    );
}

/// Module-qualified references resolve to that module, also where the reference is the
/// governing type of a value assignment or a DEFAULT value.
#[test]
fn module_qualified_references_in_value_positions() {
    let a = "A DEFINITIONS AUTOMATIC TAGS ::= BEGIN
               v My-Mod.Foo ::= 3
               X ::= SEQUENCE { g My-Mod.Foo DEFAULT My-Mod.fooVal }
             END";
    let m = "My-Mod DEFINITIONS AUTOMATIC TAGS ::= BEGIN
               Foo ::= INTEGER (0..10)
               fooVal Foo ::= 5
             END";
    let bindings = compile(&[a, m]).unwrap();
    let block = module_block(&bindings, "a");
    // module a has no use line for my_mod, so every mention has to be qualified
    assert!(!block.contains("usesuper::my_mod"), "{block}");
    assert!(
        always_prefixed(&block, "Foo", "super::my_mod::"),
        "unqualified `Foo` in module a: {block}"
    );
    assert!(
        always_prefixed(&block, "FOO_VAL", "super::my_mod::"),
        "unqualified `FOO_VAL` in module a: {block}"
    );
}

/// A typereference may consist of upper-case letters only (X.680 12.2). Importing it yields a
/// use declaration of exactly the imported symbols, not a glob import of the whole module.
#[test]
fn upper_case_type_reference_is_imported_by_name() {
    let a = "A DEFINITIONS AUTOMATIC TAGS ::= BEGIN
               IMPORTS T, Other FROM B;
               X ::= SEQUENCE { a T, b Other }
             END";
    let b = "B DEFINITIONS AUTOMATIC TAGS ::= BEGIN
               T ::= INTEGER
               Other ::= BOOLEAN
               Third ::= NULL
             END";
    let bindings = compile(&[a, b]).unwrap();
    let block = module_block(&bindings, "a");
    assert!(!block.contains("usesuper::b::*"), "{block}");
    assert!(
        block.contains("usesuper::b::{T,Other};") || block.contains("usesuper::b::{Other,T};"),
        "{block}"
    );
}

/// X.680 30.1 (SelectionType ::= identifier "<" Type) and 25.1 (COMPONENTS OF Type) take any
/// Type, including an ExternalTypeReference `Module.Type`.
#[test]
fn external_type_reference_in_selection_type_and_components_of() {
    let m = "My-Mod DEFINITIONS AUTOMATIC TAGS ::= BEGIN
               Ch ::= CHOICE { a INTEGER, b BOOLEAN }
               Sq ::= SEQUENCE { p INTEGER, q BOOLEAN }
             END";
    let selection = compile(&[
        "A DEFINITIONS AUTOMATIC TAGS ::= BEGIN X ::= a < My-Mod.Ch END",
        m,
    ]);
    let components_of = compile(&[
        "A DEFINITIONS AUTOMATIC TAGS ::= BEGIN X ::= SEQUENCE { COMPONENTS OF My-Mod.Sq, z NULL } END",
        m,
    ]);
    assert!(selection.is_ok(), "selection type: {selection:?}");
    assert!(components_of.is_ok(), "COMPONENTS OF: {components_of:?}");
    assert!(module_block(&selection.unwrap(), "a").contains("pubstructX(pubInteger)"));
    assert!(module_block(&components_of.unwrap(), "a").contains("pubq:bool"));
}

/// Module A imports only `Sq`. The components that COMPONENTS OF brings into A refer to `Helper`
/// and `hv` of module B; in the bindings of A these have to resolve to module b.
#[test]
fn components_of_imported_type_resolve_in_the_defining_module() {
    let a = "A DEFINITIONS AUTOMATIC TAGS ::= BEGIN
               IMPORTS Sq FROM B;
               X ::= SEQUENCE { z NULL, COMPONENTS OF Sq }
             END";
    let b = "B DEFINITIONS AUTOMATIC TAGS ::= BEGIN
               Helper ::= INTEGER (0..7)
               hv Helper ::= 2
               Sq ::= SEQUENCE { p Helper, q Helper DEFAULT hv }
             END";
    let bindings = compile(&[a, b]).unwrap();
    let block = module_block(&bindings, "a");
    let imported = |name: &str| {
        block
            .match_indices("usesuper::b::")
            .any(|(i, _)| block[i..].split(';').next().unwrap().contains(name))
    };
    assert!(
        imported("Helper") || always_prefixed(&block, "Helper", "super::b::"),
        "`Helper` of module b is neither imported nor qualified in module a: {block}"
    );
    assert!(
        imported("HV") || always_prefixed(&block, "HV", "super::b::"),
        "`HV` of module b is neither imported nor qualified in module a: {block}"
    );
}

/// Module A neither defines nor imports a value `lim`; the `lim` in its constraint is the named
/// number of the constrained type. A neighbour that happens to define a value `lim` must not
/// change the bindings of A.
#[test]
fn value_of_unrelated_neighbour_does_not_capture_named_number() {
    let a = "A DEFINITIONS AUTOMATIC TAGS ::= BEGIN
               I ::= INTEGER { lim(10) } (0..lim)
             END";
    let z = "Z DEFINITIONS AUTOMATIC TAGS ::= BEGIN lim INTEGER ::= 99 END";
    let alone = module_block(&compile(&[a]).unwrap(), "a");
    let with_neighbour = module_block(&compile(&[a, z]).unwrap(), "a");
    assert!(alone.contains("value(\"0..=10\")"), "{alone}");
    assert_eq!(alone, with_neighbour);
}
