//! Property C09: notations defined by expansion compile like their hand-expanded form.
//!
//! Every test compiles a "sugared" module and the same module with the notation expanded by
//! hand and compares the generated bindings line by line (attributes that do not depend on
//! the input, blank lines and the module prelude are removed).

use rasn_compiler::prelude::*;

fn compile(body: &str) -> String {
    let src = format!("TestModule DEFINITIONS AUTOMATIC TAGS ::= BEGIN\n{body}\nEND\n");
    match Compiler::<RasnBackend, _>::new()
        .add_asn_literal(&src)
        .compile_to_string()
    {
        Ok(r) => {
            let mut s = r.generated;
            for w in r.warnings {
                s.push_str(&format!("\n// WARNING: {w}"));
            }
            s
        }
        Err(e) => format!("// ERROR: {e}"),
    }
}

/// The generated text, one trimmed line per element, without the lines every module has
fn normalised(generated: &str) -> Vec<String> {
    generated
        .lines()
        .map(|l| l.trim().to_owned())
        .filter(|l| {
            !(l.is_empty()
                || l.starts_with("#[allow(")
                || l.starts_with("non_")
                || l == "unused,"
                || l == ")]"
                || l.starts_with("clippy::")
                || l.starts_with("extern crate")
                || l.starts_with("use ")
                || l.starts_with("#[derive("))
        })
        .collect()
}

fn assert_same_bindings(sugared: &str, expanded: &str) {
    let (s, e) = (compile(sugared), compile(expanded));
    assert!(!e.contains("// ERROR") && !e.contains("// WARNING"), "{e}");
    assert_eq!(
        normalised(&s).join("\n"),
        normalised(&e).join("\n"),
        "\n--- sugared module:\n{sugared}\n--- expanded module:\n{expanded}\n"
    );
}

/// A healthy input: a value reference in a constraint, COMPONENTS OF at the end of the
/// component list, a parameterized type with a type and a value parameter, a selection type
/// and a fixed-type value field of a class.
#[test]
fn sanity() {
    assert_same_bindings(
        r#"
        nine INTEGER ::= 9
        Aaa ::= SEQUENCE { x INTEGER (0..nine), COMPONENTS OF Bbb }
        Bbb ::= SEQUENCE { y BOOLEAN, z NULL }
        Ppp { T, INTEGER: max } ::= SEQUENCE (SIZE(1..max)) OF T
        Impl ::= Ppp { BOOLEAN, 4 }
        Cho ::= CHOICE { a INTEGER (0..7), b BOOLEAN }
        Sel ::= a < Cho
        CLS ::= CLASS { &id INTEGER (0..255) UNIQUE, &Type }
        Fld ::= SEQUENCE { i CLS.&id }
        "#,
        r#"
        nine INTEGER ::= 9
        Aaa ::= SEQUENCE { x INTEGER (0..9), y BOOLEAN, z NULL }
        Bbb ::= SEQUENCE { y BOOLEAN, z NULL }
        Impl ::= SEQUENCE (SIZE(1..4)) OF BOOLEAN
        Cho ::= CHOICE { a INTEGER (0..7), b BOOLEAN }
        Sel ::= INTEGER (0..7)
        CLS ::= CLASS { &id INTEGER (0..255) UNIQUE, &Type }
        Fld ::= SEQUENCE { i INTEGER (0..255) }
        "#,
    );
}

/// X.680 clause 19 (`IntegerValue ::= SignedNumber | identifier`): in a constraint on an
/// INTEGER type with named numbers, an identifier of the named number list denotes that number. The named numbers of the type that is being
/// defined are not found, the whole constraint is dropped.
#[test]
fn named_number_of_the_constrained_type_itself() {
    let sugared = compile("Aaa ::= INTEGER { lo(1), hi(5) } (lo..hi)");
    assert!(
        sugared.contains(r#"value("1..=5")"#),
        "the range constraint lo..hi = 1..5 is missing:\n{sugared}"
    );
    assert_same_bindings(
        "Aaa ::= INTEGER { lo(1), hi(5) } (lo..hi)",
        "Aaa ::= INTEGER { lo(1), hi(5) } (1..5)",
    );
}

/// X.680 25.5: COMPONENTS OF is replaced by the components of the referenced type *after*
/// that type's own COMPONENTS OF have been expanded. With names in descending order
/// (`Ccc` -> `Bbb` -> `Aaa`) the components of the innermost type are lost in `Ccc`,
/// in ascending order (`Aaa` -> `Bbb` -> `Ccc`) they are present.
#[test]
fn components_of_a_type_that_uses_components_of_and_sorts_before() {
    let sugared = r#"
        Ccc ::= SEQUENCE { x INTEGER, COMPONENTS OF Bbb }
        Bbb ::= SEQUENCE { y BOOLEAN, COMPONENTS OF Aaa }
        Aaa ::= SEQUENCE { z NULL }
    "#;
    let generated = compile(sugared);
    assert!(
        generated.contains("pub fn new(x: Integer, y: bool, z: ()) -> Self"),
        "Ccc must have the components x, y, z:\n{generated}"
    );
    assert_same_bindings(
        sugared,
        r#"
        Ccc ::= SEQUENCE { x INTEGER, y BOOLEAN, z NULL }
        Bbb ::= SEQUENCE { y BOOLEAN, z NULL }
        Aaa ::= SEQUENCE { z NULL }
    "#,
    );
}

/// X.680 25.5: the type after COMPONENTS OF "shall be a sequence type", a reference to a
/// reference to a SEQUENCE type is one. The components are silently missing.
#[test]
fn components_of_a_reference_to_a_reference() {
    let sugared = r#"
        Aaa ::= SEQUENCE { x INTEGER, COMPONENTS OF Bbb }
        Bbb ::= Ccc
        Ccc ::= SEQUENCE { y BOOLEAN, z NULL }
    "#;
    let generated = compile(sugared);
    assert!(
        generated.contains("pub fn new(x: Integer, y: bool, z: ()) -> Self"),
        "Aaa must have the components x, y, z:\n{generated}"
    );
    assert_same_bindings(
        sugared,
        r#"
        Aaa ::= SEQUENCE { x INTEGER, y BOOLEAN, z NULL }
        Bbb ::= Ccc
        Ccc ::= SEQUENCE { y BOOLEAN, z NULL }
    "#,
    );
}

/// X.683 8.3: a dummy reference hides any other reference with the same name in the
/// parameterized assignment. When the template's name sorts after the instance's name
/// (`Ppp` > `Impl`), `max` in the template is replaced by the module's value `max` (99)
/// before the template is instantiated; with a template called `Appp` the result is 0..5.
#[test]
fn dummy_reference_hides_a_value_of_the_same_name() {
    let sugared = r#"
        max INTEGER ::= 99
        Ppp { INTEGER: max } ::= INTEGER (0..max)
        Impl ::= Ppp { 5 }
    "#;
    let generated = compile(sugared);
    assert!(
        generated.contains(r#"#[rasn(delegate, value("0..=5"))]"#),
        "Impl is INTEGER (0..5):\n{generated}"
    );
    assert_same_bindings(
        sugared,
        r#"
        max INTEGER ::= 99
        Impl ::= INTEGER (0..5)
    "#,
    );
}

/// X.683 9: the instance is the template with the actual parameter in the place of the dummy
/// reference, `a T (0..5)` with T = INTEGER is `a INTEGER (0..5)`. The constraint is dropped.
#[test]
fn constraint_on_a_dummy_type_reference() {
    let sugared = r#"
        Ppp { T } ::= SEQUENCE { a T (0..5) }
        Impl ::= Ppp { INTEGER }
    "#;
    let generated = compile(sugared);
    assert!(
        generated.contains(r#"value("0..=5")"#),
        "component a of Impl is INTEGER (0..5):\n{generated}"
    );
    assert_same_bindings(sugared, "Impl ::= SEQUENCE { a INTEGER (0..5) }");
}

/// X.681 14.2: `CLS.&id` for a fixed-type value field is the type of the field. That holds
/// for components of a SEQUENCE and alternatives of a CHOICE (see `sanity`), in a SET, a
/// SEQUENCE OF and a SET OF the field type becomes an open type (`Any`).
#[test]
fn fixed_type_value_field_in_set_and_list_types() {
    let sugared = r#"
        CLS ::= CLASS { &id INTEGER (0..255) UNIQUE }
        Bbb ::= SET { i CLS.&id }
        Ddd ::= SEQUENCE OF CLS.&id
        Eee ::= SET OF CLS.&id
    "#;
    let generated = compile(sugared);
    assert!(
        !generated.contains("Any"),
        "CLS.&id is INTEGER (0..255), no open type:\n{generated}"
    );
    assert_same_bindings(
        sugared,
        r#"
        CLS ::= CLASS { &id INTEGER (0..255) UNIQUE }
        Bbb ::= SET { i INTEGER (0..255) }
        Ddd ::= SEQUENCE OF INTEGER (0..255)
        Eee ::= SET OF INTEGER (0..255)
    "#,
    );
}
