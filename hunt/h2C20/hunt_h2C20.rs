//! Hunt for violations of property C20:
//! "compile() delivers exactly the compiled text, and nothing on failure; the command-line
//! tool and the asn1! macro produce the same bindings as the library and fail exactly when
//! it returns Err."
//!
//! The tests that concern the command-line tool build `rasn_compiler_cli` (feature `cli`) with
//! the cargo that runs the tests; the tests that concern `asn1!` expand the macro by running
//! `rustc` on a one-line crate against the proc-macro library that cargo built for this test
//! package. Everything is written below `CARGO_TARGET_TMPDIR`.

use std::{
    fs,
    path::{Path, PathBuf},
    process::{Command, Stdio},
    sync::OnceLock,
    time::SystemTime,
};

use rasn_compiler::{prelude::*, OutputMode};

const GOOD: &str = "Good DEFINITIONS AUTOMATIC TAGS ::= BEGIN\n  A ::= INTEGER (0..7)\nEND\n";

/// The header and footer that `asn1!` is specified to put around a bare snippet.
const DUMMY_HEADER: &str = "asn1 { dummy(999) header(999) }\n\nDEFINITIONS AUTOMATIC TAGS::= BEGIN\n";

fn scratch(name: &str) -> PathBuf {
    let dir = PathBuf::from(env!("CARGO_TARGET_TMPDIR"))
        .join("hunt_h2C20")
        .join(name);
    let _ = fs::remove_dir_all(&dir);
    fs::create_dir_all(&dir).unwrap();
    dir
}

fn library(src: &str) -> Result<CompileResult, CompilerError> {
    Compiler::<RasnBackend, _>::new()
        .add_asn_literal(src)
        .compile_to_string()
}

/// `<target>/<profile>/deps`, the directory this test binary lives in.
fn deps_dir() -> PathBuf {
    std::env::current_exe()
        .unwrap()
        .parent()
        .unwrap()
        .to_path_buf()
}

fn cargo() -> PathBuf {
    std::env::var_os("CARGO")
        .map(PathBuf::from)
        .unwrap_or_else(|| PathBuf::from("cargo"))
}

fn rustc() -> PathBuf {
    if let Some(rustc) = std::env::var_os("RUSTC") {
        return PathBuf::from(rustc);
    }
    let sibling = cargo().with_file_name("rustc");
    if sibling.exists() {
        sibling
    } else {
        PathBuf::from("rustc")
    }
}

fn newest(dir: &Path, prefix: &str, suffix: &str) -> PathBuf {
    fs::read_dir(dir)
        .unwrap()
        .filter_map(Result::ok)
        .filter(|e| {
            let name = e.file_name().to_string_lossy().into_owned();
            name.starts_with(prefix) && name.ends_with(suffix)
        })
        .max_by_key(|e| {
            e.metadata()
                .and_then(|m| m.modified())
                .unwrap_or(SystemTime::UNIX_EPOCH)
        })
        .unwrap_or_else(|| panic!("no {prefix}*{suffix} in {}", dir.display()))
        .path()
}

/// Expands `rasn_compiler_derive::asn1!(<asn1>)` in a crate of its own and type-checks the result.
/// Returns rustc's diagnostics if that fails.
fn expand_asn1_macro(name: &str, asn1: &str) -> Result<(), String> {
    let dir = scratch(name);
    let deps = deps_dir();
    let source = dir.join("snippet.rs");
    fs::write(
        &source,
        format!("rasn_compiler_derive::asn1!({asn1:?});\n"),
    )
    .unwrap();
    let output = Command::new(rustc())
        .args(["--edition", "2021", "--crate-type", "lib", "--emit=metadata"])
        .arg("--out-dir")
        .arg(&dir)
        .arg("--extern")
        .arg(format!(
            "rasn_compiler_derive={}",
            newest(&deps, "librasn_compiler_derive-", ".so").display()
        ))
        .arg("--extern")
        .arg(format!(
            "rasn={}",
            newest(&deps, "librasn-", ".rlib").display()
        ))
        .arg("-L")
        .arg(format!("dependency={}", deps.display()))
        .arg(&source)
        .output()
        .expect("rustc can be run");
    if output.status.success() {
        Ok(())
    } else {
        Err(String::from_utf8_lossy(&output.stderr).into_owned())
    }
}

/// Builds the command-line tool next to the test binaries and returns its path.
fn cli() -> &'static Path {
    static CLI: OnceLock<PathBuf> = OnceLock::new();
    CLI.get_or_init(|| {
        let profile_dir = deps_dir().parent().unwrap().to_path_buf();
        let target_dir = profile_dir.parent().unwrap().to_path_buf();
        let status = Command::new(cargo())
            .current_dir(env!("CARGO_MANIFEST_DIR"))
            .args(["build", "--offline", "-p", "rasn-compiler", "--features", "cli"])
            .env("CARGO_TARGET_DIR", &target_dir)
            .stdout(Stdio::null())
            .stderr(Stdio::null())
            .status()
            .expect("cargo can be run");
        assert!(status.success(), "building rasn_compiler_cli failed");
        let bin = target_dir.join("debug").join("rasn_compiler_cli");
        assert!(bin.exists(), "{} was not built", bin.display());
        bin
    })
}

/// The harness works: the library writes exactly what it returns, the command-line tool writes
/// the same text and succeeds, and the macro expands a healthy snippet.
#[test]
fn sanity() {
    let dir = scratch("sanity");
    let expected = library(GOOD).unwrap().generated;
    assert!(expected.contains("pub struct A"));

    // library, file mode
    let out = dir.join("lib.rs");
    fs::write(&out, "OLD").unwrap();
    Compiler::<RasnBackend, _>::new()
        .add_asn_literal(GOOD)
        .set_output_mode(OutputMode::SingleFile(out.clone()))
        .compile()
        .unwrap();
    assert_eq!(fs::read_to_string(&out).unwrap(), expected);

    // command-line tool, directory search + file mode + stdout
    fs::create_dir_all(dir.join("tree/sub")).unwrap();
    fs::write(dir.join("tree/sub/good.asn"), GOOD).unwrap();
    let out = dir.join("cli.rs");
    let run = Command::new(cli())
        .arg("-d")
        .arg(dir.join("tree"))
        .arg("-o")
        .arg(&out)
        .output()
        .unwrap();
    assert!(run.status.success());
    assert_eq!(fs::read_to_string(&out).unwrap(), expected);
    let run = Command::new(cli())
        .arg("-d")
        .arg(dir.join("tree"))
        .arg("--stdout")
        .output()
        .unwrap();
    assert!(run.status.success());
    assert_eq!(String::from_utf8(run.stdout).unwrap(), expected);

    // command-line tool fails, and leaves the destination alone, when the library fails
    fs::write(dir.join("bad.asn"), "Bad DEFINITIONS ::= BEGIN A ::= INTEGER (0..7 END").unwrap();
    fs::write(&out, "OLD").unwrap();
    let run = Command::new(cli())
        .arg("-m")
        .arg(dir.join("bad.asn"))
        .arg("-o")
        .arg(&out)
        .output()
        .unwrap();
    assert!(!run.status.success());
    assert_eq!(fs::read_to_string(&out).unwrap(), "OLD");

    // macro
    assert_eq!(
        expand_asn1_macro("sanity_macro", "Foo ::= INTEGER (0..5)\nBar ::= Foo\n"),
        Ok(())
    );
    // ... and the macro harness does notice a snippet that the library rejects
    assert!(expand_asn1_macro("sanity_macro_bad", "Foo ::= INTEGER (0..5\n").is_err());
}

/// `asn1!` decides whether its argument is a bare snippet by looking for the substring "BEGIN"
/// anywhere in it. A bare snippet that merely mentions BEGIN - here in a comment - is therefore
/// not wrapped into the dummy module and the macro panics, although the library accepts the
/// wrapped snippet.
#[test]
fn asn1_macro_wraps_snippet_that_mentions_begin_in_a_comment() {
    let snippet = "-- BEGIN of the types\nFoo ::= INTEGER\n";
    let wrapped = format!("{DUMMY_HEADER}{snippet}\nEND");
    assert!(
        library(&wrapped).is_ok(),
        "the library compiles the snippet inside the dummy module"
    );
    assert_eq!(
        expand_asn1_macro("macro_begin", snippet),
        Ok(()),
        "asn1! must succeed whenever the library does"
    );
}

/// `asn1!` appends the closing `END` directly to the last character of a bare snippet. When the
/// snippet ends in a reference (or in a `--` comment) the `END` is glued onto that last lexical
/// item (`FooEND`) and the macro panics, although the snippet is fine inside a module.
#[test]
fn asn1_macro_separates_snippet_from_closing_end() {
    let snippet = "Foo ::= INTEGER Bar ::= Foo";
    let wrapped = format!("{DUMMY_HEADER}{snippet}\nEND");
    assert!(
        library(&wrapped).is_ok(),
        "the library compiles the snippet inside the dummy module"
    );
    assert_eq!(
        expand_asn1_macro("macro_end", snippet),
        Ok(()),
        "asn1! must succeed whenever the library does"
    );
}

/// The command-line tool's directory search takes every directory *entry* whose name ends in
/// .asn/.asn1 for a module, including directories. One sub-directory called `specs.asn` makes the
/// whole run fail, although the library compiles the files that are there.
#[test]
fn cli_directory_search_descends_into_directory_named_like_a_module() {
    let dir = scratch("cli_dir");
    let module = dir.join("tree").join("specs.asn").join("good.asn1");
    fs::create_dir_all(module.parent().unwrap()).unwrap();
    fs::write(&module, GOOD).unwrap();

    let expected = Compiler::<RasnBackend, _>::new()
        .add_asn_sources_by_path([&module].into_iter())
        .compile_to_string()
        .expect("the library compiles the only module file of the tree")
        .generated;

    let out = dir.join("out.rs");
    let run = Command::new(cli())
        .arg("-d")
        .arg(dir.join("tree"))
        .arg("-o")
        .arg(&out)
        .output()
        .unwrap();
    assert!(
        run.status.success(),
        "rasn_compiler_cli failed: {}",
        String::from_utf8_lossy(&run.stderr)
    );
    assert_eq!(fs::read_to_string(&out).unwrap(), expected);
}

/// In stdout mode the text is handed to Rust's line-buffered stdout and never flushed. Text
/// after the last line break (all of it, when rustfmt is not around, as for an installed binary)
/// is only written when the process exits, where a write error is silently dropped: the tool
/// reports success although its destination received nothing.
#[test]
fn cli_reports_unwritable_stdout() {
    let dir = scratch("cli_stdout");
    let module = dir.join("good.asn");
    fs::write(&module, GOOD).unwrap();

    let mut child = Command::new(cli())
        .arg("-m")
        .arg(&module)
        .arg("--stdout")
        // an installed binary is not run by cargo: no rustfmt is found and the bindings are
        // one unbroken line
        .env_remove("CARGO")
        .env_remove("CARGO_HOME")
        .stdout(Stdio::piped())
        .stderr(Stdio::piped())
        .spawn()
        .unwrap();
    // close the reading end: every write to the child's stdout fails with EPIPE
    drop(child.stdout.take());
    let run = child.wait_with_output().unwrap();
    assert!(
        !run.status.success(),
        "the bindings could not be written to stdout, yet rasn_compiler_cli exited with {}",
        run.status
    );
}
