#!/usr/bin/env python3
"""Property-preserving changes (neutral/<id>/patch<k>.diff, made by sub-agents that were given the twenty property
statements and asked for realistic changes that keep all of them true): apply each to the repository copy, run every
quick check, expect exit 0 everywhere.  Meant to be run through tools/isorun.py (works on $VERIF_REPO, no git needed):
  tools/isorun.py neutral 'tools/neutral.py [<id>/patch<k>.diff ...]'"""
import os, subprocess, sys, glob, json
V = os.path.dirname(os.path.dirname(os.path.abspath(__file__)))
REPO = os.environ.get("VERIF_REPO", "/repo")
def sh(cmd, cwd=None):
    return subprocess.run(cmd, shell=True, cwd=cwd, stdout=subprocess.PIPE, stderr=subprocess.STDOUT, text=True)
patches = [os.path.join(V, "neutral", a) for a in sys.argv[1:]] or sorted(glob.glob(f"{V}/neutral/*/patch*.diff"))
res = {}
for p in patches:
    name = os.path.relpath(p, f"{V}/neutral")
    a = sh(f"patch -p1 --no-backup-if-mismatch < {p}", cwd=REPO)
    if a.returncode != 0:
        print(f"{name}: STALE ({a.stdout.strip()[:200]})", flush=True); sh(f"patch -R -p1 --no-backup-if-mismatch < {p}", cwd=REPO); continue
    try:
        r = sh("tools/runall.sh quick", cwd=V)
        bad = [l for l in r.stdout.splitlines() if l.startswith("rc=") and not l.startswith("rc=0")]
        detail = [l for l in r.stdout.splitlines() if "VIOLATION" in l or "key:" in l or "MACHINERY" in l]
        res[name] = {"alarms": bad, "detail": detail[:12]}
        print(f"{name}: {'SILENT (all 20 checks exit 0)' if not bad else 'ALARM'}", flush=True)
        for l in bad + detail[:12]: print("   ", l[:300], flush=True)
    finally:
        sh(f"patch -R -p1 --no-backup-if-mismatch < {p}", cwd=REPO)
json.dump(res, open(f"{V}/neutral/last_run.json", "w"), indent=1)
