#!/usr/bin/env python3
"""List (and with --apply drop) known-finding entries of a property that no run tier reports any more.
usage: prune_known.py <ID> [--tiers quick,thorough] [--apply]
The file is only edited by this developer tool, never by a check."""
import sys, re, subprocess, fnmatch, os
V = os.path.dirname(os.path.dirname(os.path.abspath(__file__)))
def glob(pat, s):
    parts = pat.split("*")
    if len(parts) == 1: return pat == s
    if not s.startswith(parts[0]): return False
    pos = len(parts[0])
    for p in parts[1:-1]:
        k = s.find(p, pos)
        if k < 0: return False
        pos = k + len(p)
    return len(s) >= pos + len(parts[-1]) and s[pos:].endswith(parts[-1])
def main():
    pid = sys.argv[1].upper()
    tiers = "quick,thorough"
    if "--tiers" in sys.argv: tiers = sys.argv[sys.argv.index("--tiers") + 1]
    hit = set()
    for t in tiers.split(","):
        r = subprocess.run([os.path.join(V, "check"), pid, "--tier", t], stdout=subprocess.PIPE, stderr=subprocess.STDOUT, text=True)
        print(f"{pid} {t}: exit {r.returncode}: {r.stdout.strip().splitlines()[-1]}")
        if r.returncode != 0:
            print(r.stdout[-3000:]); return 1
        for m in re.finditer(r"\[key=(.*?); \d+ occurrences", r.stdout): hit.add(m.group(1))
    path = os.path.join(V, "known_findings.txt")
    lines = open(path).read().splitlines(keepends=True)
    keep, dropped = [], []
    for l in lines:
        m = re.match(r"known: property=(\w+) ## key=(.*?) ## what=", l)
        if m and m.group(1) == pid:
            k = m.group(2)
            ok = any(glob(k, h) for h in hit)
            if not ok: dropped.append(k); continue
        keep.append(l)
    for k in dropped: print("STALE", k)
    if "--apply" in sys.argv and dropped:
        open(path, "w").write("".join(keep)); print(f"dropped {len(dropped)} entries")
    return 0
sys.exit(main())
