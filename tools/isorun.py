#!/usr/bin/env python3
"""Run a command on isolated copies of /repo and /verif (under /tmp/iso/<name>), so that long runs (thorough tiers,
mutants) do not block work on the live trees.  usage: tools/isorun.py <name> '<command run in the copy of /verif>'
The copies are refreshed from the current trees first; own target directories (first build is cold)."""
import os, subprocess, sys
V = os.path.dirname(os.path.dirname(os.path.abspath(__file__)))
name, cmd = sys.argv[1], sys.argv[2]
ISO = f"/tmp/iso/{name}"
os.makedirs(ISO, exist_ok=True)
subprocess.run(f"rsync -a --delete --exclude target --exclude .git /repo/ {ISO}/repo/ && rsync -a --delete --exclude target --exclude replays --exclude .git --exclude .work {V}/ {ISO}/verif/", shell=True, check=True)
for f, old, new in [("harness/Cargo.toml", 'path = "/repo/rasn-compiler"', f'path = "{ISO}/repo/rasn-compiler"'), ("macrocheck/ma/Cargo.toml", 'path = "/repo/rasn-compiler-derive"', f'path = "{ISO}/repo/rasn-compiler-derive"')]:
    p = f"{ISO}/verif/{f}"
    s = open(p).read().replace(old, new)
    open(p, "w").write(s)
env = dict(os.environ, VERIF_REPO=f"{ISO}/repo", VERIF_DIR=f"{ISO}/verif")
r = subprocess.run(f"./check --setup >/dev/null 2>&1; {cmd}", shell=True, cwd=f"{ISO}/verif", env=env)
sys.exit(r.returncode)
