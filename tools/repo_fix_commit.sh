#!/bin/bash
# usage: tools/repo_fix_commit.sh <message-file>   — runs the repository's suite; commits /repo's working tree only if nothing fails
set -e
cd /repo
res=$(cargo test --workspace --no-fail-fast --offline 2>&1 | grep -E "^test result" | awk '{p+=$4; f+=$6} END {print p" "f}')
echo "suite: passed failed = $res"
set -- $res "$1"
if [ "$2" != "0" ] || [ "$1" -lt 342 ]; then echo "NOT COMMITTED"; exit 1; fi
git add -A && git commit -q -F "$3" && git log --oneline | head -1
