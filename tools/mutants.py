#!/usr/bin/env python3
"""Detection demonstration: apply each hand-made mutant (a realistic property-breaking edit) to /repo's
working tree, run the named checks (quick tier), expect exit 1 + VIOLATION; revert.  `--tests` also runs
the repository's own suite on the mutant (it must still pass for the mutant to count).
usage: tools/mutants.py [--tests] [--isolated] [name ...]
--isolated: work on copies /tmp/mut/repo and /tmp/mut/verif (own target dirs), so that /repo and /verif stay
usable while the mutants run; the copies are refreshed from the current trees first."""
import json, os, subprocess, sys, time
V = os.path.dirname(os.path.dirname(os.path.abspath(__file__)))
REPO = os.environ.get("VERIF_REPO", "/repo")  # isorun.py sets it to its copy
ISO = "/tmp/mut"
if "--isolated" in sys.argv:
    os.makedirs(ISO, exist_ok=True)
    subprocess.run(f"rsync -a --delete --exclude target --exclude .git /repo/ {ISO}/repo/ && rsync -a --delete --exclude target --exclude replays --exclude .git --exclude .work {V}/ {ISO}/verif/", shell=True, check=True)
    subprocess.run(["sed", "-i", f's|path = "/repo/rasn-compiler"|path = "{ISO}/repo/rasn-compiler"|', f"{ISO}/verif/harness/Cargo.toml"], check=True)
    subprocess.run(["sed", "-i", f's|path = "/repo/rasn-compiler-derive"|path = "{ISO}/repo/rasn-compiler-derive"|', f"{ISO}/verif/macrocheck/ma/Cargo.toml"], check=True)
    V = f"{ISO}/verif"
    REPO = f"{ISO}/repo"
    os.environ["VERIF_REPO"] = REPO
    os.environ["VERIF_DIR"] = V
R = REPO + "/rasn-compiler/src/"
M = json.load(open(os.path.join(V, "mutants", "mutants.json")))

def sh(cmd, **kw):
    return subprocess.run(cmd, shell=True, stdout=subprocess.PIPE, stderr=subprocess.STDOUT, text=True, **kw)

def main():
    args = sys.argv[1:]
    tests = "--tests" in args
    names = [a for a in args if not a.startswith("--")]
    results = []
    if REPO == "/repo":
        assert sh("git -C /repo status --porcelain --untracked-files=no").stdout.strip() == "", "repo working tree not clean"
    else:
        r = sh("cd %s && ./check --setup" % V)
        assert r.returncode == 0, r.stdout[-2000:]
    for m in M:
        if names and m["name"] not in names: continue
        edits = m.get("edits") or [{"file": m["file"], "old": m["old"], "new": m["new"]}]
        originals = {}
        ok = True
        for e in edits:
            path = R + e["file"]
            src = originals.get(path) or open(path).read()
            originals.setdefault(path, src)
        work = dict(originals)
        for e in edits:
            path = R + e["file"]
            if work[path].count(e["old"]) != 1:
                print("SKIP %s: pattern occurs %d times in %s" % (m["name"], work[path].count(e["old"]), e["file"])); ok = False; break
            work[path] = work[path].replace(e["old"], e["new"])
        if not ok: continue
        try:
            for path, txt in work.items():
                open(path, "w").write(txt)
            row = {"name": m["name"], "expect": m["props"], "neutral": m.get("neutral", False)}
            if tests:
                r = sh("cd " + REPO + " && cargo test --workspace --no-fail-fast --offline 2>&1 | grep -E '^test result' | awk '{p+=$4; f+=$6} END {print p, f}'")
                row["suite"] = r.stdout.strip()
            for pid in m["props"]:
                t = time.time()
                r = sh("cd %s && ./check %s --tier quick" % (V, pid))
                vio = [l for l in r.stdout.splitlines() if l.startswith("VIOLATION")]
                row[pid] = {"exit": r.returncode, "violations": len(vio), "s": round(time.time() - t, 1)}
                if r.returncode == 2:
                    row[pid]["tail"] = r.stdout[-400:]
            results.append(row)
            print(json.dumps(row))
        finally:
            for path, txt in originals.items():
                open(path, "w").write(txt)
    if REPO == "/repo":
        sh("git -C /repo checkout -- .")
    bad = [r for r in results for p in r["expect"] if (r[p]["exit"] != (0 if r["neutral"] else 1))]
    print("mutants run: %d, unexpected outcomes: %d" % (len(results), len(bad)))
    return 1 if bad else 0
sys.exit(main())
