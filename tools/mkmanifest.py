#!/usr/bin/env python3
"""Regenerates /verif/MANIFEST.json from the table below (single source of truth)."""
import json, os
V = os.path.dirname(os.path.dirname(os.path.abspath(__file__)))
CHECKS = {
 # id: (engine, technique, level text, level note, design ref)
 "C02": ("E1-shape", "bounded-exhaustive enumeration of constructed-type shapes executed on the real compiler vs. structural reference",
         "Every SEQUENCE/SET/CHOICE with n components (quick n<=2, thorough n<=3 full and n=4 over a reduced alphabet) over a 14-type component alphabet x {required, OPTIONAL, DEFAULT} x marker at every position, long lists n=5..12 with one deviating position, all container chains over {SEQUENCE, SET, CHOICE, SEQUENCE OF, SET OF} to depth 4, OF/primitive assignments, all under 4 tagging defaults x EXTENSIBILITY IMPLIED (5.9 M modules thorough, 148 k quick) is compiled and the syn projection compared structurally with the model: one field/variant per component in source order, Rust type class, Option/default-fn/Box, set markers, hoisted anonymous items exactly once, nothing extra, Box exactly on reference cycles (graph check).",
         "Model comparator (harness/src/model.rs) and syn projection trusted; component types outside the alphabet and n>4 full products not covered (small-scope hypothesis: index logic sees first/mid/last positions).", "§4 C02"),
 "C05": ("E1-shape", "bounded-exhaustive enumeration of extension layouts executed on the real compiler vs. structural reference",
         "kind{SEQUENCE,SET,CHOICE,ENUMERATED} x root size 0..4 x marker x every addition layout of length <=6 (plain component or [[ ]] group of 1..3, <=3 groups, with/without version numbers) x top-level/nested x EXTENSIBILITY IMPLIED x 2 tagging defaults (297 k modules thorough) compiled; non_exhaustive <=> marker or IMPLIED, extension_addition exactly at index >= r, one Option<Group> extension_addition_group member per group with exactly the grouped components in order.",
         "Same comparator as C02 in extension mode. CHOICE groups with version numbers are rejected by the parser (Err) and are counted as unsupported, not judged. Second extension marker / second root not in the grammar.", "§4 C05"),
 "C03": ("E1-shape", "complete enumeration of the finite tagging configuration space executed on the real compiler vs. X.680 31.2.7/25.3/29.2 reference",
         "The whole product default{none,EXPLICIT,IMPLICIT,AUTOMATIC} x keyword x class x number{0,5,300} x 10 positions (incl. nesting depth 2-3 and OF elements) x 6 tagged type kinds (7 k points) and the automatic-tagging predicate (192 points) is compiled point by point and the tag/automatic_tags attributes compared with the X.680 rule; thorough adds all ordered pairs of occurrences at different positions (82 k modules) to show independence. Complete, not sampled.",
         "Attribute-level observation (syn); what rasn-derive makes of an attribute on the wire is trusted. For CHOICE/open-typed components and delegate newtypes over a referenced CHOICE/ANY only (class, number) are compared because rasn applies explicit tagging to those itself.", "§4 C03"),
 "C04": ("E1-shape", "bounded-exhaustive enumeration of subtype-constraint expression trees executed on the real compiler vs. set-semantics + PER-visible fold reference",
         "All subtype expressions with <=3 operands over a 32-operand alphabet (singles/ranges on {MIN,-3,0,2,5,9,MAX}) x {|,^,EXCEPT,ALL EXCEPT} x marker x 1..2 serial constraints x 6 constrainable types x {assignment, component, constrained parent, value-reference endpoints, named-number endpoints} (1.0 M cases thorough, 0.32 M quick) are compiled by the real compiler; the emitted value()/size()/Fixed*String bound is compared with (i) exact set semantics on a 19-point universe (soundness) and (ii) the interval fold under X.680 precedence (equality), plus marker<=>extensible. Complete inside the bound.",
         "Reference: 150 lines of bit-set / interval algebra, self-tested against brute force at start-up; syn projection trusted. Endpoints outside the 7-point alphabet, >3 operands, parenthesised sub-expressions are not covered. Mixed-marker serial constraints accept either flag (X.680 G.4.2.3 ambiguity).", "§4 C04"),
 "C06": ("E1-shape", "bounded-exhaustive enumeration of INTEGER bound pairs x contexts executed on the real compiler vs. width reference",
         "All 1431 (lo,hi) pairs of the 53-point boundary set x marker x 11 contexts (assignment, component, OPTIONAL, CHOICE alternative, nested member, SEQUENCE OF / SET OF element, value, value of referenced type, DEFAULT, DEFAULT of referenced type) x literal in {lo,hi,mid}, plus serial and union pairs over a 9-point subset (75 k cases) are compiled; the emitted integer type token must contain the permitted hull, be fixed-width only for finite non-extensible constraints, and every emitted literal must equal the source value and fit its declared type.",
         "Type-token -> range table and literal evaluator are trusted (self-tested); widths for constraints outside the boundary set follow by monotonicity of the comparison chains (small-scope argument, not a proof).", "§4 C06"),
 "C07": ("E1-shape", "bounded-exhaustive enumeration of value notations x routes executed on the real compiler; initialisers reduced by a symbolic evaluator and compared with the model's abstract value",
         "Integers (53-point boundary set and the i128 ends, three typings), booleans, NULL, all cstrings of length <=2 over {a, space, escaped quote, e-acute, euro} per string type (11 types) plus a 40-character string, all bstrings of length 0..8, all hstrings of 0..2 digits + every digit at every position + 64 walking-one patterns, all 32 named-bit subsets, named numbers, enumerals, OIDs over every arc form and every X.660 well-known name under each root, CHOICE/SEQUENCE/SEQUENCE OF values to depth 2 - each as value assignment, through two type references, via a value reference, as DEFAULT and as DEFAULT via a value reference (10 k values, both tiers): the emitted const / LazyLock static / default-fn body is evaluated symbolically to an abstract value and compared.",
         "The evaluator knows exactly the expression forms the templates emit (self-tested); an unknown form is reported, not guessed. Values are not executed against rasn (no DER cross-check in this check).", "§4 C07"),
 "C08": ("E2-token", "exhaustive enumeration of five hostile-input families, each case executed on the real compiler in an isolated worker process with watchdog",
         "All token strings of length <=3 (thorough 4) over a 40-token alphabet in 3 placements; every byte prefix and every single-token edit (delete/duplicate/swap/replace/insert x 40 tokens) of 33 feature modules (+ real-world modules); multi-byte characters at every character position; every module left inside each kind of unterminated item; all functional reference graphs on 3 nodes over 8 edge kinds with/without a value; nesting depth 2^k for 15 bracket-like recursions; 16 unsupported notations x 10 positions and ~60 hostile one-liners (341 k inputs quick, ~9 M thorough), both backends; compile + Display + contextualize of every error/warning must return within 10 s without panic or process death.",
         "Worker isolation (8 MiB stack, 6 GiB address-space cap, 10 s watchdog) attributes a death or expiry to the single in-flight input. Arbitrary byte soup outside the token alphabet is covered only through the multi-byte and prefix families. 7 known-finding classes on the pinned tree (unbounded recursion, exponential parse time, one unreachable!).", "§4 C08"),
 "C11": ("E3-history", "exhaustive permutation / history (BFS) / schedule (shuttle DFS at hook points) exploration of real compilations against sequential and fresh-process references",
         "All orders of every closed sub-list of <=5 assignments and the complete neighbourhood (reversal, adjacent transpositions, rotations) of a 17-assignment module with forward/backward references and ambiguous named numbers; all 24 orders of 4 modules inside a source and as separate sources; BFS over all operation histories of depth <=3 (thorough 4) from a 6-input alphabet covering every piece of per-run state, each step compared with a fresh process; shuttle::check_dfs over 2 threads x 1 compilation for 10 input pairs (49 k schedules quick; thorough adds 3x1 and 2x2) with scheduling points at the verif_hooks stage boundaries; byte-identical bindings and equal warning multisets required everywhere. An unstable (non-reproducing) discrepancy counts as a violation.",
         "Hash seeds cannot be enumerated: 8 fresh processes per input sample them (labelled sampling). Interleavings are explored at stage boundaries only; shuttle runs model threads on one OS thread (std thread_local state would be shared: stricter than reality). A census of global/hashed state in the sources is written to the evidence.", "§4 C11"),
 "C12": ("E3-history", "exhaustive enumeration of module sets, import digraphs and hand-over orders; differential joint vs. stand-alone compilation on the real compiler",
         "2-module sets under all 8x8 tagging/extensibility default assignments x all import digraphs, 3-module sets with pairwise-distinct defaults x all 64 digraphs (cyclic included), 4-module ring/star/complete graphs (thorough); for each set every import-closed subset in every order as separate literals, once concatenated, with/without wildcard imports, with one duplicated source and with same-named definitions in all modules (29 k joint compilations thorough): each module's block must equal the block obtained with only its import closure; use lines, qualified references and imported-value constraints are compared with the model.",
         "Name mangling reference for module/type/value names is the documented rule (also checked by C16). The backend object is driven through the public Compiler API only.", "§4 C12"),
 "C13": ("E2-token", "exhaustive single-boundary (and pairwise / all-at-once) separator substitution over tokenized base inputs, differential oracle on the real compiler",
         "For 33 feature modules covering every production of the grammar and the 12 (thorough 60) smallest real-world modules, every X.680 token boundary x 13 separator forms (whitespace kinds, CRLF, none where separable, all three comment forms incl. nested and hostile contents) is compiled and compared (Ok/Err class, warning count, syn projection minus docs) with the single-space base; thorough adds all boundaries at once and all adjacent pairs (81 k inputs). Deviation-2 findings are reported only when no single boundary explains them.",
         "The harness tokenizer (X.680 12) and the separability rule are trusted; production coverage is that of the base inputs. 16 boundary classes are known findings on the pinned tree (multi-word reserved sequences matched with one literal space, comments not skipped in headers / EXPORTS / OID values / object assignments).", "§4 C13"),
 "C17": ("E2-token", "exhaustive single-token corruption of generated module sets executed on the real compiler, positional oracle",
         "Module sets of 1..3 modules x 1..14 assignments (14 assignment forms, 3 header forms, LF/CRLF, with/without interleaved comments) x every unit x every token position x {delete, replace/insert a character that starts no token, replace/insert 8 real tokens}, as literal and as file path (153 k corrupted inputs thorough); every returned MatchingError is judged: offset in range and on a char boundary, line = 1 + preceding line breaks, not before the malformed unit, not after the impossible character, Display / contextualize / ReportData lines equal, path reported iff given.",
         "Offsets of units and of the inserted character are computed by the harness while printing the input (no parsing of the compiler's output except the two rendered line numbers).", "§4 C17"),
 "C14": ("E1-shape", "bounded-exhaustive enumeration of ENUMERATED numbering patterns executed on the real compiler vs. X.680 §20 reference",
         "Every enumeration with <=5 root items and <=3 additions over {id, id(-1), id(0), id(1), id(2), id(5)} (2.4 M notations, thorough) is compiled by the real compiler and its discriminants, order, names, extension flags compared with a 40-line reference of X.680 §20.3-20.6; complete inside the bound, not sampled.",
         "Reference numbering function (self-tested on the X.680 examples) and the syn projection are trusted; numbers outside the 5-point alphabet and >8 items are not covered.", "§4 C14"),
 "C15": ("E1-shape", "bounded-exhaustive enumeration of FROM expressions executed on the real compiler vs. code-point interval-set reference",
         "FROM expressions of 1..2 operands (3 for IA5String/PrintableString in thorough) over a 10-operand table per type (strings of length 1,2,3,6; ranges incl. MIN/MAX; multi-byte characters) x | ^ EXCEPT x SIZE absent/before/after/intersected x {assignment, component, included constrained type, constrained parent} x 6 known-multiplier types, serial FROM pairs, and 5 non-known-multiplier types (must give no from); emitted from(..) entries are expanded to a code-point set and compared with the exact set, and with the base alphabet.",
         "Interval-set algebra self-tested against brute force. On the pinned tree large parts of the alphabet folding are defective (10 known-finding classes); the guarded region is IA5String/VisibleString/NumericString/BMPString with single operands and unions in assignment/component position plus the no-annotation rule.", "§4 C15"),
 "C16": ("E1-shape", "bounded-exhaustive enumeration of the identifier language (class alphabet) x roles executed on the real compiler vs. naming reference",
         "Every legal ASN.1 name of length <= 6 over the class alphabet {a,z,A,Z,0,9,-} (the conversion code branches only on lower/upper/digit/hyphen) in each role {module, type + references to it, component, alternative, enumeral, value + reference, named number}, every Rust strict/reserved/weak keyword in its legal spelling per role with hyphenated neighbours, cross-role pairs differing only by case/hyphen, and the TypeScript backend (224 k modules thorough): output parses, identifier legal and non-keyword, letter/digit sequence preserved, case class per role, identifier annotation present and equal whenever the spelling changed, references spelled like the definition.",
         "Two representatives per character class stand for the whole class (sound because the code inspects only the class). Names longer than 6 are not covered.", "§4 C16"),
 "C19": ("E1-shape", "exhaustive enumeration of the backend configuration space, differential comparison of real compiler outputs",
         "29 base module sets (27 feature modules of G, a module of CHOICEs with unique/duplicate/recursive/anonymous payload types and const/lazy values, a 3-module import set) x all 191 non-default RasnConfig combinations (2^4 flags x custom_imports {0,1,3} x type_annotations {default, extra derives, non-derive attributes, derives listed twice}); the projection under each configuration minus the documented delta of every enabled option must equal the default-configuration projection item by item.",
         "syn projection trusted; opaque_open_types=false is only compared on bases without information-object machinery (where it must change nothing).", "§4 C19"),
 "C20": ("E3-history", "complete enumeration of the outcome x output-mode x destination-state x backend x source-kind matrix (and two-step histories), each operation executed on the real library / CLI in a child process inside a sandbox directory",
         "912 cases (both tiers): input outcome {Ok, Ok+warnings, lexer Err, unreadable path} x mode {file, existing directory, Stdout, NoOutput, deprecated set_output_path, CLI default} x destination {absent, existing content, read-only file/dir, missing parent, parent is a file, /dev/full} x backend x source kind {literal, path, iterator, mix, CLI -m, CLI -d recursive}, plus two-step histories on one destination; directory tree snapshotted before/after, stdout captured; delivered bytes must equal compile_to_string(), nothing written on failure, unwritable => Err(Generator(IO)) without panic, CLI exit status 0 <=> Ok.",
         "chmod-based read-only rows are reported as not realisable when the check runs as root (permission bits not enforced); unwritable destinations are then realised through missing parent / parent-is-file / /dev/full. The asn1! macro clause is not covered by this check (see DESIGN §5).", "§4 C20"),
}
PENDING = {}
def main():
    props = [json.loads(l) for l in open(os.path.join(V, "properties.jsonl"))]
    checks, na = [], []
    for p in props:
        pid = p["id"]
        if pid in CHECKS:
            eng, tech, text, note, ref = CHECKS[pid]
            checks.append({
                "property_id": pid,
                "quick_cmd": f"./check {pid} --tier quick",
                "thorough_cmd": f"./check {pid} --tier thorough",
                "evidence_file": f"/verif/evidence/{pid}.json",
                "replay_cmd_template": f"./check {pid} --replay {{path}}",
                "engine": eng,
                "level_claimed": {"category": "model_checking", "text": text, "design_ref": ref},
                "level_note": note,
                "technique": tech,
            })
        else:
            na.append({"property_id": pid, "reason": PENDING.get(pid, "check not built yet in this session (work in progress; see DESIGN.md §4 for the planned bounded-exhaustive exploration)")})
    m = {
        "version": 1,
        "setup_cmd": "./check --setup",
        "hooks": {
            "guard": "cargo feature `verif_hooks` of crate rasn-compiler",
            "enable": "harness/Cargo.toml feature `hooks` = rasn-compiler/verif_hooks (./check builds with --features hooks)",
            "baseline_off_cmd": "cd /repo && cargo test --workspace --no-fail-fast --offline",
            "source_commits": ["9383c40"],
            "add_only": True,
        },
        "engines": [
            {"name": "E1-shape", "path": "harness/src/driver.rs", "serves_properties": sorted(k for k, v in CHECKS.items() if v[0] == "E1-shape"), "kind_free_text": "explicit enumeration of a bounded model-state space; every state printed to ASN.1, executed on the real compiler, projected with syn and compared with a reference model"},
            {"name": "E2-token", "path": "harness/src/driver.rs", "serves_properties": sorted(k for k, v in CHECKS.items() if v[0] == "E2-token"), "kind_free_text": "exhaustive token-level edits/layouts of base inputs, differential or positional oracle"},
            {"name": "E3-history", "path": "harness/src/driver.rs", "serves_properties": sorted(k for k, v in CHECKS.items() if v[0] == "E3-history"), "kind_free_text": "BFS over operation histories / permutations / shuttle DFS schedules / destination-state fault matrices on the real objects"},
        ],
        "checks": checks,
        "not_applicable": na,
        "notes": "All checks: ./check <ID> --tier quick|thorough; exit 0 held / 1 VIOLATION / 2 machinery. Known findings: /verif/known_findings.txt.",
    }
    json.dump(m, open(os.path.join(V, "MANIFEST.json"), "w"), indent=1)
    print("checks:", len(checks), "not_applicable:", len(na))
main()
