#!/usr/bin/env python3
"""Re-run every stored seeded change (seeded/<id>/patch.diff) against the current /repo and the current checks.
usage: tools/reseed.py [<id> ...]
For each: git -C /repo apply (3-way fallback: --3way is not used; a patch that no longer applies is reported as STALE),
run the quick check(s) named in meta.json, expect exit 1, then git -C /repo checkout -- . ."""
import json, os, subprocess, sys
V = os.path.dirname(os.path.dirname(os.path.abspath(__file__)))
REPO = os.environ.get("VERIF_REPO", "/repo")
def sh(cmd, cwd=None):
    return subprocess.run(cmd, shell=True, cwd=cwd, stdout=subprocess.PIPE, stderr=subprocess.STDOUT, text=True)
def main():
    ids = sys.argv[1:] or sorted(os.listdir(f"{V}/seeded"))
    if REPO == "/repo":
        assert sh("git -C /repo status --porcelain --untracked-files=no").stdout.strip() == "", "repo dirty"
    bad = 0
    for i in ids:
        d = f"{V}/seeded/{i}"
        if not os.path.exists(f"{d}/patch.diff"): continue
        meta = json.load(open(f"{d}/meta.json"))
        props = meta.get("confirmed", {}).get("properties") or [meta.get("property")]
        if meta.get("superseded"):
            print(f"{i}: SUPERSEDED ({meta['superseded'][:100]})"); continue
        a = sh(f"git apply {d}/patch.diff", cwd=REPO)
        if a.returncode != 0:
            print(f"{i}: STALE (patch no longer applies: {a.stdout.strip()[:120]})"); continue
        try:
            caught = False
            for p in props:
                r = sh(f"./check {p} --tier quick", cwd=V)
                nv = sum(1 for l in r.stdout.splitlines() if l.startswith("VIOLATION"))
                print(f"{i}: {p} exit={r.returncode} violations={nv}")
                caught = caught or r.returncode == 1
            # a change is detected when at least one of the checks it was evaluated against reports it
            if not caught: bad += 1; print(f"{i}: NOT DETECTED")
        finally:
            sh(f"git apply -R {d}/patch.diff", cwd=REPO)
    return 1 if bad else 0
sys.exit(main())
