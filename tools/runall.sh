#!/bin/bash
# run every check of a tier (default quick) and print its summary line; exit 1 if any check did not exit 0
tier=${1:-quick}; bad=0
cd "$(dirname "$0")/.."
for i in $(seq -w 1 20); do
  out=$(./check C$i --tier $tier 2>&1); rc=$?
  echo "rc=$rc $(echo "$out" | grep -E "^\[C$i\] states" | tail -1)"
  if [ $rc -ne 0 ]; then bad=1; echo "$out" | grep -E "VIOLATION|key:|MACHINERY" | head -10; fi
done
exit $bad
