#!/usr/bin/env python3
"""Confirm and evaluate a sub-agent's seeded change.
usage: tools/seeded.py <worktree-id> <PROP> [<PROP>...]
 1. in the agent's worktree /tmp/wt/<id>: existing suite passes with the change (only the demo fails), demo passes without it
 2. apply the patch to /repo, run the named checks (quick), revert
 3. store patch.diff, demo, meta.json (+ what was run) under /verif/seeded/<id>/"""
import json, os, shutil, subprocess, sys
V = os.path.dirname(os.path.dirname(os.path.abspath(__file__)))
REPO = os.environ.get("VERIF_REPO", "/repo")   # an isolated copy under tools/isorun.py
def sh(cmd, cwd=None):
    return subprocess.run(cmd, shell=True, cwd=cwd, stdout=subprocess.PIPE, stderr=subprocess.STDOUT, text=True)
def main():
    args = [a for a in sys.argv[1:] if not a.startswith("--")]
    checks_only = "--checks-only" in sys.argv; confirm_only = "--confirm-only" in sys.argv
    wid = args[0]; props = args[1:]
    wt = f"/tmp/wt/{wid}"
    env = f"export CARGO_TARGET_DIR={wt}/target CARGO_NET_OFFLINE=true; "
    patch = open(f"{wt}/patch.diff").read()
    demo = [f for f in os.listdir(f"{wt}/rasn-compiler-tests/tests") if f.startswith("demo_")]
    assert demo, "no demo"
    demo_name = demo[0][:-3]
    rec = {"worktree": wid, "properties": props}
    d = f"{V}/seeded/{wid}"
    try: rec.update(json.load(open(f"{d}/meta.json")).get("confirmed", {}))
    except Exception: pass
    if not checks_only:
        confirm(wt, env, demo_name, rec)
    if not confirm_only:
        run_checks(wt, props, rec)
    store(wt, d, demo, demo_name, rec)
def confirm(wt, env, demo_name, rec):
    # 1a. suite with change: everything but the demo passes
    r = sh(env + "cargo test --workspace --no-fail-fast --offline 2>&1 | grep -E '^test result|Running|FAILED' ", cwd=wt)
    lines = r.stdout.splitlines()
    failed_targets = []
    cur = None
    for l in lines:
        if "Running" in l: cur = l
        if l.startswith("test result: FAILED"): failed_targets.append(cur)
    rec["suite_with_change_failed_targets"] = failed_targets
    suite_ok = all(demo_name in (t or "") for t in failed_targets)
    rec["suite_passes_with_change"] = suite_ok
    rec["demo_fails_with_change"] = any(demo_name in (t or "") for t in failed_targets)
    # 1b. demo without change
    sh("git apply -R patch.diff", cwd=wt)
    r = sh(env + f"cargo test --offline -p rasn-compiler-tests --test {demo_name} 2>&1 | grep -E '^test result'", cwd=wt)
    rec["demo_passes_without_change"] = "test result: ok" in r.stdout
    sh("git apply patch.diff", cwd=wt)
def run_checks(wt, props, rec):
    # 2. our checks
    if REPO == "/repo":
        assert sh("git -C /repo status --porcelain --untracked-files=no").stdout.strip() == "", "repo dirty"
    a = sh(f"git apply {wt}/patch.diff", cwd=REPO)
    rec["applies_to_repo"] = a.returncode == 0
    try:
        for p in props:
            r = sh(f"./check {p} --tier quick", cwd=V)
            vio = [l for l in r.stdout.splitlines() if l.startswith("VIOLATION")]
            keys = [l.strip() for l in r.stdout.splitlines() if l.strip().startswith("key:")][:5]
            rec[p] = {"exit": r.returncode, "violations": len(vio), "first_keys": keys}
    finally:
        sh(f"git apply -R {wt}/patch.diff", cwd=REPO)
def store(wt, d, demo, demo_name, rec):
    # 3. store
    os.makedirs(d, exist_ok=True)
    shutil.copy(f"{wt}/patch.diff", d)
    shutil.copy(f"{wt}/rasn-compiler-tests/tests/{demo[0]}", d)
    meta = {}
    try: meta = json.load(open(f"{wt}/meta.json"))
    except Exception as e: meta = {"note": f"agent meta unreadable: {e}"}
    meta["confirmed"] = rec
    meta["ran"] = ["cargo test --workspace --no-fail-fast --offline (in the scratch worktree, change applied)", f"cargo test -p rasn-compiler-tests --test {demo_name} (change reverted)", "git -C /repo apply patch.diff; ./check <ID> --tier quick; git -C /repo checkout -- ."]
    json.dump(meta, open(f"{d}/meta.json", "w"), indent=1)
    print(json.dumps(rec, indent=1))
main()
