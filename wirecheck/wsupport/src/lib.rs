//! helpers shared by the generated wire tests: every test runs on the real rasn DER codec
use std::panic::{catch_unwind, AssertUnwindSafe};

pub fn hex(b: &[u8]) -> String {
    b.iter().map(|x| format!("{x:02x}")).collect()
}

/// decode the reference encoding with the generated type, encode the decoded value again
/// result: "ok" | "reenc:<hex>" | "decerr:<msg>" | "encerr:<msg>"
pub fn roundtrip<T: rasn::Decode + rasn::Encode>(bytes: &[u8]) -> String {
    match rasn::der::decode::<T>(bytes) {
        Err(e) => format!("decerr:{}", short(&e.to_string())),
        Ok(v) => match rasn::der::encode(&v) {
            Err(e) => format!("encerr:{}", short(&e.to_string())),
            Ok(b) if b == bytes => "ok".to_string(),
            Ok(b) => format!("reenc:{}", hex(&b)),
        },
    }
}

/// DER encoding of a value of a generated type: "hex:<hex>" | "encerr:<msg>"
pub fn enc<T: rasn::Encode>(v: &T) -> String {
    match rasn::der::encode(v) {
        Ok(b) => format!("hex:{}", hex(&b)),
        Err(e) => format!("encerr:{}", short(&e.to_string())),
    }
}

fn short(s: &str) -> String {
    s.chars().filter(|c| *c != '\n' && *c != '\t').take(160).collect()
}

/// run one generated test; a panic inside rasn or the bindings becomes a result, not a dead process
pub fn guarded(f: impl FnOnce() -> String) -> String {
    match catch_unwind(AssertUnwindSafe(f)) {
        Ok(s) => s,
        Err(p) => {
            let m = p.downcast_ref::<String>().cloned().or_else(|| p.downcast_ref::<&str>().map(|s| s.to_string())).unwrap_or_default();
            format!("panic:{}", short(&m))
        }
    }
}
