// runs every wire test compiled into the w?? crates and prints "<case index>\t<result>" per line
fn main() {
    let mut out: Vec<(usize, String)> = vec![];
    w00::run(&mut out);
    w01::run(&mut out);
    w02::run(&mut out);
    w03::run(&mut out);
    w04::run(&mut out);
    w05::run(&mut out);
    w06::run(&mut out);
    w07::run(&mut out);
    w08::run(&mut out);
    w09::run(&mut out);
    w10::run(&mut out);
    w11::run(&mut out);
    w12::run(&mut out);
    w13::run(&mut out);
    w14::run(&mut out);
    w15::run(&mut out);
    for (i, r) in out {
        println!("{i}\t{}", r.replace('\n', " "));
    }
}
