//! Thin, panic-safe wrappers around the real compiler (`/repo/rasn-compiler`, path dependency).
use rasn_compiler::prelude::*;
use serde::{Deserialize, Serialize};
use std::cell::RefCell;
use std::panic::{catch_unwind, AssertUnwindSafe};
use std::sync::Once;

#[derive(Clone, Debug, Serialize, Deserialize, PartialEq, Eq, Hash, Default)]
pub struct Cfg {
    #[serde(default)]
    pub non_opaque_open_types: bool,
    #[serde(default)]
    pub wildcard: bool,
    #[serde(default)]
    pub from_impls: bool,
    #[serde(default)]
    pub no_std: bool,
    #[serde(default)]
    pub custom_imports: Vec<String>,
    #[serde(default)]
    pub type_annotations: Option<Vec<String>>,
}

impl Cfg {
    pub fn to_rasn(&self) -> RasnConfig {
        let mut c = RasnConfig::default();
        c.opaque_open_types = !self.non_opaque_open_types;
        c.default_wildcard_imports = self.wildcard;
        c.generate_from_impls = self.from_impls;
        c.no_std_compliant_bindings = self.no_std;
        c.custom_imports = self.custom_imports.clone();
        if let Some(t) = &self.type_annotations {
            c.type_annotations = t.clone();
        }
        c
    }
    pub fn label(&self) -> String {
        let mut s = String::new();
        if self.non_opaque_open_types {
            s += "O";
        }
        if self.wildcard {
            s += "W";
        }
        if self.from_impls {
            s += "F";
        }
        if self.no_std {
            s += "N";
        }
        s += &format!("i{}", self.custom_imports.len());
        match &self.type_annotations {
            None => s += "a-",
            Some(v) => s += &format!("a{}", v.len()),
        }
        s
    }
}

#[derive(Clone, Debug, Serialize, Deserialize, PartialEq)]
pub struct ErrInfo {
    pub variant: String, // Lexer / Grammar / Linker / Generator
    pub display: String,
    pub contextualized: Vec<String>, // one per source
    pub report: Option<Report>,
}

#[derive(Clone, Debug, Serialize, Deserialize, PartialEq)]
pub struct Report {
    pub src_file: Option<String>,
    pub context_start_line: usize,
    pub context_start_offset: usize,
    pub line: usize,
    pub offset: usize,
    pub column: usize,
    pub reason: String,
    pub unexpected_eof: bool,
}

#[derive(Clone, Debug, Serialize, Deserialize, PartialEq)]
pub enum Outcome {
    Ok { generated: String, warnings: Vec<String> },
    Err(ErrInfo),
    Panic { message: String, location: String },
}

impl Outcome {
    pub fn class(&self) -> &'static str {
        match self {
            Outcome::Ok { warnings, .. } if warnings.is_empty() => "ok",
            Outcome::Ok { .. } => "ok+warn",
            Outcome::Err(_) => "err",
            Outcome::Panic { .. } => "panic",
        }
    }
    pub fn ok_clean(&self) -> Option<&str> {
        match self {
            Outcome::Ok { generated, warnings } if warnings.is_empty() => Some(generated),
            _ => None,
        }
    }
    pub fn ok_any(&self) -> Option<(&str, &Vec<String>)> {
        match self {
            Outcome::Ok { generated, warnings } => Some((generated, warnings)),
            _ => None,
        }
    }
    pub fn brief(&self) -> String {
        match self {
            Outcome::Ok { warnings, .. } => format!("Ok({} warnings: {:?})", warnings.len(), warnings),
            Outcome::Err(e) => format!("Err({}: {})", e.variant, e.display),
            Outcome::Panic { message, location } => format!("PANIC at {location}: {message}"),
        }
    }
}

thread_local! {
    static LAST_PANIC: RefCell<Option<(String, String)>> = const { RefCell::new(None) };
    static IN_GUARD: std::cell::Cell<u32> = const { std::cell::Cell::new(0) };
}
static HOOK: Once = Once::new();

pub fn install_panic_hook() {
    HOOK.call_once(|| {
        std::panic::set_hook(Box::new(|info| {
            let loc = info
                .location()
                .map(|l| format!("{}:{}", l.file(), l.line()))
                .unwrap_or_default();
            let msg = if let Some(s) = info.payload().downcast_ref::<&str>() {
                s.to_string()
            } else if let Some(s) = info.payload().downcast_ref::<String>() {
                s.clone()
            } else {
                "<non-string panic payload>".into()
            };
            if IN_GUARD.with(|g| g.get()) == 0 {
                eprintln!("MACHINERY: harness panic at {loc}: {msg}");
            }
            LAST_PANIC.with(|p| *p.borrow_mut() = Some((msg, loc)));
        }));
    });
}

pub fn guarded<T>(f: impl FnOnce() -> T) -> Result<T, (String, String)> {
    install_panic_hook();
    LAST_PANIC.with(|p| *p.borrow_mut() = None);
    IN_GUARD.with(|g| g.set(g.get() + 1));
    let r = catch_unwind(AssertUnwindSafe(f));
    IN_GUARD.with(|g| g.set(g.get() - 1));
    match r {
        Ok(v) => Ok(v),
        Err(_) => Err(LAST_PANIC
            .with(|p| p.borrow_mut().take())
            .unwrap_or(("<unknown>".into(), String::new()))),
    }
}

pub fn err_info(e: &CompilerError, sources: &[String]) -> ErrInfo {
    let variant = match e {
        CompilerError::Lexer(_) => "Lexer",
        CompilerError::Grammar(_) => "Grammar",
        CompilerError::Linker(_) => "Linker",
        CompilerError::Generator(_) => "Generator",
    }
    .to_string();
    let report = match e {
        CompilerError::Lexer(LexerError {
            kind: LexerErrorType::MatchingError(r),
        }) => Some(Report {
            src_file: r.src_file.clone(),
            context_start_line: r.context_start_line,
            context_start_offset: r.context_start_offset,
            line: r.line,
            offset: r.offset,
            column: r.column,
            reason: r.reason.clone(),
            unexpected_eof: r.unexpected_eof,
        }),
        _ => None,
    };
    ErrInfo {
        variant,
        display: e.to_string(),
        contextualized: sources.iter().map(|s| e.contextualize(s)).collect(),
        report,
    }
}

fn finish(r: Result<CompileResult, CompilerError>, sources: &[String]) -> Outcome {
    match r {
        Ok(r) => {
            // render every warning both ways: totality of rendering is part of C08
            let mut ws = Vec::new();
            for w in &r.warnings {
                ws.push(w.to_string());
                for s in sources {
                    let _ = w.contextualize(s);
                }
            }
            Outcome::Ok {
                generated: r.generated,
                warnings: ws,
            }
        }
        Err(e) => Outcome::Err(err_info(&e, sources)),
    }
}

/// Compile literal sources with the rasn backend.
pub fn compile_rasn(sources: &[String], cfg: &Cfg) -> Outcome {
    let r = guarded(|| {
        let mut it = sources.iter();
        let first = it.next().cloned().unwrap_or_default();
        let mut c = Compiler::<RasnBackend, _>::new_with_config(cfg.to_rasn()).add_asn_literal(first);
        for s in it {
            c = c.add_asn_literal(s.clone());
        }
        finish(c.compile_to_string(), sources)
    });
    match r {
        Ok(o) => o,
        Err((message, location)) => Outcome::Panic { message, location },
    }
}

pub fn compile_ts(sources: &[String]) -> Outcome {
    let r = guarded(|| {
        let mut it = sources.iter();
        let first = it.next().cloned().unwrap_or_default();
        let mut c = Compiler::<TypescriptBackend, _>::new().add_asn_literal(first);
        for s in it {
            c = c.add_asn_literal(s.clone());
        }
        finish(c.compile_to_string(), sources)
    });
    match r {
        Ok(o) => o,
        Err((message, location)) => Outcome::Panic { message, location },
    }
}

pub fn compile1(src: &str) -> Outcome {
    compile_rasn(&[src.to_string()], &Cfg::default())
}

/// FNV-1a 64 — stable across processes (no RandomState), used for state hashing.
/// the compiler's source tree (the harness itself is linked against it through the path dependency of
/// harness/Cargo.toml; this is only used to locate test modules, sources to scan and the CLI package)
pub fn repo_dir() -> String {
    std::env::var("VERIF_REPO").unwrap_or_else(|_| "/repo".into())
}

pub fn fnv(s: &str) -> u64 {
    let mut h: u64 = 0xcbf29ce484222325;
    for b in s.as_bytes() {
        h ^= *b as u64;
        h = h.wrapping_mul(0x100000001b3);
    }
    h
}

pub fn strip_ws(s: &str) -> String {
    s.chars().filter(|c| !c.is_whitespace()).collect()
}

pub fn header(name: &str, tagdef: &str, ext_implied: bool) -> String {
    // tagdef: "" | "EXPLICIT" | "IMPLICIT" | "AUTOMATIC"
    let mut h = format!("{name} DEFINITIONS");
    if !tagdef.is_empty() {
        h += &format!(" {tagdef} TAGS");
    }
    if ext_implied {
        h += " EXTENSIBILITY IMPLIED";
    }
    h += " ::= BEGIN\n";
    h
}

pub fn module(name: &str, tagdef: &str, ext_implied: bool, body: &str) -> String {
    format!("{}{}\nEND\n", header(name, tagdef, ext_implied), body)
}

/// strip whitespace outside string/char literals
pub fn strip_ws_keep_strings(s: &str) -> String {
    let cs: Vec<char> = s.chars().collect();
    let mut out = String::with_capacity(s.len());
    let mut i = 0;
    while i < cs.len() {
        let c = cs[i];
        if c == '"' {
            out.push(c);
            i += 1;
            while i < cs.len() {
                out.push(cs[i]);
                if cs[i] == '\\' && i + 1 < cs.len() {
                    out.push(cs[i + 1]);
                    i += 2;
                    continue;
                }
                if cs[i] == '"' {
                    i += 1;
                    break;
                }
                i += 1;
            }
        } else if c == '\'' && i + 2 < cs.len() && cs[i + 2] == '\'' && cs[i + 1] != '\\' {
            out.push(c);
            out.push(cs[i + 1]);
            out.push(cs[i + 2]);
            i += 3;
        } else {
            if !c.is_whitespace() {
                out.push(c);
            }
            i += 1;
        }
    }
    out
}
