//! Projection of generated Rust text into a structure the oracles compare against (DESIGN §2.3).
use quote::ToTokens;
use serde::{Deserialize, Serialize};
use std::collections::BTreeMap;

#[derive(Clone, Debug, Default, Serialize, Deserialize, PartialEq)]
pub struct RasnAttr {
    /// entries in order: (key, value) where value is whitespace-free token text ("" for bare flags)
    pub entries: Vec<(String, String)>,
}
impl RasnAttr {
    pub fn get(&self, k: &str) -> Option<&str> {
        self.entries.iter().find(|(a, _)| a == k).map(|(_, v)| v.as_str())
    }
    pub fn has(&self, k: &str) -> bool {
        self.get(k).is_some()
    }
    pub fn count(&self, k: &str) -> usize {
        self.entries.iter().filter(|(a, _)| a == k).count()
    }
    /// string-literal value with quotes removed and rust escapes resolved
    pub fn lit(&self, k: &str) -> Option<String> {
        self.get(k).and_then(unquote)
    }
}

pub fn unquote(s: &str) -> Option<String> {
    let l: syn::LitStr = syn::parse_str(s).ok()?;
    Some(l.value())
}

#[derive(Clone, Debug, Default, Serialize, Deserialize, PartialEq)]
pub struct Attrs {
    pub rasn: RasnAttr,
    pub derives: Vec<String>,
    pub non_exhaustive: bool,
    pub docs: Vec<String>,
    pub other: Vec<String>,
}

#[derive(Clone, Debug, Serialize, Deserialize, PartialEq)]
pub struct Field {
    pub name: String,
    pub ty: String,
    pub attrs: Attrs,
}

#[derive(Clone, Debug, Serialize, Deserialize, PartialEq)]
pub struct Variant {
    pub name: String,
    pub payload: Option<String>,
    pub disc: Option<String>,
    pub attrs: Attrs,
}

#[derive(Clone, Debug, Serialize, Deserialize, PartialEq)]
pub enum Item {
    Struct { name: String, attrs: Attrs, fields: Vec<Field>, tuple: Option<Vec<String>> },
    Enum { name: String, attrs: Attrs, variants: Vec<Variant> },
    Const { name: String, ty: String, init: String },
    Static { name: String, ty: String, init: String, lazy: String },
    Fn { name: String, ret: String, body: String, sig: String },
    Impl { self_ty: String, trait_: Option<String>, text: String },
    Use { text: String },
    Other { text: String },
}

impl Item {
    pub fn name(&self) -> String {
        match self {
            Item::Struct { name, .. } | Item::Enum { name, .. } | Item::Const { name, .. } | Item::Static { name, .. } | Item::Fn { name, .. } => name.clone(),
            Item::Impl { self_ty, trait_, .. } => format!("impl {} for {}", trait_.clone().unwrap_or_default(), self_ty),
            Item::Use { text } | Item::Other { text } => text.clone(),
        }
    }
    pub fn kind(&self) -> &'static str {
        match self {
            Item::Struct { .. } => "struct",
            Item::Enum { .. } => "enum",
            Item::Const { .. } => "const",
            Item::Static { .. } => "static",
            Item::Fn { .. } => "fn",
            Item::Impl { .. } => "impl",
            Item::Use { .. } => "use",
            Item::Other { .. } => "other",
        }
    }
    pub fn attrs(&self) -> Option<&Attrs> {
        match self {
            Item::Struct { attrs, .. } | Item::Enum { attrs, .. } => Some(attrs),
            _ => None,
        }
    }
}

#[derive(Clone, Debug, Default, Serialize, Deserialize, PartialEq)]
pub struct ModProj {
    pub name: String,
    pub items: Vec<Item>,
}

impl ModProj {
    pub fn find(&self, name: &str) -> Option<&Item> {
        self.items.iter().find(|i| match i {
            Item::Struct { name: n, .. } | Item::Enum { name: n, .. } | Item::Const { name: n, .. } | Item::Static { name: n, .. } | Item::Fn { name: n, .. } => n == name,
            _ => false,
        })
    }
    pub fn uses(&self) -> Vec<String> {
        self.items.iter().filter_map(|i| if let Item::Use { text } = i { Some(text.clone()) } else { None }).collect()
    }
    pub fn types(&self) -> Vec<&Item> {
        self.items.iter().filter(|i| matches!(i, Item::Struct { .. } | Item::Enum { .. })).collect()
    }
    /// items with docs removed (C13 compares modulo doc comments)
    pub fn without_docs(&self) -> ModProj {
        let mut m = self.clone();
        for it in m.items.iter_mut() {
            match it {
                Item::Struct { attrs, fields, .. } => {
                    attrs.docs.clear();
                    for f in fields {
                        f.attrs.docs.clear();
                    }
                }
                Item::Enum { attrs, variants, .. } => {
                    attrs.docs.clear();
                    for v in variants {
                        v.attrs.docs.clear();
                    }
                }
                _ => {}
            }
        }
        m
    }
}

#[derive(Clone, Debug, Default, Serialize, Deserialize, PartialEq)]
pub struct Proj {
    pub modules: Vec<ModProj>,
    pub stray: Vec<String>,
}

impl Proj {
    pub fn module(&self, name: &str) -> Option<&ModProj> {
        self.modules.iter().find(|m| m.name == name)
    }
    pub fn only(&self) -> Option<&ModProj> {
        if self.modules.len() == 1 {
            self.modules.first()
        } else {
            None
        }
    }
    pub fn without_docs(&self) -> Proj {
        Proj { modules: self.modules.iter().map(|m| m.without_docs()).collect(), stray: self.stray.clone() }
    }
}

pub fn ts(t: impl ToTokens) -> String {
    crate::common::strip_ws_keep_strings(&t.to_token_stream().to_string())
}

fn split_top(tokens: proc_macro2::TokenStream) -> Vec<proc_macro2::TokenStream> {
    let mut out = vec![];
    let mut cur = proc_macro2::TokenStream::new();
    for t in tokens {
        if let proc_macro2::TokenTree::Punct(p) = &t {
            if p.as_char() == ',' {
                out.push(std::mem::take(&mut cur));
                continue;
            }
        }
        cur.extend(std::iter::once(t));
    }
    if !cur.is_empty() {
        out.push(cur);
    }
    out
}

fn parse_rasn_entries(tokens: proc_macro2::TokenStream, out: &mut RasnAttr) {
    for e in split_top(tokens) {
        let mut it = e.into_iter();
        let key = match it.next() {
            Some(k) => k.to_string(),
            None => continue,
        };
        let rest: Vec<proc_macro2::TokenTree> = it.collect();
        let val = if rest.is_empty() {
            String::new()
        } else {
            // either `= lit` or `( ... )`
            let mut s = String::new();
            let mut rest = rest.into_iter().peekable();
            if let Some(proc_macro2::TokenTree::Punct(p)) = rest.peek() {
                if p.as_char() == '=' {
                    rest.next();
                }
            }
            for t in rest {
                match t {
                    proc_macro2::TokenTree::Group(g) if g.delimiter() == proc_macro2::Delimiter::Parenthesis && s.is_empty() => {
                        s += &crate::common::strip_ws_keep_strings(&g.stream().to_string());
                    }
                    other => s += &crate::common::strip_ws_keep_strings(&other.to_string()),
                }
            }
            s
        };
        out.entries.push((key, val));
    }
}

pub fn parse_attrs(attrs: &[syn::Attribute]) -> Attrs {
    let mut a = Attrs::default();
    for at in attrs {
        let path = ts(at.path());
        match path.as_str() {
            "rasn" => {
                if let syn::Meta::List(l) = &at.meta {
                    parse_rasn_entries(l.tokens.clone(), &mut a.rasn);
                }
            }
            "derive" => {
                if let syn::Meta::List(l) = &at.meta {
                    for d in split_top(l.tokens.clone()) {
                        a.derives.push(ts(d));
                    }
                }
            }
            "non_exhaustive" => a.non_exhaustive = true,
            "doc" => {
                if let syn::Meta::NameValue(nv) = &at.meta {
                    a.docs.push(ts(&nv.value));
                }
            }
            _ => a.other.push(ts(at)),
        }
    }
    a
}

/// every type, field, constant and static of the bindings is meant to be used from outside the module: an item
/// that is not `pub` is recorded as an extra marker item, which the comparators report as a difference / extra item
fn not_pub(vis: &syn::Visibility, what: &str, out: &mut Vec<Item>) {
    if !matches!(vis, syn::Visibility::Public(_)) {
        out.push(Item::Other { text: format!("NOT-PUB {what}") });
    }
}

fn conv_item(it: &syn::Item, out: &mut Vec<Item>) {
    match it {
        syn::Item::Struct(s) => {
            let attrs = parse_attrs(&s.attrs);
            let (fields, tuple) = match &s.fields {
                syn::Fields::Named(n) => (
                    n.named
                        .iter()
                        .map(|f| Field { name: f.ident.as_ref().unwrap().to_string(), ty: ts(&f.ty), attrs: parse_attrs(&f.attrs) })
                        .collect(),
                    None,
                ),
                syn::Fields::Unnamed(u) => (vec![], Some(u.unnamed.iter().map(|f| ts(&f.ty)).collect())),
                syn::Fields::Unit => (vec![], Some(vec![])),
            };
            not_pub(&s.vis, &format!("struct {}", s.ident), out);
            for f in s.fields.iter() {
                not_pub(&f.vis, &format!("field {}.{}", s.ident, f.ident.as_ref().map(|i| i.to_string()).unwrap_or_else(|| "0".into())), out);
            }
            out.push(Item::Struct { name: s.ident.to_string(), attrs, fields, tuple });
        }
        syn::Item::Enum(e) => {
            let attrs = parse_attrs(&e.attrs);
            let variants = e
                .variants
                .iter()
                .map(|v| Variant {
                    name: v.ident.to_string(),
                    payload: match &v.fields {
                        syn::Fields::Unnamed(u) => Some(u.unnamed.iter().map(|f| ts(&f.ty)).collect::<Vec<_>>().join(",")),
                        syn::Fields::Named(n) => Some(ts(n)),
                        syn::Fields::Unit => None,
                    },
                    disc: v.discriminant.as_ref().map(|(_, e)| ts(e)),
                    attrs: parse_attrs(&v.attrs),
                })
                .collect();
            not_pub(&e.vis, &format!("enum {}", e.ident), out);
            out.push(Item::Enum { name: e.ident.to_string(), attrs, variants });
        }
        syn::Item::Const(c) => {
            not_pub(&c.vis, &format!("const {}", c.ident), out);
            out.push(Item::Const { name: c.ident.to_string(), ty: ts(&c.ty), init: ts(&c.expr) })
        }
        syn::Item::Static(s) => {
            // static X: LazyLock<T> = LazyLock::new(|| v);
            let ty = ts(&s.ty);
            let init = ts(&s.expr);
            let (ty2, init2, lazy) = if let (Some(t), Some(i)) = (ty.strip_prefix("LazyLock<").and_then(|t| t.strip_suffix('>')), init.strip_prefix("LazyLock::new(||").and_then(|t| t.strip_suffix(')'))) {
                (t.to_string(), i.to_string(), "LazyLock".to_string())
            } else {
                (ty, init, "plain".to_string())
            };
            not_pub(&s.vis, &format!("static {}", s.ident), out);
            out.push(Item::Static { name: s.ident.to_string(), ty: ty2, init: init2, lazy });
        }
        syn::Item::Fn(f) => out.push(Item::Fn {
            name: f.sig.ident.to_string(),
            ret: match &f.sig.output {
                syn::ReturnType::Default => "()".into(),
                syn::ReturnType::Type(_, t) => ts(t),
            },
            body: {
                let b = ts(&f.block);
                b.strip_prefix('{').and_then(|b| b.strip_suffix('}')).unwrap_or(&b).to_string()
            },
            sig: ts(&f.sig),
        }),
        syn::Item::Impl(i) => out.push(Item::Impl { self_ty: ts(&i.self_ty), trait_: i.trait_.as_ref().map(|(_, p, _)| ts(p)), text: ts(i) }),
        syn::Item::Use(u) => out.push(Item::Use { text: ts(&u.tree) }),
        syn::Item::Macro(m) if ts(&m.mac.path) == "lazy_static" => {
            // lazy_static! { #[doc..] pub static ref X: T = v; }
            #[allow(dead_code)]
            struct Ls(Vec<(String, String, String, bool)>);
            impl syn::parse::Parse for Ls {
                fn parse(input: syn::parse::ParseStream) -> syn::Result<Self> {
                    let mut v = vec![];
                    while !input.is_empty() {
                        let _ = input.call(syn::Attribute::parse_outer)?;
                        let vis: syn::Visibility = input.parse()?;
                        let _: syn::Token![static] = input.parse()?;
                        let _: syn::Token![ref] = input.parse()?;
                        let id: syn::Ident = input.parse()?;
                        let _: syn::Token![:] = input.parse()?;
                        let ty: syn::Type = input.parse()?;
                        let _: syn::Token![=] = input.parse()?;
                        let e: syn::Expr = input.parse()?;
                        let _: syn::Token![;] = input.parse()?;
                        v.push((id.to_string(), ts(&ty), ts(&e), matches!(vis, syn::Visibility::Public(_))));
                    }
                    Ok(Ls(v))
                }
            }
            match syn::parse2::<Ls>(m.mac.tokens.clone()) {
                Ok(Ls(v)) => {
                    for (name, ty, init, is_pub) in v {
                        if !is_pub {
                            out.push(Item::Other { text: format!("NOT-PUB static {name}") });
                        }
                        out.push(Item::Static { name, ty, init, lazy: "lazy_static".into() });
                    }
                }
                Err(_) => out.push(Item::Other { text: ts(m) }),
            }
        }
        syn::Item::ExternCrate(e) => out.push(Item::Other { text: ts(e) }),
        other => out.push(Item::Other { text: ts(other) }),
    }
}

pub fn project(generated: &str) -> Result<Proj, String> {
    let f = syn::parse_file(generated).map_err(|e| format!("syn: {e}"))?;
    let mut p = Proj::default();
    for it in &f.items {
        match it {
            syn::Item::Mod(m) => {
                let mut mp = ModProj { name: m.ident.to_string(), items: vec![] };
                if let Some((_, items)) = &m.content {
                    for i in items {
                        conv_item(i, &mut mp.items);
                    }
                }
                p.modules.push(mp);
            }
            other => p.stray.push(ts(other)),
        }
    }
    Ok(p)
}

/// All identifiers occurring anywhere in the generated text (for C16)
pub fn all_idents(generated: &str) -> Result<Vec<String>, String> {
    let t: proc_macro2::TokenStream = generated.parse().map_err(|e| format!("lex: {e}"))?;
    let mut v = vec![];
    fn walk(t: proc_macro2::TokenStream, v: &mut Vec<String>) {
        for tt in t {
            match tt {
                proc_macro2::TokenTree::Ident(i) => v.push(i.to_string()),
                proc_macro2::TokenTree::Group(g) => walk(g.stream(), v),
                _ => {}
            }
        }
    }
    walk(t, &mut v);
    Ok(v)
}

pub fn by_name(m: &ModProj) -> BTreeMap<String, &Item> {
    m.items.iter().map(|i| (format!("{}:{}", i.kind(), i.name()), i)).collect()
}
