mod common;
mod driver;
mod hooks;
mod model;
mod proj;
mod tokens;
mod wire;
mod worker;
mod props;

use driver::{Opts, Tier};

fn usage() -> ! {
    eprintln!("usage: vharness <C01..C20> [--tier quick|thorough] [--replay file] [--seed n] | vharness probe <file> [--ts]");
    std::process::exit(2)
}

fn probe(args: &[String]) {
    let src = std::fs::read_to_string(&args[0]).unwrap();
    let ts = args.iter().any(|a| a == "--ts");
    let o = if ts { common::compile_ts(&[src.clone()]) } else { common::compile_rasn(&[src.clone()], &common::Cfg::default()) };
    match &o {
        common::Outcome::Ok { generated, warnings } => {
            println!("OK\n{generated}");
            for w in warnings {
                println!("WARN: {w}");
            }
            if !ts && args.iter().any(|a| a == "--proj") {
                println!("{:#?}", proj::project(generated));
            }
        }
        common::Outcome::Err(e) => {
            println!("ERR {}: {}\nreport: {:?}\n{}", e.variant, e.display, e.report, e.contextualized.join("\n"));
        }
        other => println!("{}", other.brief()),
    }
}

fn main() {
    let args: Vec<String> = std::env::args().skip(1).collect();
    if args.is_empty() {
        usage();
    }
    if args[0] == "worker" {
        worker::worker_main();
        return;
    }
    if args[0] == "c20op" {
        props::c20::child_main(&args[1]);
        return;
    }
    if args[0] == "setup" {
        println!("vharness built; nothing else to set up");
        return;
    }
    if args[0] == "probe" {
        probe(&args[1..]);
        return;
    }
    let id = args[0].to_uppercase();
    let mut tier = match std::env::var("VERIF_TIER").ok().as_deref() {
        Some("thorough") => Tier::Thorough,
        _ => Tier::Quick,
    };
    let mut seed: u64 = std::env::var("VERIF_SEED").ok().and_then(|s| s.parse().ok()).unwrap_or(0);
    let mut replay = None;
    let mut max_cases = None;
    let mut i = 1;
    while i < args.len() {
        match args[i].as_str() {
            "--tier" => {
                i += 1;
                tier = match args.get(i).map(|s| s.as_str()) {
                    Some("thorough") => Tier::Thorough,
                    Some("quick") => Tier::Quick,
                    _ => usage(),
                }
            }
            "--seed" => {
                i += 1;
                seed = args.get(i).and_then(|s| s.parse().ok()).unwrap_or(0);
            }
            "--replay" => {
                i += 1;
                replay = args.get(i).cloned();
            }
            "--max-cases" => {
                i += 1;
                max_cases = args.get(i).and_then(|s| s.parse().ok());
            }
            _ => usage(),
        }
        i += 1;
    }
    let verif_dir = std::env::var("VERIF_DIR").unwrap_or_else(|_| "/verif".into());
    let opts = Opts { tier, seed, replay, verif_dir, max_cases };
    // generous stacks: the subject is recursive-descent
    rayon::ThreadPoolBuilder::new().stack_size(256 << 20).build_global().unwrap();
    let code = std::thread::Builder::new()
        .stack_size(256 << 20)
        .spawn(move || match props::dispatch(&id, &opts) {
            Some(c) => c,
            None => {
                eprintln!("unknown property {id}");
                2
            }
        })
        .unwrap()
        .join()
        .unwrap_or(2);
    std::process::exit(code);
}
