//! Wire judge: generated bindings are compiled together with small test functions into the `wirecheck`
//! workspace and *executed* on rasn's DER codec.  Used where a property is about what the bindings do on
//! the wire (C03: tags, C07: values) in addition to the attribute-level / symbolic comparison.
//!
//! A case = generated text + the body of `fn wire_test() -> String`.  Cases that do not compile are
//! reported as such (and removed, the rest is rebuilt) — compile errors are C01's subject, not ours.
use std::collections::HashMap;
use std::process::{Command, Stdio};

pub struct WireCase {
    pub idx: usize,
    pub generated: String,
    /// Rust statements evaluating to a `String`; may use `wsupport::{roundtrip, enc, hex}` and the generated `m::` items
    pub test_body: String,
}

#[derive(Debug, Clone)]
pub enum WireOutcome {
    Ran(String),
    CompileError(String),
}

fn verif_dir() -> String {
    std::env::var("VERIF_DIR").unwrap_or_else(|_| "/verif".into())
}

const NCRATES: usize = 16;

fn write_crates(root: &str, cases: &[&WireCase]) -> Result<(), String> {
    let mut libs: Vec<String> = vec![String::from("#![allow(warnings)]\n"); NCRATES];
    let mut runs: Vec<String> = vec![String::new(); NCRATES];
    for k in 0..NCRATES {
        let d = format!("{root}/w{k:02}/src");
        std::fs::create_dir_all(&d).map_err(|e| e.to_string())?;
        if let Ok(rd) = std::fs::read_dir(&d) {
            for e in rd.flatten() {
                let n = e.file_name().to_string_lossy().to_string();
                if n.starts_with('c') && n.ends_with(".rs") {
                    let _ = std::fs::remove_file(e.path());
                }
            }
        }
    }
    for (j, c) in cases.iter().enumerate() {
        let k = j % NCRATES;
        let text = format!("{}\npub fn wire_test() -> String {{\n{}\n}}\n", c.generated, c.test_body);
        std::fs::write(format!("{root}/w{k:02}/src/c{}.rs", c.idx), text).map_err(|e| e.to_string())?;
        libs[k] += &format!("pub mod c{};\n", c.idx);
        runs[k] += &format!("    out.push(({}, wsupport::guarded(c{}::wire_test)));\n", c.idx, c.idx);
    }
    for k in 0..NCRATES {
        let lib = format!("{}pub fn run(out: &mut Vec<(usize, String)>) {{\n{}}}\n", libs[k], runs[k]);
        std::fs::write(format!("{root}/w{k:02}/src/lib.rs"), lib).map_err(|e| e.to_string())?;
    }
    Ok(())
}

/// reset the generated crates to empty stubs (a compiling workspace for the next warm-up or run)
pub fn reset() {
    let root = format!("{}/wirecheck", verif_dir());
    let _ = write_crates(&root, &[]);
}

/// the file of a diagnostic span; a span inside a macro (vec!, a derive) is followed to its call site in a case file c<n>.rs
pub fn site(s: &serde_json::Value) -> Option<String> {
    let f = s["file_name"].as_str()?.to_string();
    let ours = f.rsplit('/').next().map_or(false, |n| n.starts_with('c') && n.ends_with(".rs") && n.len() > 4 && n[1..n.len() - 3].chars().all(|c| c.is_ascii_digit()));
    if ours || s["expansion"].is_null() {
        Some(f)
    } else {
        site(&s["expansion"]["span"]).or(Some(f))
    }
}

/// build once; returns per case index the first error attributed to its file
fn build(root: &str) -> Result<HashMap<usize, String>, String> {
    let out = Command::new("cargo")
        .args(["build", "--workspace", "--offline", "--message-format=json", "--keep-going"])
        .current_dir(root)
        .env("CARGO_NET_OFFLINE", "true")
        .stdout(Stdio::piped())
        .stderr(Stdio::piped())
        .output()
        .map_err(|e| format!("cannot run cargo build: {e}"))?;
    let stdout = String::from_utf8_lossy(&out.stdout);
    let mut errs: HashMap<usize, String> = HashMap::new();
    let mut saw_any = false;
    for line in stdout.lines() {
        let v: serde_json::Value = match serde_json::from_str(line) {
            Ok(v) => v,
            Err(_) => continue,
        };
        saw_any = true;
        if v["reason"] != "compiler-message" {
            continue;
        }
        let m = &v["message"];
        if m["level"] != "error" {
            continue;
        }
        let msg = m["message"].as_str().unwrap_or("").to_string();
        if msg.starts_with("aborting due to") || msg.starts_with("could not compile") {
            continue;
        }
        let code = m["code"]["code"].as_str().unwrap_or("-").to_string();
        let mut file = None;
        if let Some(spans) = m["spans"].as_array() {
            for s in spans {
                if s["is_primary"] == true {
                    file = site(s);
                }
            }
            if file.is_none() {
                file = spans.first().and_then(site);
            }
        }
        if let Some(f) = file {
            if let Some(n) = f.rsplit('/').next().and_then(|n| n.strip_prefix('c')).and_then(|n| n.strip_suffix(".rs")).and_then(|n| n.parse::<usize>().ok()) {
                errs.entry(n).or_insert(format!("{code}: {msg}"));
                continue;
            }
        }
        return Err(format!("unattributable rustc error in the wire workspace: {code} {msg} (spans: {})", m["spans"].as_array().map(|a| a.iter().map(|s| format!("{}:{}", s["file_name"].as_str().unwrap_or("?"), s["line_start"])).collect::<Vec<_>>().join(", ")).unwrap_or_default()));
    }
    if !saw_any && !out.status.success() {
        return Err(format!("cargo build failed without diagnostics: {}", String::from_utf8_lossy(&out.stderr).chars().rev().take(600).collect::<String>().chars().rev().collect::<String>()));
    }
    if errs.is_empty() && !out.status.success() {
        return Err(format!("cargo build failed: {}", String::from_utf8_lossy(&out.stderr).chars().rev().take(600).collect::<String>().chars().rev().collect::<String>()));
    }
    Ok(errs)
}

pub fn run_wire(cases: &[WireCase]) -> Result<HashMap<usize, WireOutcome>, String> {
    let root = format!("{}/wirecheck", verif_dir());
    let mut res: HashMap<usize, WireOutcome> = HashMap::new();
    let mut live: Vec<&WireCase> = cases.iter().collect();
    for _pass in 0..8 {
        write_crates(&root, &live)?;
        let errs = build(&root)?;
        if errs.is_empty() {
            // run
            let out = Command::new(format!("{}/target/wirecheck/debug/wrun", verif_dir())).stdout(Stdio::piped()).stderr(Stdio::piped()).output().map_err(|e| format!("cannot run wrun: {e}"))?;
            if !out.status.success() {
                reset();
                return Err(format!("wrun died: {:?} {}", out.status, String::from_utf8_lossy(&out.stderr).chars().take(400).collect::<String>()));
            }
            for l in String::from_utf8_lossy(&out.stdout).lines() {
                if let Some((i, r)) = l.split_once('\t') {
                    if let Ok(i) = i.parse::<usize>() {
                        res.insert(i, WireOutcome::Ran(r.to_string()));
                    }
                }
            }
            reset();
            for c in &live {
                if !res.contains_key(&c.idx) {
                    return Err(format!("wire test {} produced no result", c.idx));
                }
            }
            return Ok(res);
        }
        for (i, e) in &errs {
            res.insert(*i, WireOutcome::CompileError(e.clone()));
        }
        live.retain(|c| !errs.contains_key(&c.idx));
    }
    reset();
    Err("wire workspace still has compile errors after 8 passes".into())
}

// ------------------------------------------------------------------------------------------------ reference DER
/// class: 0 universal, 1 application, 2 context, 3 private
pub fn tlv(class: u8, constructed: bool, num: u32, content: &[u8]) -> Vec<u8> {
    let mut v = vec![];
    let first = (class << 6) | if constructed { 0x20 } else { 0 };
    if num < 31 {
        v.push(first | num as u8);
    } else {
        v.push(first | 31);
        let mut stack = vec![];
        let mut n = num;
        stack.push((n & 0x7f) as u8);
        n >>= 7;
        while n > 0 {
            stack.push(((n & 0x7f) as u8) | 0x80);
            n >>= 7;
        }
        stack.reverse();
        v.extend(stack);
    }
    let len = content.len();
    if len < 128 {
        v.push(len as u8);
    } else {
        let bytes: Vec<u8> = len.to_be_bytes().iter().cloned().skip_while(|b| *b == 0).collect();
        v.push(0x80 | bytes.len() as u8);
        v.extend(bytes);
    }
    v.extend_from_slice(content);
    v
}

/// split a TLV into (class, constructed, number, content, total length)
pub fn parse_tlv(b: &[u8]) -> Option<(u8, bool, u32, &[u8], usize)> {
    let first = *b.first()?;
    let class = first >> 6;
    let constructed = first & 0x20 != 0;
    let mut pos = 1;
    let mut num = (first & 0x1f) as u32;
    if num == 31 {
        num = 0;
        loop {
            let x = *b.get(pos)?;
            pos += 1;
            num = (num << 7) | (x & 0x7f) as u32;
            if x & 0x80 == 0 {
                break;
            }
        }
    }
    let l0 = *b.get(pos)?;
    pos += 1;
    let len = if l0 < 128 {
        l0 as usize
    } else {
        let n = (l0 & 0x7f) as usize;
        let mut l = 0usize;
        for _ in 0..n {
            l = (l << 8) | *b.get(pos)? as usize;
            pos += 1;
        }
        l
    };
    let content = b.get(pos..pos + len)?;
    Some((class, constructed, num, content, pos + len))
}

/// re-tag an encoding implicitly (keeps the constructed bit) or wrap it explicitly
pub fn apply_tag(enc: &[u8], class: u8, num: u32, explicit: bool) -> Vec<u8> {
    if explicit {
        tlv(class, true, num, enc)
    } else {
        let (_, constructed, _, content, _) = parse_tlv(enc).expect("reference encoding is a TLV");
        tlv(class, constructed, num, content)
    }
}

pub fn der_int(v: i128) -> Vec<u8> {
    let mut bytes = v.to_be_bytes().to_vec();
    while bytes.len() > 1 && ((bytes[0] == 0 && bytes[1] & 0x80 == 0) || (bytes[0] == 0xff && bytes[1] & 0x80 != 0)) {
        bytes.remove(0);
    }
    bytes
}

pub fn from_hex(h: &str) -> Option<Vec<u8>> {
    if h.len() % 2 != 0 {
        return None;
    }
    (0..h.len() / 2).map(|i| u8::from_str_radix(&h[2 * i..2 * i + 2], 16).ok()).collect()
}

pub fn to_hex(b: &[u8]) -> String {
    b.iter().map(|x| format!("{x:02x}")).collect()
}

pub fn rust_bytes(b: &[u8]) -> String {
    format!("&[{}]", b.iter().map(|x| format!("{x}u8")).collect::<Vec<_>>().join(", "))
}

pub fn selftest() -> Result<(), String> {
    if tlv(0, false, 2, &[5]) != vec![2, 1, 5] || tlv(2, true, 0, &[1, 1, 0xff]) != vec![0xa0, 3, 1, 1, 0xff] || tlv(1, false, 40, &[]) != vec![0x5f, 40, 0] || tlv(0, true, 16, &vec![0u8; 200])[..3] != [0x30, 0x81, 200] {
        return Err("tlv".into());
    }
    if apply_tag(&[0x30, 3, 1, 1, 0xff], 2, 5, false) != vec![0xa5, 3, 1, 1, 0xff] || apply_tag(&[2, 1, 5], 3, 5, false) != vec![0xc5, 1, 5] || apply_tag(&[2, 1, 5], 2, 1, true) != vec![0xa1, 3, 2, 1, 5] {
        return Err("apply_tag".into());
    }
    if der_int(0) != vec![0] || der_int(127) != vec![127] || der_int(128) != vec![0, 128] || der_int(-128) != vec![0x80] || der_int(-129) != vec![0xff, 0x7f] || der_int(256) != vec![1, 0] {
        return Err("der_int".into());
    }
    let t = tlv(3, true, 1000, &[1, 2, 3]);
    match parse_tlv(&t) {
        Some((3, true, 1000, c, n)) if c == [1, 2, 3] && n == t.len() => {}
        _ => return Err("parse_tlv".into()),
    }
    Ok(())
}
