//! Subprocess isolation for totality checks (C08): a worker process compiles one input at a time; the parent
//! attributes a death (stack overflow → SIGSEGV/SIGABRT, allocation failure) or a watchdog expiry to the single
//! in-flight case and respawns the worker.
use crate::common::*;
use serde::{Deserialize, Serialize};
use std::cell::RefCell;
use std::io::{BufRead, BufReader, Write};
use std::process::{Child, ChildStdin, Command, Stdio};
use std::sync::mpsc::{channel, Receiver};
use std::time::Duration;

#[derive(Serialize, Deserialize)]
pub struct Req {
    pub text: String,
    /// "rasn" | "ts" | "both"
    pub backend: String,
}

#[derive(Serialize, Deserialize, Clone, Debug, PartialEq)]
pub struct Resp {
    /// ok | ok+warn | err | panic
    pub class: String,
    pub panic_location: Option<String>,
    pub panic_message: Option<String>,
    pub which: String,
    /// digest of the observation (generated text + sorted warnings, or the error display) of the last backend run
    #[serde(default)]
    pub digest: String,
}

pub fn digest_of(o: &Outcome) -> String {
    match o {
        Outcome::Ok { generated, warnings } => {
            let mut w = warnings.clone();
            w.sort();
            format!("ok:{:016x}:{}:{:016x}", fnv(generated), generated.len(), fnv(&w.join("\n")))
        }
        Outcome::Err(e) => format!("err:{:016x}", fnv(&e.display)),
        Outcome::Panic { location, .. } => format!("panic:{location}"),
    }
}

#[derive(Clone, Debug, PartialEq)]
pub enum Verdict {
    Done(Resp),
    /// process died: signal or exit code description
    Crashed(String),
    Hang,
}

pub fn worker_main() {
    install_panic_hook();
    // cap the address space: an unbounded allocation is an observation, not a machine-wide OOM
    unsafe {
        let lim = libc::rlimit { rlim_cur: 6 << 30, rlim_max: 6 << 30 };
        libc::setrlimit(libc::RLIMIT_AS, &lim);
    }
    let stdin = std::io::stdin();
    let mut out = std::io::stdout();
    for line in stdin.lock().lines() {
        let line = match line {
            Ok(l) => l,
            Err(_) => break,
        };
        let req: Req = match serde_json::from_str(&line) {
            Ok(r) => r,
            Err(_) => continue,
        };
        // run on a thread with the default main-thread stack size of a build script (8 MiB)
        let handle = std::thread::Builder::new().stack_size(8 << 20).spawn(move || {
            let mut last = Resp { class: "ok".into(), panic_location: None, panic_message: None, which: String::new(), digest: String::new() };
            let backends: Vec<&str> = match req.backend.as_str() {
                "both" => vec!["rasn", "ts"],
                "ts" => vec!["ts"],
                // the rasn backend under every non-default option (each alone, then all together)
                "rasn-allcfg" => vec!["rasn:open-types", "rasn:from-impls", "rasn:no-std", "rasn:wildcard", "rasn:all"],
                _ => vec!["rasn"],
            };
            for b in backends {
                let cfg = match b {
                    "rasn:open-types" => Cfg { non_opaque_open_types: true, ..Cfg::default() },
                    "rasn:from-impls" => Cfg { from_impls: true, ..Cfg::default() },
                    "rasn:no-std" => Cfg { no_std: true, ..Cfg::default() },
                    "rasn:wildcard" => Cfg { wildcard: true, ..Cfg::default() },
                    "rasn:all" => Cfg { non_opaque_open_types: true, from_impls: true, no_std: true, wildcard: true, custom_imports: vec!["core::fmt::Display".into()], type_annotations: Some(vec!["#[derive(Eq, Hash)]".into()]) },
                    _ => Cfg::default(),
                };
                let o = if b == "ts" { compile_ts(&[req.text.clone()]) } else { compile_rasn(&[req.text.clone()], &cfg) };
                // compile_* already rendered Display + contextualize for errors and warnings
                if let Outcome::Panic { message, location } = &o {
                    return Resp { class: "panic".into(), panic_location: Some(location.clone()), panic_message: Some(message.clone()), which: b.into(), digest: digest_of(&o) };
                }
                last = Resp { class: o.class().into(), panic_location: None, panic_message: None, which: b.into(), digest: digest_of(&o) };
            }
            last
        });
        let resp = match handle.map(|h| h.join()) {
            Ok(Ok(r)) => r,
            _ => Resp { class: "panic".into(), panic_location: Some("<thread>".into()), panic_message: Some("worker thread failed".into()), which: String::new(), digest: String::new() },
        };
        let _ = writeln!(out, "{}", serde_json::to_string(&resp).unwrap());
        let _ = out.flush();
    }
}

/// user + system CPU time consumed so far by process `pid` (from /proc/<pid>/stat), in seconds
fn cpu_seconds(pid: u32) -> Option<f64> {
    let stat = std::fs::read_to_string(format!("/proc/{pid}/stat")).ok()?;
    // fields after the parenthesised command name; utime and stime are the 14th and 15th fields overall
    let rest = &stat[stat.rfind(')')? + 2..];
    let f: Vec<&str> = rest.split(' ').collect();
    let ticks: f64 = f.get(11)?.parse::<f64>().ok()? + f.get(12)?.parse::<f64>().ok()?;
    let hz = unsafe { libc::sysconf(libc::_SC_CLK_TCK) } as f64;
    Some(ticks / if hz > 0.0 { hz } else { 100.0 })
}

struct Proc {
    child: Child,
    stdin: ChildStdin,
    rx: Receiver<String>,
}

fn spawn() -> Option<Proc> {
    let exe = std::env::current_exe().ok()?;
    let mut child = Command::new(exe).arg("worker").stdin(Stdio::piped()).stdout(Stdio::piped()).stderr(Stdio::null()).spawn().ok()?;
    let stdin = child.stdin.take()?;
    let stdout = child.stdout.take()?;
    let (tx, rx) = channel();
    std::thread::spawn(move || {
        let r = BufReader::new(stdout);
        for l in r.lines().map_while(Result::ok) {
            if tx.send(l).is_err() {
                break;
            }
        }
    });
    Some(Proc { child, stdin, rx })
}

thread_local! {
    static PROC: RefCell<Option<Proc>> = const { RefCell::new(None) };
}

/// Run one input in this thread's worker process.
pub fn run_isolated(text: &str, backend: &str, timeout: Duration) -> Verdict {
    PROC.with(|cell| {
        let mut slot = cell.borrow_mut();
        if slot.is_none() {
            *slot = spawn();
        }
        let p = match slot.as_mut() {
            Some(p) => p,
            None => return Verdict::Crashed("cannot spawn worker".into()),
        };
        let req = serde_json::to_string(&Req { text: text.to_string(), backend: backend.to_string() }).unwrap();
        let sent = writeln!(p.stdin, "{req}").and_then(|_| p.stdin.flush());
        if sent.is_err() {
            let status = p.child.wait().map(|s| format!("{s}")).unwrap_or_default();
            *slot = None;
            return Verdict::Crashed(format!("worker gone before request: {status}"));
        }
        // the watchdog counts the CPU time the worker spends on this request, not wall time: on a loaded machine a
        // starved worker must not be taken for a hanging one (wall cap 12 x timeout for a worker that sleeps forever)
        let pid = p.child.id();
        let cpu0 = cpu_seconds(pid);
        let t0 = std::time::Instant::now();
        loop {
            match p.rx.recv_timeout(Duration::from_millis(500)) {
                Ok(line) => {
                    return match serde_json::from_str::<Resp>(&line) {
                        Ok(r) => Verdict::Done(r),
                        Err(e) => Verdict::Crashed(format!("protocol error: {e}")),
                    }
                }
                Err(std::sync::mpsc::RecvTimeoutError::Timeout) => {
                    let used = match (cpu0, cpu_seconds(pid)) {
                        (Some(a), Some(b)) => b - a,
                        _ => t0.elapsed().as_secs_f64(),
                    };
                    if used >= timeout.as_secs_f64() || t0.elapsed() >= timeout * 12 {
                        let _ = p.child.kill();
                        let _ = p.child.wait();
                        *slot = None;
                        return Verdict::Hang;
                    }
                }
                Err(std::sync::mpsc::RecvTimeoutError::Disconnected) => {
                    let status = p.child.wait().map(|s| format!("{s}")).unwrap_or_default();
                    *slot = None;
                    return Verdict::Crashed(status);
                }
            }
        }
    })
}

/// Run one input in a brand-new process (fresh RandomState seeds, fresh statics).
pub fn run_fresh(text: &str, backend: &str, timeout: Duration) -> Verdict {
    let mut p = match spawn() {
        Some(p) => p,
        None => return Verdict::Crashed("cannot spawn worker".into()),
    };
    let req = serde_json::to_string(&Req { text: text.to_string(), backend: backend.to_string() }).unwrap();
    if writeln!(p.stdin, "{req}").and_then(|_| p.stdin.flush()).is_err() {
        return Verdict::Crashed("worker gone before request".into());
    }
    let v = match p.rx.recv_timeout(timeout) {
        Ok(line) => match serde_json::from_str::<Resp>(&line) {
            Ok(r) => Verdict::Done(r),
            Err(e) => Verdict::Crashed(format!("protocol error: {e}")),
        },
        Err(std::sync::mpsc::RecvTimeoutError::Timeout) => Verdict::Hang,
        Err(_) => Verdict::Crashed(p.child.wait().map(|s| format!("{s}")).unwrap_or_default()),
    };
    let _ = p.child.kill();
    let _ = p.child.wait();
    v
}
