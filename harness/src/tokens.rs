//! X.680 §12 tokenizer (harness side) and base inputs for the token-space explorer E2 (C08, C13, C17).
use serde::{Deserialize, Serialize};

#[derive(Clone, Debug, PartialEq, Serialize, Deserialize)]
pub struct Tok {
    pub text: String,
    /// word | number | cstring | bhstring | punct
    pub kind: String,
    /// byte offset in the source it was lexed from
    pub start: usize,
}

pub const ASN_KEYWORDS: [&str; 78] = [
    "ABSENT", "ALL", "ANY", "APPLICATION", "AUTOMATIC", "BEGIN", "BIT", "BMPString", "BOOLEAN", "BY", "CHARACTER", "CHOICE", "CLASS", "COMPONENT", "COMPONENTS", "CONSTRAINED", "CONTAINING", "DEFAULT", "DEFINED", "DEFINITIONS", "EMBEDDED", "ENCODED", "END", "ENUMERATED", "EXCEPT", "EXPLICIT", "EXPORTS", "EXTENSIBILITY", "EXTERNAL", "FALSE", "FROM", "GeneralizedTime", "GeneralString", "GraphicString", "IA5String", "IDENTIFIER", "IMPLICIT", "IMPLIED", "IMPORTS", "INCLUDES", "INSTANCE", "INTEGER", "INTERSECTION", "MAX", "MIN", "NULL", "NumericString", "OBJECT", "OCTET", "OF", "OPTIONAL", "PATTERN", "PDV", "PRESENT", "PrintableString", "PRIVATE", "REAL", "RELATIVE-OID", "SEQUENCE", "SET", "SIZE", "STRING", "SYNTAX", "T61String", "TAGS", "TeletexString", "TRUE", "UNION", "UNIQUE", "UNIVERSAL", "UniversalString", "UTCTime", "UTF8String", "VideotexString", "VisibleString", "WITH", "TIME", "MACRO",
];

pub fn class_of(t: &Tok) -> String {
    match t.kind.as_str() {
        "word" => {
            if ASN_KEYWORDS.contains(&t.text.as_str()) {
                t.text.clone()
            } else if t.text.starts_with('&') {
                "fieldref".into()
            } else if t.text.chars().next().map_or(false, |c| c.is_ascii_uppercase()) {
                "Typeref".into()
            } else {
                "ident".into()
            }
        }
        "punct" => t.text.clone(),
        k => k.to_string(),
    }
}

/// Tokenize; comments and whitespace are dropped.  Returns None when the text is not lexically well formed
/// (unterminated string/comment) — such texts are not used as bases.
pub fn tokenize(src: &str) -> Option<Vec<Tok>> {
    let b: Vec<char> = src.chars().collect();
    // byte offsets per char index
    let mut offs = Vec::with_capacity(b.len() + 1);
    let mut o = 0;
    for c in &b {
        offs.push(o);
        o += c.len_utf8();
    }
    offs.push(o);
    let mut i = 0;
    let mut out = vec![];
    while i < b.len() {
        let c = b[i];
        if c.is_whitespace() {
            i += 1;
            continue;
        }
        // comments
        if c == '-' && i + 1 < b.len() && b[i + 1] == '-' {
            i += 2;
            loop {
                if i >= b.len() {
                    break;
                }
                if b[i] == '\n' {
                    i += 1;
                    break;
                }
                if b[i] == '-' && i + 1 < b.len() && b[i + 1] == '-' {
                    i += 2;
                    break;
                }
                i += 1;
            }
            continue;
        }
        if c == '/' && i + 1 < b.len() && b[i + 1] == '*' {
            let mut depth = 1;
            i += 2;
            while i < b.len() && depth > 0 {
                if b[i] == '/' && i + 1 < b.len() && b[i + 1] == '*' {
                    depth += 1;
                    i += 2;
                } else if b[i] == '*' && i + 1 < b.len() && b[i + 1] == '/' {
                    depth -= 1;
                    i += 2;
                } else {
                    i += 1;
                }
            }
            if depth > 0 {
                return None;
            }
            continue;
        }
        let start = i;
        let mut push = |kind: &str, end: usize, out: &mut Vec<Tok>| {
            out.push(Tok { text: b[start..end].iter().collect(), kind: kind.into(), start: offs[start] });
        };
        if c == '"' {
            i += 1;
            loop {
                if i >= b.len() {
                    return None;
                }
                if b[i] == '"' {
                    if i + 1 < b.len() && b[i + 1] == '"' {
                        i += 2;
                        continue;
                    }
                    i += 1;
                    break;
                }
                i += 1;
            }
            push("cstring", i, &mut out);
            continue;
        }
        if c == '\'' {
            i += 1;
            while i < b.len() && b[i] != '\'' {
                i += 1;
            }
            if i >= b.len() {
                return None;
            }
            i += 1;
            if i < b.len() && (b[i] == 'B' || b[i] == 'H') {
                i += 1;
            }
            push("bhstring", i, &mut out);
            continue;
        }
        if c.is_ascii_alphabetic() || c == '&' {
            i += 1;
            while i < b.len() && (b[i].is_ascii_alphanumeric() || (b[i] == '-' && i + 1 < b.len() && b[i + 1].is_ascii_alphanumeric()) || b[i] == '_') {
                i += 1;
            }
            push("word", i, &mut out);
            continue;
        }
        if c.is_ascii_digit() || (c == '-' && i + 1 < b.len() && b[i + 1].is_ascii_digit()) {
            i += 1;
            while i < b.len() && b[i].is_ascii_digit() {
                i += 1;
            }
            // real numbers 1.5 (but not 1..5)
            if i + 1 < b.len() && b[i] == '.' && b[i + 1].is_ascii_digit() {
                i += 1;
                while i < b.len() && b[i].is_ascii_digit() {
                    i += 1;
                }
            }
            push("number", i, &mut out);
            continue;
        }
        // punctuation
        let three: String = b[i..(i + 3).min(b.len())].iter().collect();
        let two: String = b[i..(i + 2).min(b.len())].iter().collect();
        if three == "::=" || three == "..." {
            i += 3;
        } else if two == ".." || two == "[[" || two == "]]" {
            i += 2;
        } else {
            i += 1;
        }
        push("punct", i, &mut out);
    }
    Some(out)
}

/// tokens may be written without any separator when one side is one of `{ } ( ) , ;` and no other token is formed
pub fn separable(l: &Tok, r: &Tok) -> bool {
    // single-character lexical items (X.680 12.37) next to which no white-space is needed
    // and the items made of punctuation only: `::=`, `..`, `...`, and the `.` between the parts of a reference
    let p = |t: &Tok| t.kind == "punct" && matches!(t.text.as_str(), "{" | "}" | "(" | ")" | "," | ";" | ":" | "[" | "]" | "<" | "|" | "^" | "@" | "!" | "::=" | ".." | "..." | ".");
    if !(p(l) || p(r)) {
        return false;
    }
    // a `.` that touches a number reads as part of a real number
    let digit_end = |t: &Tok| t.text.chars().last().map_or(false, |c| c.is_ascii_digit());
    let digit_start = |t: &Tok| t.text.chars().next().map_or(false, |c| c.is_ascii_digit());
    if (l.text == "." && digit_start(r)) || (r.text == "." && digit_end(l)) {
        return false;
    }
    let lt = l.text.as_str();
    let rt = r.text.as_str();
    // never create `--`, `/*`, `*/`, `[[`, `]]`, `..`, `::=`
    let lc = lt.chars().last().unwrap_or(' ');
    let rc = rt.chars().next().unwrap_or(' ');
    !matches!((lc, rc), ('-', '-') | ('/', '*') | ('*', '/') | ('[', '[') | (']', ']') | ('.', '.') | (':', ':') | (':', '=') | ('<', '.') | ('.', '<'))
}

pub fn join(tokens: &[Tok], seps: &[String]) -> String {
    let mut s = String::new();
    for (i, t) in tokens.iter().enumerate() {
        if i > 0 {
            s += &seps[i - 1];
        }
        s += &t.text;
    }
    s.push('\n');
    s
}

/// canonical layout: single spaces, a newline before each top-level assignment start is not needed — one space everywhere
pub fn canonical_seps(tokens: &[Tok]) -> Vec<String> {
    // one space everywhere, except that `;` is attached to the preceding token (the usual published layout)
    (0..tokens.len().saturating_sub(1)).map(|i| if tokens[i + 1].text == ";" { String::new() } else { " ".to_string() }).collect()
}
pub fn canonical(tokens: &[Tok]) -> String {
    join(tokens, &canonical_seps(tokens))
}

/// Feature modules: every production of the supported-notation grammar G occurs in at least one of them.
pub fn feature_modules() -> Vec<(&'static str, String)> {
    let m = |name: &'static str, body: &str| (name, format!("M DEFINITIONS AUTOMATIC TAGS ::= BEGIN {body} END"));
    vec![
        m("bool", "A ::= BOOLEAN"),
        m("int", "A ::= INTEGER B ::= INTEGER (0..255) C ::= INTEGER { one(1), two(2) } (1..2) D ::= INTEGER (MIN..5 | 10..MAX, ...)"),
        m("enum", "E ::= ENUMERATED { a, b(5), c } F ::= ENUMERATED { a, ..., b }"),
        // identifier-only items around numbers that the counting would hand out (X.680 20.4: every item gets a distinct number)
        m("enum-numbering", "G ::= ENUMERATED { first, second(0), third } H ::= ENUMERATED { a, b, c(1) } I ::= ENUMERATED { a(1), b, c(0), ..., d, e(7), f } J ::= SEQUENCE { e ENUMERATED { x, y(0) }, f ENUMERATED { p(2), q, r(1), s } }"),
        m("bits", "A ::= BIT STRING B ::= BIT STRING { x(0), y(3) } (SIZE (4..8)) C ::= OCTET STRING (SIZE (2)) D ::= OCTET STRING (SIZE (1..4, ...))"),
        m("strings", "A ::= UTF8String (SIZE (1..10)) B ::= IA5String (FROM (\"a\"..\"z\" | \"0\"..\"9\")) (SIZE (1..8)) C ::= NumericString D ::= PrintableString E ::= VisibleString F ::= BMPString G ::= UniversalString H ::= TeletexString I ::= T61String J ::= GraphicString K ::= GeneralString L ::= ISO646String M2 ::= SEQUENCE { i ISO646String (SIZE (1..4)) OPTIONAL }"),
        m("misc", "A ::= NULL B ::= OBJECT IDENTIFIER C ::= RELATIVE-OID D ::= UTCTime E ::= GeneralizedTime F ::= ANY"),
        m("seq", "S ::= SEQUENCE { a BOOLEAN, b INTEGER OPTIONAL, c UTF8String DEFAULT \"x\", d NULL }"),
        m("set", "S ::= SET { a [0] BOOLEAN, b [1] INTEGER OPTIONAL }"),
        m("choice", "C ::= CHOICE { a BOOLEAN, b INTEGER, ..., c NULL }"),
        m("names", "Struct ::= SEQUENCE { type BOOLEAN, match-x INTEGER OPTIONAL, self-t Self-T, r-e-f En-um DEFAULT fn } Self-T ::= CHOICE { type NULL, async BOOLEAN, a-b INTEGER (0..7) } En-um ::= ENUMERATED { type, fn, a-b } loop-v INTEGER ::= 3 Of-type ::= SEQUENCE OF Self-T"),
        m("choice-same-types", "L ::= UTF8String (SIZE (1..9)) C2 ::= CHOICE { a L, b L, c BOOLEAN } C3 ::= CHOICE { a INTEGER (0..9), b INTEGER (0..200), c INTEGER (0..100), d NULL } C1 ::= CHOICE { p SEQUENCE { x BOOLEAN }, q SEQUENCE { x BOOLEAN }, r L }"),
        m("of", "A ::= SEQUENCE OF INTEGER B ::= SET OF BOOLEAN C ::= SEQUENCE (SIZE (1..4)) OF UTF8String D ::= SET SIZE (2) OF NULL"),
        m("ext", "S ::= SEQUENCE { a BOOLEAN, ..., [[ b INTEGER, c NULL OPTIONAL ]], d BOOLEAN, [[ 3: e NULL ]] } T ::= SEQUENCE { ..., x BOOLEAN }"),
        m("nested", "S ::= SEQUENCE { n SEQUENCE { m CHOICE { x BOOLEAN, y SEQUENCE OF SET { z ENUMERATED { p, q } } } } OPTIONAL }"),
        m("recursion", "A ::= SEQUENCE { a A OPTIONAL, l SEQUENCE OF A } B ::= CHOICE { b C, n NULL } C ::= SEQUENCE { c B }"),
        m("tags", "A ::= [5] INTEGER B ::= [APPLICATION 3] EXPLICIT BOOLEAN S ::= SEQUENCE { a [0] IMPLICIT INTEGER, b [PRIVATE 1] EXPLICIT NULL, c [UNIVERSAL 29] UTF8String }"),
        m("refs", "T ::= SEQUENCE { x U } U ::= INTEGER (0..7) V ::= T W ::= U (0..3)"),
        m("values", "a INTEGER ::= 5 b BOOLEAN ::= TRUE c NULL ::= NULL d UTF8String ::= \"he said \"\"hi\"\"\" e BIT STRING ::= '0101'B f OCTET STRING ::= 'AF09'H g OBJECT IDENTIFIER ::= { iso member-body(2) 840 } h INTEGER ::= -17 i INTEGER ::= a"),
        m("values2", "E ::= ENUMERATED { x, y } ev E ::= y C ::= CHOICE { n INTEGER, b BOOLEAN } cv C ::= n : 5 S ::= SEQUENCE { p INTEGER, q BOOLEAN } sv S ::= { p 1, q TRUE } L ::= SEQUENCE OF INTEGER lv L ::= { 1, 2, 3 } B ::= BIT STRING { r(0), s(2) } bb B ::= { r, s }"),
        m("defaults", "E ::= ENUMERATED { x, y } S ::= SEQUENCE { a INTEGER (0..10) DEFAULT 5, b E DEFAULT y, c BIT STRING { p(0), q(1) } DEFAULT { q }, d OCTET STRING DEFAULT 'FF'H, e BOOLEAN DEFAULT FALSE }"),
        m("values3", "Sv ::= SEQUENCE { a INTEGER, b BOOLEAN OPTIONAL } sv Sv ::= { a 1, b TRUE } Lv ::= SEQUENCE OF INTEGER lv Lv ::= { 5 } Cv ::= CHOICE { s Sv, l Lv } cv Cv ::= l:{ 7 } cw Cv ::= s:{ a 2, b FALSE }"),
        m("upper-type-names", "PDU ::= SEQUENCE { id INTEGER (0..7), ok BOOLEAN } msg PDU ::= { id 1, ok TRUE } ID ::= INTEGER (0..7) one ID ::= 1 LIST ::= SEQUENCE OF ID lst LIST ::= { 1, 2 } Hld ::= SEQUENCE { p PDU DEFAULT { id 2, ok FALSE } }"),
        // literals governed by a constrained reference whose root is an unconstrained / half-open / extensible INTEGER (DEFAULT, value, through one more alias)
        m("constrained-alias-values", "Number ::= INTEGER Percent ::= Number (0..100) Wide ::= INTEGER (0..MAX) Narrow ::= Wide (1..10) ExtRoot ::= INTEGER (0..7, ...) Sub ::= ExtRoot (1..5) Alias ::= Percent Sa ::= SEQUENCE { level Percent DEFAULT 50, n Narrow DEFAULT 3, e Sub DEFAULT 2, a Alias DEFAULT 7, f Number (0..9) DEFAULT 4 } pv Percent ::= 20 qv Alias ::= 30 rv Narrow ::= 4 sv Sub ::= 1"),
        // permitted alphabets given by ranges with MIN / MAX ends on every known-multiplier type
        m("alphabet-ends", "A ::= IA5String (FROM (\"a\"..MAX)) B ::= NumericString (FROM (MIN..\"5\")) C ::= PrintableString (FROM (\"A\"..MAX)) D ::= VisibleString (FROM (MIN..MAX)) E ::= BMPString (FROM (\"a\"..MAX)) F ::= UniversalString (FROM (MIN..\"z\")) S ::= SEQUENCE { f IA5String (FROM (\"0\"..MAX)) (SIZE (1..4)), g NumericString (FROM (\"1\"..MAX)) OPTIONAL }"),
        // value ranges with excluded endpoints (`<` is a lexical item of its own on either side of `..`)
        m("open-ends", "A ::= INTEGER (1<..5) B ::= INTEGER (1..<5) C ::= INTEGER (0<..<9) D ::= INTEGER (0..3, ..., 7..<9) S ::= SEQUENCE { f INTEGER (-2<..<2) DEFAULT 0 }"),
        m("value-named-like-type", "PDU ::= SEQUENCE { id INTEGER (0..7) } pdu PDU ::= { id 1 } Abc ::= INTEGER abc Abc ::= 5"),
        m("nested-choice-values", "Pdu-Hdr ::= SEQUENCE { c CHOICE { a INTEGER, b NULL } } v Pdu-Hdr ::= { c a:1 } Tp2 ::= CHOICE { a0 SEQUENCE { m0 INTEGER }, a1 CHOICE { a0 INTEGER, a1 NULL } } v2 Tp2 ::= a1:a0:5"),
        // values that select into anonymous CHOICE types nested two and three levels deep (internal names of internal names)
        m("deep-anonymous-choice-values", "Outer ::= CHOICE { mid CHOICE { pick CHOICE { a INTEGER, b NULL }, q NULL }, r NULL } v1 Outer ::= mid:pick:a:5 v2 Outer ::= mid:q:NULL Sq ::= SEQUENCE { m CHOICE { pick CHOICE { a INTEGER, b NULL }, q NULL } } v3 Sq ::= { m pick:a:5 } Lo ::= SEQUENCE OF CHOICE { pick CHOICE { a INTEGER, b NULL }, q NULL } v4 Lo ::= { pick:a:5, q:NULL } Deep ::= CHOICE { l1 CHOICE { l2 CHOICE { l3 CHOICE { a INTEGER } } } } v5 Deep ::= l1:l2:l3:a:7"),
        m("anonymous-element-values", "Tp1 ::= SEQUENCE OF CHOICE { a0 INTEGER, a1 NULL } v1 Tp1 ::= { a0:5 } Tp3 ::= SEQUENCE { m0 SEQUENCE OF CHOICE { a0 INTEGER, a1 NULL } } v3 Tp3 ::= { m0 { a0:5 } }"),
        m("time-values", "t1 UTCTime ::= \"990102030405Z\" t2 GeneralizedTime ::= \"19990102030405.5Z\" Tt ::= UTCTime t3 Tt ::= \"9901020304Z\" Ht ::= SEQUENCE { f GeneralizedTime DEFAULT \"19990102030405Z\", g UTCTime DEFAULT \"990102030405+0100\", h Tt DEFAULT \"000229235959Z\" }"),
        m("local-time-values", "Hl ::= SEQUENCE { f GeneralizedTime DEFAULT \"19990102030405\" } tl GeneralizedTime ::= \"19990102030405\""),
        m("inline-type-values", "v1 INTEGER (0..10) ::= 5 v2 BIT STRING { a(0), b(2) } ::= { b } v6 INTEGER { one(1), two(2) } ::= two v7 OCTET STRING (SIZE (2)) ::= 'ABCD'H v8 IA5String (SIZE (1..5)) ::= \"abc\" v9 SET OF BOOLEAN ::= { TRUE }"),
        m("inline-constructed-type-values", "v3 ENUMERATED { x, y } ::= y v4 CHOICE { a INTEGER, b NULL } ::= a:1"),
        m("names-differing-by-case-or-hyphen", "S1 ::= SEQUENCE { foo-bar INTEGER, fooBar BOOLEAN } Foo-Bar ::= INTEGER FooBar ::= BOOLEAN val-one INTEGER ::= 1 valOne INTEGER ::= 2"),
        m("oid-of-named-type", "ID ::= OBJECT IDENTIFIER ds ID ::= { joint-iso-itu-t ds(5) } module ID ::= { ds 1 } Oid2 ::= OBJECT IDENTIFIER base Oid2 ::= { iso 3 } ext Oid2 ::= { base 6 1 } plain OBJECT IDENTIFIER ::= { base 7 } deeper OBJECT IDENTIFIER ::= { ext 2 }"),
        m("default-names", "PDU-Header ::= SEQUENCE { version INTEGER DEFAULT 1, flag BOOLEAN DEFAULT TRUE } X-Y ::= SEQUENCE { a INTEGER (0..7) DEFAULT 0 } Ab-CD-e ::= SET { a BOOLEAN DEFAULT FALSE } UE-Capability ::= SEQUENCE { supported BOOLEAN DEFAULT TRUE, n INTEGER }"),
        m("default-of", "Sd ::= SEQUENCE { tail SET OF BOOLEAN DEFAULT { TRUE }, head SEQUENCE OF INTEGER DEFAULT { 1, 2 }, none SEQUENCE OF BOOLEAN DEFAULT { } }"),
        m("constraint-ops", "A ::= INTEGER (0..10 ^ 5..20) B ::= INTEGER (1 | 3 | 5) C ::= INTEGER (0..10 EXCEPT 5) D ::= INTEGER (ALL EXCEPT 0) E ::= INTEGER (0..100)(10..20) F ::= INTEGER (0..10 UNION 20..30) G ::= INTEGER (0..10 INTERSECTION 5..20)"),
        m("valref-constraint", "max INTEGER ::= 10 A ::= INTEGER (0..max) S ::= SEQUENCE { f INTEGER (0..max) }"),
        m("components-of", "A ::= SEQUENCE { a BOOLEAN, b INTEGER } B ::= SEQUENCE { COMPONENTS OF A, c NULL }"),
        m("param", "P {T} ::= SEQUENCE { v T } A ::= P {INTEGER} Q {INTEGER:n} ::= INTEGER (0..n) B ::= Q {7}"),
        m("selection", "C ::= CHOICE { a INTEGER, b BOOLEAN } A ::= a < C"),
        m("class", "OP ::= CLASS { &id INTEGER UNIQUE, &Type } WITH SYNTAX { ID &id TYPE &Type } op1 OP ::= { ID 1 TYPE BOOLEAN } Ops OP ::= { op1 } A ::= SEQUENCE { id OP.&id ({Ops}), val OP.&Type ({Ops}{@id}) } F ::= OP.&id"),
        m("param2", "P2 {T, U} ::= SEQUENCE { a T, b U } Ax ::= P2 {INTEGER, BOOLEAN}"),
        m("object-fields", "OP ::= CLASS { &id INTEGER UNIQUE, &Type } WITH SYNTAX { ID &id TYPE &Type } opa OP ::= { ID 1 TYPE BOOLEAN } Ty ::= SEQUENCE { a opa.&Type }"),
        m("instance-of", "Ix ::= INSTANCE OF TYPE-IDENTIFIER"),
        m("constrained-by", "Ax ::= OCTET STRING (CONSTRAINED BY { }) Bx ::= INTEGER (CONSTRAINED BY { Ax })"),
        ("imports-param", "M DEFINITIONS AUTOMATIC TAGS ::= BEGIN IMPORTS Ext{}, T FROM N; A ::= Ext {INTEGER} B ::= T END N DEFINITIONS AUTOMATIC TAGS ::= BEGIN Ext {X} ::= SEQUENCE { x X } T ::= NULL END".to_string()),
        m("class-hyphenated-field", "MY-CLASS ::= CLASS { &id INTEGER UNIQUE, &My-Type } WITH SYNTAX { &My-Type IDENTIFIED BY &id } Set-x MY-CLASS ::= { { BOOLEAN IDENTIFIED BY 1 } | { INTEGER IDENTIFIED BY 2 } } Tt ::= SEQUENCE { id MY-CLASS.&id ({Set-x}), val MY-CLASS.&My-Type ({Set-x}{@id}) }"),
        m("with-components", "A ::= SEQUENCE { a INTEGER OPTIONAL, b BOOLEAN OPTIONAL } B ::= A (WITH COMPONENTS { a PRESENT, b ABSENT }) L ::= SEQUENCE OF INTEGER M2 ::= L (WITH COMPONENT (0..5))"),
        m("containing", "A ::= OCTET STRING (CONTAINING INTEGER) B ::= BIT STRING (CONTAINING BOOLEAN)"),
        m("pattern", "A ::= UTF8String (PATTERN \"[a-z]+\")"),
        m("real", "A ::= REAL r REAL ::= 1.5"),
        ("explicit", "M DEFINITIONS EXPLICIT TAGS ::= BEGIN S ::= SEQUENCE { a [0] INTEGER, b [1] CHOICE { x NULL } } END".to_string()),
        ("implicit", "M DEFINITIONS IMPLICIT TAGS EXTENSIBILITY IMPLIED ::= BEGIN S ::= SEQUENCE { a [0] INTEGER, b [1] BOOLEAN } E ::= ENUMERATED { a } END".to_string()),
        ("oid-header", "M { iso org(3) dod(6) 1 } DEFINITIONS ::= BEGIN EXPORTS ALL; A ::= INTEGER END".to_string()),
        ("imports", "M DEFINITIONS AUTOMATIC TAGS ::= BEGIN IMPORTS T, v FROM N U FROM O { iso 2 }; A ::= SEQUENCE { t T, u U, i INTEGER (0..v) } END N DEFINITIONS AUTOMATIC TAGS ::= BEGIN EXPORTS T, v; T ::= BOOLEAN v INTEGER ::= 3 END O { iso 2 } DEFINITIONS AUTOMATIC TAGS ::= BEGIN U ::= NULL END".to_string()),
        ("qualified", "M DEFINITIONS AUTOMATIC TAGS ::= BEGIN A ::= SEQUENCE { t N.T } END N DEFINITIONS AUTOMATIC TAGS ::= BEGIN T ::= BOOLEAN END".to_string()),
    ]
}

/// The repository's real-world modules, smallest first (path, text)
pub fn real_world_modules(max: usize, max_bytes: usize) -> Vec<(String, String)> {
    let dir = format!("{}/rasn-compiler-tests/tests/modules", crate::common::repo_dir());
    let dir = dir.as_str();
    let mut v: Vec<(u64, String)> = vec![];
    if let Ok(rd) = std::fs::read_dir(dir) {
        for e in rd.flatten() {
            if let Ok(md) = e.metadata() {
                if md.is_file() && (md.len() as usize) <= max_bytes {
                    v.push((md.len(), e.path().to_string_lossy().to_string()));
                }
            }
        }
    }
    v.sort();
    v.into_iter().take(max).filter_map(|(_, p)| std::fs::read_to_string(&p).ok().map(|t| (p, t))).collect()
}
