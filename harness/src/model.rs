//! Model AST for constructed types (DESIGN §3), its ASN.1 printer, and the structural comparator
//! `sem::shape` used by C02 / C05 (Rust projection).  The TypeScript comparator lives in props/c18.rs.
use crate::driver::Disc;
use crate::proj::*;
use serde::{Deserialize, Serialize};
use std::collections::{BTreeMap, BTreeSet};

#[derive(Clone, Serialize, Deserialize, PartialEq, Debug)]
pub enum Ty {
    Bool,
    Int,
    /// INTEGER (0..255)
    U8,
    Null,
    Octets,
    Utf8,
    /// anonymous ENUMERATED { a, b-c }
    Enum,
    /// any other built-in type, by its ASN.1 spelling (see `builtin_rust`)
    Builtin(String),
    /// reference to helper type T ::= SEQUENCE { x BOOLEAN }
    Ref,
    /// reference to the enclosing top-level type (recursion)
    SelfRef,
    /// reference to another top-level type of the same module, by name (mutual recursion)
    Named(String),
    Seq(Body),
    Set(Body),
    Choice(Body),
    SeqOf(Box<Ty>),
    SetOf(Box<Ty>),
}

/// the other built-in types: (ASN.1 spelling, kind label, rasn type of the bindings, JER / TypeScript type)
pub const BUILTINS: [(&str, &str, &str, &str); 18] = [
    ("BIT STRING", "BITSTRING", "BitString", "bits"),
    ("OBJECT IDENTIFIER", "OID", "ObjectIdentifier", "string"),
    ("RELATIVE-OID", "RELATIVE-OID", "ObjectIdentifier", "string"),
    ("UTCTime", "UTCTime", "UtcTime", "string"),
    ("GeneralizedTime", "GeneralizedTime", "GeneralizedTime", "string"),
    ("IA5String", "IA5String", "Ia5String", "string"),
    ("NumericString", "NumericString", "NumericString", "string"),
    ("PrintableString", "PrintableString", "PrintableString", "string"),
    ("VisibleString", "VisibleString", "VisibleString", "string"),
    ("ISO646String", "ISO646String", "VisibleString", "string"),
    ("BMPString", "BMPString", "BmpString", "string"),
    ("UniversalString", "UniversalString", "UniversalString", "string"),
    ("TeletexString", "TeletexString", "TeletexString", "string"),
    ("T61String", "T61String", "TeletexString", "string"),
    ("GraphicString", "GraphicString", "GraphicString", "string"),
    ("GeneralString", "GeneralString", "GeneralString", "string"),
    // X.680 48: ObjectDescriptor ::= [UNIVERSAL 7] IMPLICIT GraphicString
    ("ObjectDescriptor", "ObjectDescriptor", "GraphicString", "string"),
    // not a built-in type but a leaf all the same: the fixed-type field of an information object class
    // (X.681 14: the type is the field's type); `module_text` supplies the class
    ("CLS.&id", "class-field", "Integer", "number"),
];
pub const CLASS_HELPER: &str = "CLS ::= CLASS { &id INTEGER UNIQUE, &Type } WITH SYNTAX { &Type IDENTIFIED BY &id }\n";

#[derive(Clone, Serialize, Deserialize, PartialEq, Debug)]
pub enum Opt {
    Req,
    Optional,
    Default,
}

#[derive(Clone, Serialize, Deserialize, PartialEq, Debug)]
pub struct Comp {
    pub name: String,
    pub ty: Ty,
    pub opt: Opt,
}

#[derive(Clone, Serialize, Deserialize, PartialEq, Debug)]
pub enum BItem {
    C(Comp),
    Marker,
    Group(Option<u32>, Vec<Comp>),
}

#[derive(Clone, Serialize, Deserialize, PartialEq, Debug, Default)]
pub struct Body {
    pub items: Vec<BItem>,
    /// print a trailing comma-free list exactly as given; `lead_comma_after_marker` etc. are layout, not model
    #[serde(default)]
    pub marker_trailing_comma: bool,
}

impl Ty {
    pub fn kind(&self) -> &'static str {
        match self {
            Ty::Bool => "BOOLEAN",
            Ty::Int => "INTEGER",
            Ty::U8 => "INTEGER(0..255)",
            Ty::Null => "NULL",
            Ty::Octets => "OCTETSTRING",
            Ty::Utf8 => "UTF8String",
            Ty::Enum => "anon-ENUMERATED",
            Ty::Builtin(b) => BUILTINS.iter().find(|x| x.0 == b).map(|x| x.1).unwrap_or("builtin-unknown"),
            Ty::Ref => "ref",
            Ty::SelfRef => "selfref",
            Ty::Named(_) => "named-ref",
            Ty::Seq(_) => "anon-SEQUENCE",
            Ty::Set(_) => "anon-SET",
            Ty::Choice(_) => "anon-CHOICE",
            Ty::SeqOf(e) => match **e {
                Ty::SelfRef => "SEQOF-self",
                Ty::Ref => "SEQOF-ref",
                Ty::Seq(_) | Ty::Set(_) | Ty::Choice(_) | Ty::Enum => "SEQOF-anon",
                _ => "SEQOF-prim",
            },
            Ty::SetOf(e) => match **e {
                Ty::SelfRef => "SETOF-self",
                Ty::Ref => "SETOF-ref",
                Ty::Seq(_) | Ty::Set(_) | Ty::Choice(_) | Ty::Enum => "SETOF-anon",
                _ => "SETOF-prim",
            },
        }
    }
    pub fn default_text(&self) -> Option<&'static str> {
        match self {
            Ty::Bool => Some("TRUE"),
            Ty::Int | Ty::U8 => Some("5"),
            Ty::Null => Some("NULL"),
            Ty::Octets => Some("'00'H"),
            Ty::Utf8 => Some("\"x\""),
            _ => None,
        }
    }
    pub fn uses_ref(&self) -> bool {
        match self {
            Ty::Ref => true,
            Ty::Seq(b) | Ty::Set(b) | Ty::Choice(b) => b.comps().iter().any(|c| c.ty.uses_ref()),
            Ty::SeqOf(e) | Ty::SetOf(e) => e.uses_ref(),
            _ => false,
        }
    }
    pub fn depth(&self) -> usize {
        match self {
            Ty::Seq(b) | Ty::Set(b) | Ty::Choice(b) => 1 + b.comps().iter().map(|c| c.ty.depth()).max().unwrap_or(0),
            Ty::SeqOf(e) | Ty::SetOf(e) => 1 + e.depth(),
            _ => 0,
        }
    }
}

impl Body {
    pub fn comps(&self) -> Vec<&Comp> {
        let mut v = vec![];
        for i in &self.items {
            match i {
                BItem::C(c) => v.push(c),
                BItem::Group(_, g) => v.extend(g.iter()),
                BItem::Marker => {}
            }
        }
        v
    }
    pub fn has_marker(&self) -> bool {
        self.items.iter().any(|i| matches!(i, BItem::Marker))
    }
    pub fn of(comps: Vec<Comp>) -> Body {
        Body { items: comps.into_iter().map(BItem::C).collect(), marker_trailing_comma: false }
    }
}

pub fn comp_text(c: &Comp, top: &str) -> String {
    let mut s = format!("{} {}", c.name, ty_text(&c.ty, top));
    match c.opt {
        Opt::Req => {}
        Opt::Optional => s += " OPTIONAL",
        Opt::Default => {
            s += " DEFAULT ";
            s += c.ty.default_text().unwrap_or("NULL");
        }
    }
    s
}

pub fn body_text(b: &Body, top: &str) -> String {
    let mut parts = vec![];
    for i in &b.items {
        match i {
            BItem::C(c) => parts.push(comp_text(c, top)),
            BItem::Marker => parts.push("...".to_string()),
            BItem::Group(v, comps) => {
                let inner: Vec<String> = comps.iter().map(|c| comp_text(c, top)).collect();
                match v {
                    Some(n) => parts.push(format!("[[ {n}: {} ]]", inner.join(", "))),
                    None => parts.push(format!("[[ {} ]]", inner.join(", "))),
                }
            }
        }
    }
    let mut s = parts.join(", ");
    if b.marker_trailing_comma && matches!(b.items.last(), Some(BItem::Marker)) {
        // "a T, ...," is not valid notation; the flag only applies to the ENUMERATED printer
    }
    if s.is_empty() {
        s
    } else {
        s.insert(0, ' ');
        s.push(' ');
        s
    }
}

pub fn ty_text(t: &Ty, top: &str) -> String {
    match t {
        Ty::Bool => "BOOLEAN".into(),
        Ty::Int => "INTEGER".into(),
        Ty::U8 => "INTEGER (0..255)".into(),
        Ty::Null => "NULL".into(),
        Ty::Octets => "OCTET STRING".into(),
        Ty::Utf8 => "UTF8String".into(),
        Ty::Enum => "ENUMERATED { a, b-c }".into(),
        Ty::Builtin(b) => b.clone(),
        Ty::Ref => "T".into(),
        Ty::SelfRef => top.into(),
        Ty::Named(n) => n.clone(),
        Ty::Seq(b) => format!("SEQUENCE {{{}}}", body_text(b, top)),
        Ty::Set(b) => format!("SET {{{}}}", body_text(b, top)),
        Ty::Choice(b) => format!("CHOICE {{{}}}", body_text(b, top)),
        Ty::SeqOf(e) => format!("SEQUENCE OF {}", ty_text(e, top)),
        Ty::SetOf(e) => format!("SET OF {}", ty_text(e, top)),
    }
}

/// Module text for one top-level assignment `A ::= ty` (+ helper T when referenced)
pub fn module_text(t: &Ty, tagdef: &str, implied: bool) -> String {
    let mut body = String::new();
    if t.uses_ref() {
        body += "T ::= SEQUENCE { x BOOLEAN }\n";
    }
    let a = ty_text(t, "A");
    if a.contains("CLS.&") {
        body += CLASS_HELPER;
    }
    body += &format!("A ::= {a}\n");
    crate::common::module("M", tagdef, implied, &body)
}

// ------------------------------------------------------------------------------------------------
// Structural comparator

pub struct Cmp<'a> {
    pub m: &'a ModProj,
    pub discs: Vec<Disc>,
    pub visited: BTreeSet<String>,
    pub implied: bool,
    pub prefix: &'a str, // "shape" (C02) or "ext" (C05)
    pub src: &'a str,
    pub check_ext: bool,
    pub check_shape: bool,
}

fn strip<'a>(s: &'a str, pre: &str) -> Option<&'a str> {
    s.strip_prefix(pre).and_then(|r| r.strip_suffix('>'))
}

impl<'a> Cmp<'a> {
    fn d(&mut self, key: String, detail: String) {
        let full = format!("{}\n--- source ---\n{}", detail, self.src);
        self.discs.push(Disc::new(key, full));
    }

    /// compare the top-level assignment `name ::= t` for a constructed t
    pub fn top_named(&mut self, name: &str, t: &Ty) {
        self.item(name, t, "top");
    }

    /// compare the top-level assignment A ::= t
    pub fn top(&mut self, t: &Ty) {
        match t {
            Ty::Seq(_) | Ty::Set(_) | Ty::Choice(_) | Ty::Enum => self.item("A", t, "top"),
            Ty::SeqOf(e) | Ty::SetOf(e) => {
                let is_set = matches!(t, Ty::SetOf(_));
                self.visited.insert("A".into());
                match self.m.find("A") {
                    Some(Item::Struct { tuple: Some(tu), attrs, .. }) if tu.len() == 1 => {
                        if !attrs.rasn.has("delegate") && self.check_shape {
                            self.d(format!("{}|top-of|kind=no-delegate", self.prefix), "newtype A lacks delegate".into());
                        }
                        let (pre, other) = if is_set { ("SetOf<", "SequenceOf<") } else { ("SequenceOf<", "SetOf<") };
                        match strip(&tu[0], pre) {
                            Some(inner) => {
                                let inner = inner.to_string();
                                self.ty(e, &inner, &format!("top-{}", t.kind()), true);
                            }
                            None => {
                                if self.check_shape {
                                    let k = if strip(&tu[0], other).is_some() { "set" } else { "type" };
                                    self.d(format!("{}|container=top|comp={}|kind={k}", self.prefix, t.kind()), format!("A wraps `{}`, expected {pre}..>", tu[0]));
                                }
                            }
                        }
                    }
                    _ => self.d(format!("{}|container=top|comp={}|kind=missing", self.prefix, t.kind()), "newtype A not found".into()),
                }
            }
            prim => {
                self.visited.insert("A".into());
                match self.m.find("A") {
                    Some(Item::Struct { tuple: Some(tu), .. }) if tu.len() == 1 => {
                        let got = tu[0].clone();
                        self.ty(prim, &got, "top-prim", false);
                    }
                    _ => self.d(format!("{}|container=top|comp={}|kind=missing", self.prefix, prim.kind()), "newtype A not found".into()),
                }
            }
        }
    }

    /// `got` is the Rust type text of a component whose ASN.1 type is `exp`
    fn ty(&mut self, exp: &Ty, got: &str, ctx: &str, _in_of: bool) {
        let got_unboxed = strip(got, "Box<").unwrap_or(got);
        let prim = |s: &str| -> Option<&'static str> {
            Some(match s {
                "BOOLEAN" => "bool",
                "INTEGER" => "Integer",
                "INTEGER(0..255)" => "u8",
                "NULL" => "()",
                "OCTETSTRING" => "OctetString",
                "UTF8String" => "Utf8String",
                "ref" => "T",
                "selfref" => "A",
                _ => return None,
            })
        };
        if let Ty::Named(n) = exp {
            if got_unboxed != n && self.check_shape {
                self.d(format!("{}|ctx={ctx}|comp=named-ref|kind=type", self.prefix), format!("expected reference to {n}, got {got}"));
            }
            return; // Box placement is judged on the whole reference graph in finish()
        }
        let builtin_want = if let Ty::Builtin(b) = exp { BUILTINS.iter().find(|x| x.0 == b).map(|x| x.2) } else { None };
        if let Some(want) = prim(exp.kind()).or(builtin_want) {
            // an OF element of built-in type may be rendered as a delegate newtype `Anonymous…(pub <prim>)`
            if _in_of && got_unboxed != want {
                if let Some(Item::Struct { tuple: Some(tu), attrs, .. }) = self.m.find(got_unboxed) {
                    if tu.len() == 1 && tu[0] == want && attrs.rasn.has("delegate") && self.visited.insert(got_unboxed.to_string()) {
                        return;
                    }
                }
            }
            if got_unboxed != want && self.check_shape {
                self.d(format!("{}|ctx={ctx}|comp={}|kind=type|exp={want}", self.prefix, exp.kind()), format!("expected Rust type {want}, got {got}"));
            }
            if got != got_unboxed && !matches!(exp, Ty::SelfRef) && self.check_shape {
                self.d(format!("{}|ctx={ctx}|comp={}|kind=box|exp=unboxed", self.prefix, exp.kind()), format!("gratuitous Box: {got}"));
            }
            return;
        }
        match exp {
            Ty::Seq(_) | Ty::Set(_) | Ty::Choice(_) | Ty::Enum => {
                // must name a hoisted item
                if self.m.find(got_unboxed).is_none() {
                    self.d(format!("{}|ctx={ctx}|comp={}|kind=missing-hoisted", self.prefix, exp.kind()), format!("type `{got}` does not name an item of the module"));
                    return;
                }
                if !self.visited.insert(got_unboxed.to_string()) {
                    self.d(format!("{}|ctx={ctx}|comp={}|kind=hoisted-shared", self.prefix, exp.kind()), format!("hoisted item `{got_unboxed}` used for two different anonymous types"));
                    return;
                }
                let name = got_unboxed.to_string();
                self.item(&name, exp, ctx);
            }
            Ty::SeqOf(e) | Ty::SetOf(e) => {
                let is_set = matches!(exp, Ty::SetOf(_));
                let (pre, other) = if is_set { ("SetOf<", "SequenceOf<") } else { ("SequenceOf<", "SetOf<") };
                if let Some(inner) = strip(got_unboxed, pre) {
                    let inner = inner.to_string();
                    self.ty(e, &inner, &format!("{ctx}>of"), true);
                } else if strip(got_unboxed, other).is_some() {
                    if self.check_shape {
                        self.d(format!("{}|ctx={ctx}|comp={}|kind=set", self.prefix, exp.kind()), format!("expected {pre}..>, got {got}"));
                    }
                } else {
                    // hoisted delegate newtype
                    match self.m.find(got_unboxed) {
                        Some(Item::Struct { tuple: Some(tu), attrs, .. }) if tu.len() == 1 => {
                            if !self.visited.insert(got_unboxed.to_string()) {
                                self.d(format!("{}|ctx={ctx}|comp={}|kind=hoisted-shared", self.prefix, exp.kind()), format!("hoisted item `{got_unboxed}` used twice"));
                                return;
                            }
                            if !attrs.rasn.has("delegate") && self.check_shape {
                                self.d(format!("{}|ctx={ctx}|comp={}|kind=no-delegate", self.prefix, exp.kind()), format!("hoisted newtype {got_unboxed} lacks delegate"));
                            }
                            let t0 = tu[0].clone();
                            match strip(&t0, pre) {
                                Some(inner) => {
                                    let inner = inner.to_string();
                                    self.ty(e, &inner, &format!("{ctx}>of"), true)
                                }
                                None => {
                                    if self.check_shape {
                                        let k = if strip(&t0, other).is_some() { "set" } else { "type" };
                                        self.d(format!("{}|ctx={ctx}|comp={}|kind={k}", self.prefix, exp.kind()), format!("hoisted newtype wraps `{t0}`, expected {pre}..>"));
                                    }
                                }
                            }
                        }
                        _ => self.d(format!("{}|ctx={ctx}|comp={}|kind=type", self.prefix, exp.kind()), format!("expected {pre}..> or a delegate newtype, got `{got}`")),
                    }
                }
            }
            _ => unreachable!(),
        }
    }

    /// compare hoisted or top-level item `name` with constructed type `exp`
    fn item(&mut self, name: &str, exp: &Ty, ctx: &str) {
        self.visited.insert(name.to_string());
        let it = match self.m.find(name) {
            Some(i) => i.clone(),
            None => {
                self.d(format!("{}|ctx={ctx}|comp={}|kind=missing-item", self.prefix, exp.kind()), format!("item {name} not found"));
                return;
            }
        };
        match exp {
            Ty::Enum => match &it {
                Item::Enum { variants, attrs, .. } => {
                    let names: Vec<&str> = variants.iter().map(|v| v.name.as_str()).collect();
                    // the hyphenated enumeral keeps its ASN.1 spelling in an identifier annotation
                    let ident_ok = variants.get(1).map_or(false, |v| v.attrs.rasn.get("identifier").map(|s| s.trim_matches('"').to_string()) == Some("b-c".to_string()));
                    if (names != ["a", "b_c"] || !ident_ok || !attrs.rasn.has("enumerated")) && self.check_shape {
                        self.d(format!("{}|ctx={ctx}|comp=anon-ENUMERATED|kind=members", self.prefix), format!("enum {name}: {names:?}"));
                    }
                    if self.check_ext && attrs.non_exhaustive != self.implied {
                        self.d(format!("{}|kind=ENUMERATED|ctx={ctx}|non_exhaustive|marker=false|implied={}|got={}", self.prefix, self.implied, attrs.non_exhaustive), format!("enum {name}"));
                    }
                }
                _ => self.d(format!("{}|ctx={ctx}|comp=anon-ENUMERATED|kind=item-kind", self.prefix), format!("{name} is not an enum")),
            },
            Ty::Seq(b) | Ty::Set(b) => {
                let is_set = matches!(exp, Ty::Set(_));
                let cname = if is_set { "SET" } else { "SEQUENCE" };
                let (fields, attrs) = match &it {
                    Item::Struct { fields, attrs, tuple: None, .. } => (fields.clone(), attrs.clone()),
                    _ => {
                        self.d(format!("{}|ctx={ctx}|container={cname}|kind=item-kind", self.prefix), format!("{name} is not a struct with named fields"));
                        return;
                    }
                };
                if self.check_shape && attrs.rasn.has("set") != is_set {
                    self.d(format!("{}|ctx={ctx}|container={cname}|kind=set|got={}", self.prefix, attrs.rasn.has("set")), format!("struct {name}: `set` marker"));
                }
                if self.check_ext {
                    let want = b.has_marker() || self.implied;
                    if attrs.non_exhaustive != want {
                        self.d(format!("{}|kind={cname}|ctx={ctx}|non_exhaustive|marker={}|implied={}|got={}", self.prefix, b.has_marker(), self.implied, attrs.non_exhaustive), format!("struct {name}"));
                    }
                }
                // expected field list
                struct Ef<'b> {
                    name: String,
                    comp: Option<&'b Comp>,
                    group: Option<&'b Vec<Comp>>,
                    ext: bool,
                }
                let mut efs: Vec<Ef> = vec![];
                let mut after = false;
                for i in &b.items {
                    match i {
                        BItem::Marker => after = true,
                        BItem::C(c) => efs.push(Ef { name: c.name.clone(), comp: Some(c), group: None, ext: after }),
                        BItem::Group(_, g) => efs.push(Ef { name: format!("ext_group_{}", g[0].name), comp: None, group: Some(g), ext: true }),
                    }
                }
                let n = efs.len();
                let layout: String = b.items.iter().map(|i| match i { BItem::C(_) => 'c', BItem::Marker => '.', BItem::Group(_, g) => char::from_digit(g.len() as u32, 10).unwrap_or('g') }).collect();
                if fields.len() != n {
                    let got: Vec<&str> = fields.iter().map(|f| f.name.as_str()).collect();
                    let want: Vec<&str> = efs.iter().map(|e| e.name.as_str()).collect();
                    self.d(format!("{}|ctx={ctx}|container={cname}|layout={layout}|kind={}", self.prefix, if fields.len() < n { "missing" } else { "extra" }), format!("struct {name}: expected fields {want:?}, got {got:?}"));
                    return;
                }
                for (i, ef) in efs.iter().enumerate() {
                    let f = &fields[i];
                    let posc = if i == 0 { "first" } else if i + 1 == n { "last" } else { "mid" };
                    // the name of a group member is the generator's choice; groups are matched by position
                    if ef.group.is_none() && f.name != ef.name {
                        let got: Vec<&str> = fields.iter().map(|f| f.name.as_str()).collect();
                        let want: Vec<&str> = efs.iter().map(|e| e.name.as_str()).collect();
                        let reordered = {
                            let mut a = got.clone();
                            let mut b2 = want.clone();
                            a.sort();
                            b2.sort();
                            a == b2
                        };
                        self.d(format!("{}|ctx={ctx}|container={cname}|layout={layout}|kind={}", self.prefix, if reordered { "reordered" } else { "name" }), format!("struct {name}: expected fields {want:?}, got {got:?}"));
                        return;
                    }
                    // extension attributes
                    if self.check_ext {
                        let got_add = f.attrs.rasn.has("extension_addition");
                        let got_grp = f.attrs.rasn.has("extension_addition_group");
                        let (want_add, want_grp) = (ef.ext && ef.group.is_none(), ef.group.is_some());
                        if got_add != want_add || got_grp != want_grp {
                            self.d(
                                format!("{}|kind={cname}|ctx={ctx}|layout={layout}|pos={i}|member={}|exp=add:{want_add},grp:{want_grp}|got=add:{got_add},grp:{got_grp}", self.prefix, if ef.group.is_some() { "group" } else { "comp" }),
                                format!("struct {name} field {}: extension attributes", f.name),
                            );
                        }
                    }
                    if let Some(g) = ef.group {
                        // Option<GroupStruct>
                        match strip(&f.ty, "Option<") {
                            None => {
                                if self.check_ext {
                                    self.d(format!("{}|kind={cname}|ctx={ctx}|group-member-not-optional", self.prefix), format!("struct {name} field {}: type {}", f.name, f.ty));
                                }
                            }
                            Some(inner) => {
                                let inner = inner.to_string();
                                let gb = Ty::Seq(Body { items: g.iter().cloned().map(BItem::C).collect(), marker_trailing_comma: false });
                                if self.m.find(&inner).is_none() {
                                    self.d(format!("{}|kind={cname}|ctx={ctx}|group-struct-missing", self.prefix), format!("group struct `{inner}` not found"));
                                } else {
                                    // the group struct is an ordinary struct of its members.  A version group is not a type notation:
                                    // EXTENSIBILITY IMPLIED does not make it extensible (it would put an extension bit inside the group)
                                    if self.check_ext {
                                        if let Some(Item::Struct { attrs, .. }) = self.m.find(&inner) {
                                            if attrs.non_exhaustive {
                                                self.d(format!("{}|kind={cname}|ctx={ctx}|group-struct-extensible|implied={}", self.prefix, self.implied), format!("group struct `{inner}` is #[non_exhaustive]"));
                                            }
                                        }
                                    }
                                    let saved = self.check_ext;
                                    self.check_ext = false;
                                    self.visited.insert(inner.clone());
                                    self.item(&inner, &gb, &format!("{ctx}>group"));
                                    self.check_ext = saved;
                                }
                            }
                        }
                        continue;
                    }
                    let c = ef.comp.unwrap();
                    let key_c = format!("{}|ctx={ctx}|container={cname}|n={}|pos={posc}|comp={}|opt={:?}", self.prefix, n.min(5), c.ty.kind(), c.opt);
                    // optionality
                    let (inner_ty, is_opt) = match strip(&f.ty, "Option<") {
                        Some(i) => (i.to_string(), true),
                        None => (f.ty.clone(), false),
                    };
                    let has_default = f.attrs.rasn.has("default");
                    if self.check_shape {
                        match c.opt {
                            Opt::Req => {
                                if is_opt || has_default {
                                    self.d(format!("{key_c}|kind=option|got=opt:{is_opt},default:{has_default}"), format!("struct {name} field {}: {}", f.name, f.ty));
                                }
                            }
                            Opt::Optional => {
                                if !is_opt || has_default {
                                    self.d(format!("{key_c}|kind=option|got=opt:{is_opt},default:{has_default}"), format!("struct {name} field {}: {}", f.name, f.ty));
                                }
                            }
                            Opt::Default => {
                                if is_opt || !has_default {
                                    self.d(format!("{key_c}|kind=default|got=opt:{is_opt},default:{has_default}"), format!("struct {name} field {}: {}", f.name, f.ty));
                                } else {
                                    let fname = f.attrs.rasn.lit("default").unwrap_or_default();
                                    if !matches!(self.m.find(&fname), Some(Item::Fn { .. })) {
                                        self.d(format!("{key_c}|kind=default-fn-missing"), format!("default fn `{fname}` not found"));
                                    }
                                }
                            }
                        }
                    }
                    self.ty(&c.ty, &inner_ty, &format!("{ctx}>{cname}"), false);
                }
            }
            Ty::Choice(b) => {
                let (variants, attrs) = match &it {
                    Item::Enum { variants, attrs, .. } => (variants.clone(), attrs.clone()),
                    _ => {
                        self.d(format!("{}|ctx={ctx}|container=CHOICE|kind=item-kind", self.prefix), format!("{name} is not an enum"));
                        return;
                    }
                };
                if self.check_shape && !attrs.rasn.has("choice") {
                    self.d(format!("{}|ctx={ctx}|container=CHOICE|kind=no-choice-attr", self.prefix), format!("enum {name}"));
                }
                if self.check_ext {
                    let want = b.has_marker() || self.implied;
                    if attrs.non_exhaustive != want {
                        self.d(format!("{}|kind=CHOICE|ctx={ctx}|non_exhaustive|marker={}|implied={}|got={}", self.prefix, b.has_marker(), self.implied, attrs.non_exhaustive), format!("enum {name}"));
                    }
                }
                let mut evs: Vec<(&Comp, bool)> = vec![];
                let mut after = false;
                for i in &b.items {
                    match i {
                        BItem::Marker => after = true,
                        BItem::C(c) => evs.push((c, after)),
                        BItem::Group(_, g) => evs.extend(g.iter().map(|c| (c, true))),
                    }
                }
                let n = evs.len();
                let layout: String = b.items.iter().map(|i| match i { BItem::C(_) => 'c', BItem::Marker => '.', BItem::Group(_, g) => char::from_digit(g.len() as u32, 10).unwrap_or('g') }).collect();
                let got_names: Vec<&str> = variants.iter().map(|v| v.name.as_str()).collect();
                let want_names: Vec<&str> = evs.iter().map(|e| e.0.name.as_str()).collect();
                if got_names != want_names {
                    let kind = if got_names.len() < n {
                        "missing"
                    } else if got_names.len() > n {
                        "extra"
                    } else {
                        let mut a = got_names.clone();
                        let mut b2 = want_names.clone();
                        a.sort();
                        b2.sort();
                        if a == b2 { "reordered" } else { "name" }
                    };
                    self.d(format!("{}|ctx={ctx}|container=CHOICE|layout={layout}|kind={kind}", self.prefix), format!("enum {name}: expected variants {want_names:?}, got {got_names:?}"));
                    return;
                }
                for (i, (c, ext)) in evs.iter().enumerate() {
                    let v = &variants[i];
                    if self.check_ext {
                        let got_add = v.attrs.rasn.has("extension_addition");
                        if got_add != *ext || v.attrs.rasn.has("extension_addition_group") {
                            self.d(format!("{}|kind=CHOICE|ctx={ctx}|layout={layout}|pos={i}|exp=add:{ext}|got=add:{got_add}", self.prefix), format!("enum {name} variant {}", v.name));
                        }
                    }
                    match &v.payload {
                        None => self.d(format!("{}|ctx={ctx}|container=CHOICE|comp={}|kind=no-payload", self.prefix, c.ty.kind()), format!("variant {} has no payload", v.name)),
                        Some(p) => {
                            let p = p.clone();
                            self.ty(&c.ty, &p, &format!("{ctx}>CHOICE"), false)
                        }
                    }
                }
            }
            _ => unreachable!(),
        }
    }

    /// every struct/enum of the module must have been reached from the model (nothing extra), and the
    /// Box placement must break exactly the reference cycles
    pub fn finish(&mut self, allow: &[&str]) {
        let mut extra = vec![];
        for it in self.m.types() {
            let n = it.name();
            if !self.visited.contains(&n) && !allow.contains(&n.as_str()) {
                extra.push(n);
            }
        }
        if !extra.is_empty() && self.check_shape {
            self.d(format!("{}|kind=extra-items|n={}", self.prefix, extra.len().min(3)), format!("items not accounted for by the model: {extra:?}"));
        }
        if self.check_shape {
            // graph of by-value containment
            let mut edges: BTreeMap<String, Vec<(String, bool)>> = BTreeMap::new(); // item -> (target, boxed)
            for it in self.m.types() {
                let mut tys: Vec<String> = vec![];
                match it {
                    Item::Struct { fields, tuple, .. } => {
                        tys.extend(fields.iter().map(|f| f.ty.clone()));
                        if let Some(t) = tuple {
                            tys.extend(t.iter().cloned());
                        }
                    }
                    Item::Enum { variants, .. } => tys.extend(variants.iter().filter_map(|v| v.payload.clone())),
                    _ => {}
                }
                let e = edges.entry(it.name()).or_default();
                for t in tys {
                    let t = strip(&t, "Option<").unwrap_or(&t).to_string();
                    if t.starts_with("SequenceOf<") || t.starts_with("SetOf<") || t.starts_with("Vec<") {
                        continue;
                    }
                    if let Some(inner) = strip(&t, "Box<") {
                        e.push((inner.to_string(), true));
                    } else {
                        e.push((t, false));
                    }
                }
            }
            let reach = |from: &str, to: &str, by_value_only: bool| -> bool {
                let mut seen = BTreeSet::new();
                let mut stack = vec![from.to_string()];
                while let Some(x) = stack.pop() {
                    if let Some(es) = edges.get(&x) {
                        for (t, boxed) in es {
                            if by_value_only && *boxed {
                                continue;
                            }
                            if t == to {
                                return true;
                            }
                            if seen.insert(t.clone()) {
                                stack.push(t.clone());
                            }
                        }
                    }
                }
                false
            };
            let names: Vec<String> = edges.keys().cloned().collect();
            for n in &names {
                if reach(n, n, true) {
                    self.d(format!("{}|kind=box|unbroken-cycle", self.prefix), format!("item {n} contains itself by value (infinite size)"));
                    break;
                }
            }
            for (n, es) in edges.clone() {
                for (t, boxed) in es {
                    if boxed && !(t == n || reach(&t, &n, false)) {
                        self.d(format!("{}|kind=box|gratuitous", self.prefix), format!("{n} boxes {t} although {t} cannot reach {n}"));
                    }
                }
            }
        }
    }
}
