//! C15 — permitted-alphabet annotations denote exactly the FROM constraint.
use crate::common::*;
use crate::driver::*;
use crate::proj::*;
use serde::{Deserialize, Serialize};

pub struct C15;

/// operand: index into the per-type operand table
#[derive(Clone, Serialize, Deserialize, PartialEq, Debug)]
pub struct Expr {
    pub operands: Vec<usize>,
    pub ops: Vec<char>, // U I E
}

#[derive(Clone, Serialize, Deserialize)]
pub struct Case {
    /// Numeric | Printable | Visible | IA5 | BMP | Universal | UTF8 | Teletex | T61 | Graphic | General
    pub ty: String,
    /// 1..2 serial FROM constraints
    pub cons: Vec<Expr>,
    /// none | before | after | inter   (SIZE (1..4) placement; inter = `FROM (..) ^ SIZE (..)` in one constraint)
    pub size: String,
    /// assign | component | include (operand 0 of cons[0] replaced by a reference to P ::= ty (FROM (operand))) | parent (P ::= ty (FROM cons[0]); A ::= P (FROM cons[1]))
    pub ctx: String,
    /// how the size is written: "" = `SIZE (1..4)`; fixed = `SIZE (4)`; fixed-ext = `SIZE (4, ...)`; range-ext = `SIZE (1..4, ...)`; open = `SIZE (2..MAX)`
    #[serde(default)]
    pub size_form: String,
}

// ------------------------------------------------------------- interval sets over code points
type Set = Vec<(u32, u32)>;
fn norm(mut v: Set) -> Set {
    v.retain(|(a, b)| a <= b);
    v.sort();
    let mut out: Set = vec![];
    for (a, b) in v {
        if let Some(l) = out.last_mut() {
            if a <= l.1.saturating_add(1) {
                l.1 = l.1.max(b);
                continue;
            }
        }
        out.push((a, b));
    }
    out
}
fn union(a: &Set, b: &Set) -> Set {
    let mut v = a.clone();
    v.extend(b.iter().cloned());
    norm(v)
}
fn inter(a: &Set, b: &Set) -> Set {
    let mut out = vec![];
    for (x1, y1) in a {
        for (x2, y2) in b {
            let lo = *x1.max(x2);
            let hi = *y1.min(y2);
            if lo <= hi {
                out.push((lo, hi));
            }
        }
    }
    norm(out)
}
fn diff(a: &Set, b: &Set) -> Set {
    let mut cur = a.clone();
    for (x2, y2) in b {
        let mut next = vec![];
        for (x1, y1) in cur {
            if *y2 < x1 || *x2 > y1 {
                next.push((x1, y1));
            } else {
                if x1 < *x2 {
                    next.push((x1, x2 - 1));
                }
                if y1 > *y2 {
                    next.push((y2 + 1, y1));
                }
            }
        }
        cur = next;
    }
    norm(cur)
}
fn size(a: &Set) -> u64 {
    a.iter().map(|(x, y)| (*y - *x + 1) as u64).sum()
}
fn subset(a: &Set, b: &Set) -> bool {
    diff(a, b).is_empty()
}
fn show(a: &Set) -> String {
    let mut s = String::new();
    for (x, y) in a.iter().take(12) {
        if x == y {
            s += &format!("U+{x:X} ");
        } else {
            s += &format!("U+{x:X}..U+{y:X} ");
        }
    }
    if a.len() > 12 {
        s += "…";
    }
    s
}

pub fn base(ty: &str) -> Option<Set> {
    Some(norm(match ty {
        "Numeric" => vec![(0x20, 0x20), (0x30, 0x39)],
        "Printable" => {
            let mut v: Set = vec![(0x41, 0x5A), (0x61, 0x7A), (0x30, 0x39)];
            for c in " '()+,-./:=?".chars() {
                v.push((c as u32, c as u32));
            }
            v
        }
        "Visible" => vec![(0x20, 0x7E)],
        "IA5" => vec![(0, 0x7F)],
        "BMP" => vec![(0, 0xD7FF), (0xE000, 0xFFFF)],
        "Universal" => vec![(0, 0xD7FF), (0xE000, 0x10FFFF)],
        _ => return None,
    }))
}
fn asn_name(ty: &str) -> &'static str {
    match ty {
        "Numeric" => "NumericString",
        "Printable" => "PrintableString",
        "Visible" => "VisibleString",
        "IA5" => "IA5String",
        "BMP" => "BMPString",
        "Universal" => "UniversalString",
        "UTF8" => "UTF8String",
        "Teletex" => "TeletexString",
        "T61" => "T61String",
        "Graphic" => "GraphicString",
        _ => "GeneralString",
    }
}
fn pool(ty: &str) -> [char; 6] {
    match ty {
        "Numeric" => [' ', '0', '3', '5', '8', '9'],
        "Printable" => [' ', '+', '5', 'A', 'a', 'z'],
        "BMP" => [' ', 'A', 'z', 'é', '€', '\u{FFFD}'],
        "Universal" => [' ', 'A', 'z', 'é', '€', '𝄞'],
        _ => [' ', '0', 'A', 'a', 'z', '~'],
    }
}

#[derive(Clone, Debug)]
pub enum Opnd {
    Str(Vec<char>),
    Range(Option<char>, Option<char>),
}
pub fn operands(ty: &str) -> Vec<Opnd> {
    let p = pool(ty);
    vec![
        Opnd::Str(vec![p[1]]),
        Opnd::Str(vec![p[0], p[2]]),
        Opnd::Str(vec![p[1], p[3], p[5]]),
        Opnd::Str(vec![p[5], p[4], p[3], p[2], p[1], p[0]]),
        Opnd::Range(Some(p[0]), Some(p[5])),
        Opnd::Range(Some(p[1]), Some(p[2])),
        Opnd::Range(Some(p[2]), Some(p[4])),
        Opnd::Range(Some(p[3]), Some(p[3])),
        Opnd::Range(None, Some(p[2])),
        Opnd::Range(Some(p[3]), None),
        // index 10 (used only by the `foreign` family): a string with one character outside the type's alphabet
        Opnd::Str(vec![p[1], foreign_char(ty), p[2]]),
    ]
}
/// a character that is not in the alphabet of the (restricted) type
pub fn foreign_char(ty: &str) -> char {
    match ty {
        "Numeric" => 'a',
        "Printable" => '@',
        "BMP" => '\u{1F600}',
        _ => '\u{e9}', // Visible / IA5; UniversalString has no foreign characters
    }
}
fn opnd_set(o: &Opnd, b: &Set) -> Set {
    match o {
        Opnd::Str(cs) => norm(cs.iter().map(|c| (*c as u32, *c as u32)).collect()),
        Opnd::Range(lo, hi) => {
            let l = lo.map(|c| c as u32).unwrap_or(b.first().map(|x| x.0).unwrap_or(0));
            let h = hi.map(|c| c as u32).unwrap_or(b.last().map(|x| x.1).unwrap_or(0x10FFFF));
            inter(&vec![(l, h)], b)
        }
    }
}
fn cstr(c: char) -> String {
    if c == '"' { "\"\"".into() } else { c.to_string() }
}
fn opnd_text(o: &Opnd) -> String {
    match o {
        Opnd::Str(cs) => format!("\"{}\"", cs.iter().map(|c| cstr(*c)).collect::<String>()),
        Opnd::Range(lo, hi) => format!("{}..{}", lo.map_or("MIN".into(), |c| format!("\"{}\"", cstr(c))), hi.map_or("MAX".into(), |c| format!("\"{}\"", cstr(c)))),
    }
}

fn expr_text(e: &Expr, ops: &[Opnd], first_override: Option<&str>) -> String {
    let mut s = String::new();
    for (i, o) in e.operands.iter().enumerate() {
        if i > 0 {
            s += match e.ops[i - 1] {
                'U' => " | ",
                'I' => " ^ ",
                _ => " EXCEPT ",
            };
        }
        if i == 0 {
            if let Some(f) = first_override {
                s += f;
                continue;
            }
        }
        s += &opnd_text(&ops[*o]);
    }
    s
}

pub fn text(c: &Case) -> String {
    let ops = operands(&c.ty);
    let t = asn_name(&c.ty);
    let size = match c.size_form.as_str() {
        "fixed" => "SIZE (4)",
        "fixed-ext" => "SIZE (4, ...)",
        "range-ext" => "SIZE (1..4, ...)",
        "open" => "SIZE (2..MAX)",
        _ => "SIZE (1..4)",
    };
    let from = |e: &Expr, fo: Option<&str>| format!("FROM ({})", expr_text(e, &ops, fo));
    let mut pre = String::new();
    let cons_text = |first_override: Option<&str>| -> String {
        let mut s = String::new();
        if c.size == "before" {
            s += &format!("({size}) ");
        }
        if c.size == "inter" {
            s += &format!("({} ^ {size})", from(&c.cons[0], first_override));
        } else if c.size == "inter-rev" {
            s += &format!("({size} ^ {})", from(&c.cons[0], first_override));
        } else if c.size == "no-from" {
            // the operands as a plain value constraint: no FROM anywhere, hence no permitted alphabet
            s += &format!("({})", expr_text(&c.cons[0], &ops, first_override));
        } else if c.size == "split" {
            // the same expression with one FROM per operand: (FROM (a) | FROM (b))
            let e = &c.cons[0];
            let mut t = String::new();
            for (i, o) in e.operands.iter().enumerate() {
                if i > 0 {
                    t += match e.ops[i - 1] {
                        'U' => " | ",
                        'I' => " ^ ",
                        _ => " EXCEPT ",
                    };
                }
                t += &format!("FROM ({})", opnd_text(&ops[*o]));
            }
            s += &format!("({t})");
        } else {
            s += &format!("({})", from(&c.cons[0], first_override));
        }
        if c.cons.len() > 1 && c.ctx != "parent" {
            s += &format!(" ({})", from(&c.cons[1], None));
        }
        if c.size == "after" {
            s += &format!(" ({size})");
        }
        s
    };
    let body = match c.ctx.as_str() {
        "assign" => format!("A ::= {t} {}", cons_text(None)),
        "component" => format!("S ::= SEQUENCE {{ f {t} {} }}", cons_text(None)),
        "include" => {
            pre = format!("P ::= {t} (FROM ({}))\n", opnd_text(&ops[c.cons[0].operands[0]]));
            format!("A ::= {t} {}", cons_text(Some("P")))
        }
        // the included type sorts before the including one (the order in which the inclusion is resolved), written in
        // three ways: FROM alone, SIZE then FROM as separate constraints, FROM then SIZE
        x if x.starts_with("include-rev") => {
            let f = format!("(FROM ({}))", opnd_text(&ops[c.cons[0].operands[0]]));
            let base = match x {
                "include-rev-size-first" => format!("(SIZE (1..4)) {f}"),
                "include-rev-size-last" => format!("{f} (SIZE (1..4))"),
                _ => f,
            };
            pre = format!("Aa ::= {t} {base}\n");
            format!("Zz ::= {t} {}", cons_text(Some("Aa")))
        }
        // another string type with the textually identical FROM constraint, written (and sorting) before the type under test
        x if x.starts_with("decoy:") => {
            let f = format!("(FROM ({}))", expr_text(&c.cons[0], &ops, None));
            pre = format!("Aa ::= {} {f}\n", asn_name(&x[6..]));
            format!("Zz ::= {t} {f}")
        }
        "parent" => {
            pre = format!("P ::= {t} ({})\n", from(&c.cons[0], None));
            format!("A ::= P ({})", from(&c.cons[1], None))
        }
        _ => unreachable!(),
    };
    module("M", "AUTOMATIC", false, &format!("{pre}{body}"))
}

#[derive(Clone, Debug)]
enum T {
    L(usize),
    N(char, Box<T>, Box<T>),
}
fn correct_tree(ops: &[char]) -> Option<T> {
    let n = ops.len() + 1;
    let mut units: Vec<T> = vec![];
    let mut unit_ops: Vec<char> = vec![];
    let mut i = 0;
    while i < n {
        if i < ops.len() && ops[i] == 'E' {
            if i + 1 < ops.len() && ops[i + 1] == 'E' {
                return None;
            }
            units.push(T::N('E', Box::new(T::L(i)), Box::new(T::L(i + 1))));
            if i + 1 < ops.len() {
                unit_ops.push(ops[i + 1]);
            }
            i += 2;
        } else {
            units.push(T::L(i));
            if i < ops.len() {
                unit_ops.push(ops[i]);
            }
            i += 1;
        }
    }
    let mut chains: Vec<T> = vec![];
    let mut cur = units[0].clone();
    for (k, op) in unit_ops.iter().enumerate() {
        if *op == 'I' {
            cur = T::N('I', Box::new(cur), Box::new(units[k + 1].clone()));
        } else {
            chains.push(cur);
            cur = units[k + 1].clone();
        }
    }
    chains.push(cur);
    let mut t = chains[0].clone();
    for c in chains.iter().skip(1) {
        t = T::N('U', Box::new(t), Box::new(c.clone()));
    }
    Some(t)
}
fn eval(t: &T, sets: &[Set], ignore_except: bool) -> Set {
    match t {
        T::L(i) => sets[*i].clone(),
        T::N('U', a, b) => union(&eval(a, sets, ignore_except), &eval(b, sets, ignore_except)),
        T::N('I', a, b) => inter(&eval(a, sets, ignore_except), &eval(b, sets, ignore_except)),
        T::N(_, a, b) => {
            if ignore_except {
                eval(a, sets, ignore_except)
            } else {
                diff(&eval(a, sets, ignore_except), &eval(b, sets, ignore_except))
            }
        }
    }
}

/// parse `from("…","a..=b")` payload into a code point set
pub fn parse_from(v: &str) -> Option<Set> {
    // split on commas outside string literals
    let mut parts = vec![];
    let mut cur = String::new();
    let mut in_str = false;
    let mut esc = false;
    for ch in v.chars() {
        if in_str {
            cur.push(ch);
            if esc {
                esc = false;
            } else if ch == '\\' {
                esc = true;
            } else if ch == '"' {
                in_str = false;
            }
        } else if ch == '"' {
            in_str = true;
            cur.push(ch);
        } else if ch == ',' {
            parts.push(std::mem::take(&mut cur));
        } else {
            cur.push(ch);
        }
    }
    if !cur.is_empty() {
        parts.push(cur);
    }
    let mut set: Set = vec![];
    for p in parts {
        let s = unquote(p.trim())?;
        let cs: Vec<char> = s.chars().collect();
        if cs.len() == 1 {
            set.push((cs[0] as u32, cs[0] as u32));
        } else if let Some(pos) = s.find("..=") {
            let a: Vec<char> = s[..pos].chars().collect();
            let b: Vec<char> = s[pos + 3..].chars().collect();
            if a.len() > 1 || b.len() > 1 {
                return None;
            }
            let (lo, hi) = (a.first().map_or(0, |c| *c as u32), b.first().map_or(0x10FFFF, |c| *c as u32));
            // a range of Rust chars never contains surrogate code points
            if lo < 0xD800 && hi > 0xDFFF {
                set.push((lo, 0xD7FF));
                set.push((0xE000, hi));
            } else {
                set.push((lo, hi));
            }
        } else {
            return None;
        }
    }
    Some(norm(set))
}

impl Prop for C15 {
    type Case = Case;
    fn id(&self) -> &'static str {
        "C15"
    }
    fn rule(&self) -> String {
        "FROM expressions of 1..2 operands (thorough: 3 for IA5String and PrintableString) over a per-type table of 10 operands (4 strings of length 1,2,3,6 and 6 ranges incl. MIN/MAX ends, touching the first/last character of the type's alphabet, multi-byte characters for BMP/Universal, and places where PrintableString table order != code order) joined by | ^ EXCEPT; × SIZE absent/before/after/intersected × {assignment, component, inclusion of another constrained string type as operand, constrained parent reference} × the six known-multiplier types; two serial FROM constraints; the same expressions on UTF8String/TeletexString/T61String/GraphicString/GeneralString (must give no `from`). Oracle: code-point interval sets; emitted from(...) entries expanded to a set must equal the exact set (with EXCEPT anything between exact and EXCEPT-ignored), every character within the base alphabet; non-known-multiplier ⇒ no from. Non-trivial: compiled cleanly and an annotation (or its required absence) was compared.".into()
    }
    fn selftest(&self) -> Result<u64, String> {
        // interval algebra vs brute force on a 40-point universe
        let mut n = 0;
        let pts: Vec<Set> = (0u32..40).step_by(7).flat_map(|a| (a..40).step_by(9).map(move |b| vec![(a, b)])).collect();
        let mem = |s: &Set, x: u32| s.iter().any(|(a, b)| *a <= x && x <= *b);
        for a in &pts {
            for b in &pts {
                n += 1;
                let (u, i, d) = (union(a, b), inter(a, b), diff(a, b));
                for x in 0..45 {
                    if mem(&u, x) != (mem(a, x) || mem(b, x)) || mem(&i, x) != (mem(a, x) && mem(b, x)) || mem(&d, x) != (mem(a, x) && !mem(b, x)) {
                        return Err(format!("interval algebra at {a:?} {b:?} x={x}"));
                    }
                }
            }
        }
        if parse_from("\"\\u{61}\",\"\\u{62}..=\\u{63}\"") != Some(vec![(0x61, 0x63)]) {
            return Err(format!("parse_from: {:?}", parse_from("\"\\u{61}\",\"\\u{62}..=\\u{63}\"")));
        }
        if size(&base("Printable").unwrap()) != 74 || size(&base("Numeric").unwrap()) != 11 {
            return Err("base alphabets".into());
        }
        Ok(n)
    }
    fn enumerate(&self, tier: Tier, _seed: u64) -> Vec<Case> {
        let km = ["IA5", "Printable", "Visible", "Numeric", "BMP", "Universal"];
        let others = ["UTF8", "Teletex", "T61", "Graphic", "General"];
        let mut e1: Vec<Expr> = (0..10).map(|a| Expr { operands: vec![a], ops: vec![] }).collect();
        let mut e2 = vec![];
        for a in 0..10 {
            for b in 0..10 {
                for op in ['U', 'I', 'E'] {
                    e2.push(Expr { operands: vec![a, b], ops: vec![op] });
                }
            }
        }
        let mut out = vec![];
        for ty in km {
            let heavy = false; // (BMP / Universal were ~50 ms per case until the lookup-error formatting was repaired upstream)
            for e in e1.iter().chain(e2.iter()) {
                if heavy && !tier.thorough() && e.ops.first().map_or(false, |o| *o != 'U') {
                    continue;
                }
                for size in ["none", "before", "after"] {
                    for ctx in ["assign", "component"] {
                        out.push(Case { ty: ty.into(), cons: vec![e.clone()], size: size.into(), ctx: ctx.into(), size_form: String::new() });
                    }
                }
            }
            // SIZE and FROM combined by a set operator (either order), and one FROM per operand
            for e in e1.iter().chain(e2.iter()) {
                if heavy && !tier.thorough() && !e.ops.is_empty() {
                    continue;
                }
                for ctx in ["assign", "component"] {
                    out.push(Case { ty: ty.into(), cons: vec![e.clone()], size: "inter".into(), ctx: ctx.into(), size_form: String::new() });
                    out.push(Case { ty: ty.into(), cons: vec![e.clone()], size: "inter-rev".into(), ctx: ctx.into(), size_form: String::new() });
                    if !e.ops.is_empty() {
                        out.push(Case { ty: ty.into(), cons: vec![e.clone()], size: "split".into(), ctx: ctx.into(), size_form: String::new() });
                    }
                }
            }
            // the size written in other ways (fixed, with a marker inside, open): every expression intersected with it in
            // either order as an assignment, the single operands also next to it as a serial constraint and as component
            for form in ["fixed", "fixed-ext", "range-ext", "open"] {
                for e in e1.iter().chain(e2.iter()) {
                    if !tier.thorough() && e.operands.len() == 2 && (e.operands[0] + e.operands[1]) % 3 != 0 {
                        continue;
                    }
                    for size in ["inter", "inter-rev"] {
                        out.push(Case { ty: ty.into(), cons: vec![e.clone()], size: size.into(), ctx: "assign".into(), size_form: form.into() });
                    }
                }
                for e in e1.iter() {
                    for size in ["before", "after", "inter", "inter-rev"] {
                        out.push(Case { ty: ty.into(), cons: vec![e.clone()], size: size.into(), ctx: "component".into(), size_form: form.into() });
                    }
                }
            }
            // a neighbour of another string type carrying the textually identical constraint (generated first): the annotation
            // of a type depends on its own type only
            for decoy in ["IA5", "BMP", "UTF8"] {
                if decoy == ty || (decoy == "IA5" && matches!(ty, "BMP" | "Universal")) {
                    continue;
                }
                for e in e1.iter() {
                    out.push(Case { ty: ty.into(), cons: vec![e.clone()], size: "none".into(), ctx: format!("decoy:{decoy}"), size_form: String::new() });
                }
            }
            // string values as a value constraint, without FROM: single strings and unions of strings (operands 0..3)
            for e in e1.iter().chain(e2.iter()) {
                if e.operands.iter().all(|o| *o < 4) && e.ops.iter().all(|o| *o == 'U') {
                    for ctx in ["assign", "component"] {
                        out.push(Case { ty: ty.into(), cons: vec![e.clone()], size: "no-from".into(), ctx: ctx.into(), size_form: String::new() });
                    }
                }
            }
            // a FROM string with a character outside the type's own alphabet: must be rejected, or at least never emitted
            if ty != "Universal" {
                for ctx in ["assign", "component"] {
                    for size in ["none", "before", "after", "inter", "inter-rev"] {
                        out.push(Case { ty: ty.into(), cons: vec![Expr { operands: vec![10], ops: vec![] }], size: size.into(), ctx: ctx.into(), size_form: String::new() });
                    }
                    for b in [0usize, 4, 8] {
                        for op in ['U', 'I'] {
                            out.push(Case { ty: ty.into(), cons: vec![Expr { operands: vec![10, b], ops: vec![op] }], size: "none".into(), ctx: ctx.into(), size_form: String::new() });
                            out.push(Case { ty: ty.into(), cons: vec![Expr { operands: vec![b, 10], ops: vec![op] }], size: "none".into(), ctx: ctx.into(), size_form: String::new() });
                        }
                    }
                }
            }
            // one witness row each for the constructions that are known not to work at all (see known_findings.txt)
            for e in e1.iter() {
                out.push(Case { ty: ty.into(), cons: vec![e.clone()], size: "none".into(), ctx: "include".into(), size_form: String::new() });
                for ctx in ["include-rev", "include-rev-size-first", "include-rev-size-last"] {
                    out.push(Case { ty: ty.into(), cons: vec![e.clone()], size: "none".into(), ctx: ctx.into(), size_form: String::new() });
                }
            }
            // serial / parent: 1-operand × 1-operand
            if !heavy || tier.thorough() {
                for a in &e1 {
                    for b in &e1 {
                        out.push(Case { ty: ty.into(), cons: vec![a.clone(), b.clone()], size: "none".into(), ctx: "assign".into(), size_form: String::new() });
                        out.push(Case { ty: ty.into(), cons: vec![a.clone(), b.clone()], size: "none".into(), ctx: "parent".into(), size_form: String::new() });
                    }
                }
            }
        }
        for ty in others {
            for e in e1.iter().chain(e2.iter().filter(|e| e.operands[0] < 4 && e.operands[1] < 4)) {
                for ctx in ["assign", "component"] {
                    out.push(Case { ty: ty.into(), cons: vec![e.clone()], size: "none".into(), ctx: ctx.into(), size_form: String::new() });
                }
            }
            // ... next to a known-multiplier neighbour with the identical constraint: still no alphabet annotation
            for decoy in ["IA5", "BMP"] {
                for e in e1.iter() {
                    out.push(Case { ty: ty.into(), cons: vec![e.clone()], size: "none".into(), ctx: format!("decoy:{decoy}"), size_form: String::new() });
                }
            }
        }
        if !tier.thorough() {
            // a slice of the three-operand space in the quick tier: string operands only, every operator pair, IA5String
            for a in 0..4 {
                for b in 0..4 {
                    for c3 in 0..4 {
                        for o1 in ['U', 'I', 'E'] {
                            for o2 in ['U', 'I', 'E'] {
                                if (o1 == 'E' && o2 == 'E') || a == b || b == c3 {
                                    continue;
                                }
                                out.push(Case { ty: "IA5".into(), cons: vec![Expr { operands: vec![a, b, c3], ops: vec![o1, o2] }], size: "none".into(), ctx: "assign".into(), size_form: String::new() });
                            }
                        }
                    }
                }
            }
        }
        if tier.thorough() {
            for ty in ["IA5", "Printable"] {
                for a in 0..10 {
                    for b in 0..10 {
                        for c3 in 0..10 {
                            for o1 in ['U', 'I', 'E'] {
                                for o2 in ['U', 'I', 'E'] {
                                    if o1 == 'E' && o2 == 'E' {
                                        continue;
                                    }
                                    out.push(Case { ty: ty.into(), cons: vec![Expr { operands: vec![a, b, c3], ops: vec![o1, o2] }], size: "none".into(), ctx: "assign".into(), size_form: String::new() });
                                }
                            }
                        }
                    }
                }
            }
        }
        e1.clear();
        out
    }
    fn check(&self, c: &Case) -> CaseResult {
        let ops = operands(&c.ty);
        let b = base(&c.ty);
        let src = text(c);
        let shape = |e: &Expr| -> String {
            let mut s = String::new();
            for (i, o) in e.operands.iter().enumerate() {
                if i > 0 {
                    s.push(e.ops[i - 1]);
                }
                s.push(match ops[*o] {
                    Opnd::Str(_) => 's',
                    Opnd::Range(None, _) => 'l',
                    Opnd::Range(_, None) => 'h',
                    Opnd::Range(_, _) => 'r',
                });
            }
            s
        };
        let shapes: String = c.cons.iter().map(shape).collect::<Vec<_>>().join(";");
        // (the way the size is written rides on the context label, so that the per-(size placement, shape) entries of the known findings keep matching)
        let ctx_label = if c.size_form.is_empty() { c.ctx.clone() } else { format!("{}+size-as-{}", c.ctx, c.size_form) };
        let kb = format!("alphabet|type={}|ctx={ctx_label}|size={}|shape={shapes}", c.ty, c.size);
        // reference
        let (exact, noexc, blind) = match &b {
            Some(b) => {
                let mut ex = b.clone();
                let mut ne = b.clone();
                let mut bl: Set = vec![];
                for e in &c.cons {
                    let sets: Vec<Set> = e.operands.iter().map(|o| opnd_set(&ops[*o], b)).collect();
                    let t = match correct_tree(&e.ops) {
                        Some(t) => t,
                        None => return CaseResult::skip("invalid-notation"),
                    };
                    ex = inter(&ex, &eval(&t, &sets, false));
                    ne = inter(&ne, &eval(&t, &sets, true));
                    for s in &sets {
                        bl = union(&bl, s);
                    }
                }
                (ex, ne, bl)
            }
            None => (vec![], vec![], vec![]),
        };
        if b.is_some() && exact.is_empty() {
            return CaseResult::skip("empty-alphabet");
        }
        // operands must lie inside the base alphabet (pool is chosen that way) — sanity
        let o = compile1(&src);
        let foreign = c.cons.iter().any(|e| e.operands.contains(&10));
        if foreign {
            // the constraint is not a legal subtype of the base type: any rejection is fine; an annotation, if one is
            // emitted, must stay inside the base alphabet
            return match &o {
                Outcome::Panic { message, location } => CaseResult { discs: vec![Disc::new(format!("panic|{location}"), format!("{message}\n{src}"))], nontrivial: false, outcome: "panic".into(), skipped: None },
                Outcome::Ok { generated, warnings } if warnings.is_empty() => {
                    let mut discs = vec![];
                    if let (Some(b), Ok(p)) = (&b, project(generated)) {
                        let bad = p.only().map_or(false, |m| {
                            m.items.iter().any(|it| {
                                let mut attrs: Vec<&RasnAttr> = it.attrs().map(|a| vec![&a.rasn]).unwrap_or_default();
                                if let Item::Struct { fields, .. } = it {
                                    attrs.extend(fields.iter().map(|f| &f.attrs.rasn));
                                }
                                attrs.iter().any(|a| a.get("from").and_then(parse_from).map_or(false, |s| !subset(&s, b)))
                            })
                        });
                        if bad {
                            discs.push(Disc::new(format!("alphabet|foreign-char-emitted|type={}|ctx={}|size={}", c.ty, c.ctx, c.size), format!("a character outside the base alphabet reaches the annotation\n{src}\n--- generated ---\n{generated}")));
                        }
                    }
                    CaseResult { discs, nontrivial: true, outcome: "foreign:accepted".into(), skipped: None }
                }
                _ => CaseResult { discs: vec![], nontrivial: true, outcome: "foreign:rejected".into(), skipped: None },
            };
        }
        let gen = match &o {
            Outcome::Ok { generated, warnings } if warnings.is_empty() => generated.clone(),
            Outcome::Panic { message, location } => return CaseResult { discs: vec![Disc::new(format!("panic|{location}"), format!("{message}\n{src}"))], nontrivial: false, outcome: "panic".into(), skipped: None },
            other => {
                let why = if other.brief().contains("is not in char set") { ":char-not-in-table" } else { "" };
                return CaseResult { discs: vec![Disc::new(format!("{kb}|kind=rejected:{}{why}", other.class()), format!("well-formed FROM constraint not compiled cleanly: {}\n{src}", other.brief()))], nontrivial: false, outcome: other.class().into(), skipped: None };
            }
        };
        let p = match project(&gen) {
            Ok(p) => p,
            Err(e) => return CaseResult { discs: vec![Disc::new("alphabet|unparsable", format!("{e}\n{src}\n{gen}"))], nontrivial: false, outcome: "unparsable".into(), skipped: None },
        };
        let m = match p.only() {
            Some(m) => m,
            None => return CaseResult::skip("no-module"),
        };
        let full = format!("{src}\n--- generated ---\n{gen}");
        let attrs: Vec<&RasnAttr> = match c.ctx.as_str() {
            "component" => match m.find("S") {
                Some(Item::Struct { fields, .. }) if fields.len() == 1 => vec![&fields[0].attrs.rasn],
                _ => vec![],
            },
            "parent" => {
                let mut v = vec![];
                for n in ["A", "P"] {
                    if let Some(a) = m.find(n).and_then(|i| i.attrs()) {
                        v.push(&a.rasn);
                    }
                }
                if v.len() != 2 {
                    v.clear();
                }
                v
            }
            x if x.starts_with("include-rev") || x.starts_with("decoy:") => m.find("Zz").and_then(|i| i.attrs()).map(|a| vec![&a.rasn]).unwrap_or_default(),
            _ => m.find("A").and_then(|i| i.attrs()).map(|a| vec![&a.rasn]).unwrap_or_default(),
        };
        if attrs.is_empty() {
            return CaseResult { discs: vec![Disc::new(format!("{kb}|kind=missing-item"), full)], nontrivial: false, outcome: "missing".into(), skipped: None };
        }
        let mut discs = vec![];
        // bogus value() bound on a string type
        if attrs.iter().any(|a| a.has("value")) {
            discs.push(Disc::new(format!("alphabet|bogus-value-bound|ctx={}|known-multiplier={}", c.ctx, b.is_some()), format!("a character string carries a value(..) bound\n{full}")));
        }
        if c.size == "no-from" {
            // a value constraint is not a permitted-alphabet constraint (and not PER-visible): no alphabet annotation
            if attrs.iter().any(|a| a.has("from")) {
                discs.push(Disc::new(format!("alphabet|value-constraint-without-FROM|ctx={}|kind=unexpected-from", c.ctx), format!("a string value constraint (no FROM) yields a permitted-alphabet annotation\n{full}")));
            }
            return CaseResult { discs, nontrivial: true, outcome: "ok:no-from".into(), skipped: None };
        }
        let b = match b {
            None => {
                if attrs.iter().any(|a| a.has("from")) {
                    discs.push(Disc::new(format!("alphabet|type={}|kind=unexpected-from", c.ty), full));
                }
                return CaseResult { discs, nontrivial: true, outcome: "ok:non-km".into(), skipped: None };
            }
            Some(b) => b,
        };
        // emitted set: intersection over the carriers (A wraps P in the parent context); absent = whole base
        let mut got = b.clone();
        let mut any_from = false;
        let mut raw_outside = false;
        for a in &attrs {
            if a.count("from") > 1 {
                discs.push(Disc::new(format!("{kb}|kind=duplicate-from"), full.clone()));
            }
            if let Some(v) = a.get("from") {
                any_from = true;
                match parse_from(v) {
                    None => {
                        discs.push(Disc::new(format!("{kb}|kind=unparsable-from"), format!("`{v}`\n{full}")));
                        return CaseResult { discs, nontrivial: false, outcome: "unparsable-from".into(), skipped: None };
                    }
                    Some(s) => {
                        if !subset(&s, &b) {
                            raw_outside = true;
                        }
                        got = inter(&got, &s);
                    }
                }
            }
        }
        let has_except = c.cons.iter().any(|e| e.ops.contains(&'E'));
        let ok = if has_except { subset(&exact, &got) && subset(&got, &noexc) } else { got == exact };
        if !ok {
            let excludes = !subset(&exact, &got);
            let opsu: String = c.cons.iter().map(|e| e.ops.iter().collect::<String>()).collect::<Vec<_>>().join(";");
            let blind_match = any_from && got == inter(&blind, &b);
            let key = if blind_match && c.cons.len() == 1 && c.ctx != "include" && (opsu.contains('I') || opsu.contains('E')) {
                format!("alphabet|operator-blind|ops={opsu}")
            } else if blind_match && c.cons.len() == 2 && c.ctx == "assign" {
                "alphabet|serial-union".to_string()
            } else {
                // BMPString / UniversalString: the compiler's table ends at U+FFFE (known); say whether the difference is
                // exactly that, so that any other difference on these types has a key of its own
                let wide = c.ty == "BMP" || c.ty == "Universal";
                let (missing, extra) = (diff(&exact, &got), diff(&got, if has_except { &noexc } else { &exact }));
                let beyond: Set = vec![(0xFFFF, 0x10FFFF)];
                let _ = &extra;
                let whr = if !wide || !excludes { "" } else if subset(&missing, &beyond) { "|where=beyond-U+FFFE" } else { "|where=below-U+FFFF" };
                format!("{kb}|kind={}{whr}", if excludes { "missing-char" } else { "extra-char" })
            };
            discs.push(Disc::new(key, format!("expected {} ({} chars) got {} ({} chars){}\n{full}", show(&exact), size(&exact), show(&got), size(&got), if excludes { " — EXCLUDES permitted characters" } else { "" })));
        }
        if raw_outside {
            discs.push(Disc::new(format!("alphabet|outside-base|type={}", c.ty), format!("an emitted from() entry denotes characters outside the base alphabet of the type\n{full}")));
        }
        CaseResult { discs, nontrivial: true, outcome: format!("ok:{}:{}", c.ty, c.ctx), skipped: None }
    }
}
