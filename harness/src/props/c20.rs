//! C20 — compile() delivers exactly the compiled text, and nothing on failure.
use crate::common::*;
use crate::driver::*;
use rasn_compiler::prelude::*;
use rasn_compiler::OutputMode;
use serde::{Deserialize, Serialize};
use std::collections::BTreeMap;
use std::path::{Path, PathBuf};
use std::process::{Command, Stdio};
use std::sync::atomic::{AtomicU64, Ordering};

pub struct C20;

#[derive(Clone, Serialize, Deserialize, Debug)]
pub struct Step {
    /// ok | warn | err | unreadable
    pub input: String,
    /// literal | path | iter | mix | cli-m | cli-d
    pub source: String,
}

#[derive(Clone, Serialize, Deserialize, Debug)]
pub struct Case {
    pub steps: Vec<Step>,
    /// file | dir | stdout | none | deprecated | cli-default
    pub mode: String,
    /// absent | existing | readonly-file | readonly-dir | missing-parent | parent-is-file | dev-full (write fails with ENOSPC)
    pub dest: String,
    /// rasn | ts
    pub backend: String,
    /// lib | cli
    pub via: String,
}

/// what a child process is asked to do (library operation)
#[derive(Serialize, Deserialize)]
pub struct Op {
    pub literals: Vec<String>,
    pub paths: Vec<String>,
    pub iter_paths: Vec<String>,
    pub mode: String,
    pub out: String,
    pub backend: String,
    /// position of the set_output_* call among the add_* calls (None = after all of them)
    #[serde(default)]
    pub out_pos: Option<usize>,
    /// the builder is created for the *other* backend, the output mode is set first, then `with_backend`
    /// switches to `backend` before the sources are added
    #[serde(default)]
    pub swap_backend: bool,
    /// the output mode is set first while `out` does not exist; `out` is created as a directory before the
    /// sources are added (what counts is the destination as it is when compile() runs)
    #[serde(default)]
    pub late_dir: bool,
}

pub fn child_main(json: &str) {
    let op: Op = serde_json::from_str(json).expect("op json");
    install_panic_hook();
    fn run<B: Backend>(op: &Op) -> Result<Vec<CompilerError>, CompilerError> {
        // the builder is a type-state machine: sources and the output mode can be given in any order
        enum St<B: Backend> {
            Missing(Compiler<B, CompilerMissingParams>),
            Sources(Compiler<B, CompilerSourcesSet>),
            Output(Compiler<B, CompilerOutputSet>),
            Ready(Compiler<B, CompilerReady>),
        }
        enum Act {
            Lit(String),
            Path(String),
            Iter(Vec<String>),
            Out,
        }
        let mut acts: Vec<Act> = vec![];
        for l in &op.literals {
            acts.push(Act::Lit(l.clone()));
        }
        for p in &op.paths {
            acts.push(Act::Path(p.clone()));
        }
        if !op.iter_paths.is_empty() {
            acts.push(Act::Iter(op.iter_paths.clone()));
        }
        let terminal_only = matches!(op.mode.as_str(), "to-string");
        if !terminal_only {
            let pos = op.out_pos.unwrap_or(acts.len()).min(acts.len());
            acts.insert(pos, Act::Out);
        }
        let mode = || match op.mode.as_str() {
            "stdout" => OutputMode::Stdout,
            "none" => OutputMode::NoOutput,
            _ => OutputMode::SingleFile(PathBuf::from(&op.out)),
        };
        let mut st: St<B> = St::Missing(Compiler::<B, _>::new());
        for a in acts {
            st = match (st, a) {
                (St::Missing(c), Act::Lit(l)) => St::Sources(c.add_asn_literal(l)),
                (St::Missing(c), Act::Path(p)) => St::Sources(c.add_asn_by_path(p)),
                (St::Missing(c), Act::Iter(v)) => St::Sources(c.add_asn_sources_by_path(v.into_iter())),
                (St::Sources(c), Act::Lit(l)) => St::Sources(c.add_asn_literal(l)),
                (St::Sources(c), Act::Path(p)) => St::Sources(c.add_asn_by_path(p)),
                (St::Sources(c), Act::Iter(v)) => St::Sources(c.add_asn_sources_by_path(v.into_iter())),
                (St::Output(c), Act::Lit(l)) => St::Ready(c.add_asn_literal(l)),
                (St::Output(c), Act::Path(p)) => St::Ready(c.add_asn_by_path(p)),
                (St::Output(c), Act::Iter(v)) => St::Ready(c.add_asn_sources_by_path(v.into_iter())),
                (St::Ready(c), Act::Lit(l)) => St::Ready(c.add_asn_literal(l)),
                (St::Ready(c), Act::Path(p)) => St::Ready(c.add_asn_by_path(p)),
                (St::Ready(c), Act::Iter(v)) => St::Ready(c.add_asn_sources_by_path(v.into_iter())),
                #[allow(deprecated)]
                (St::Missing(c), Act::Out) => St::Output(if op.mode == "deprecated" { c.set_output_path(PathBuf::from(&op.out)) } else { c.set_output_mode(mode()) }),
                #[allow(deprecated)]
                (St::Sources(c), Act::Out) => St::Ready(if op.mode == "deprecated" { c.set_output_path(PathBuf::from(&op.out)) } else { c.set_output_mode(mode()) }),
                (other, Act::Out) => other,
            };
        }
        match st {
            St::Ready(c) => c.compile(),
            // reference run in the child's own environment (formatter reachable or not): print compile_to_string()
            St::Sources(c) => c.compile_to_string().map(|r| {
                print!("{}", r.generated);
                r.warnings
            }),
            _ => panic!("no sources"),
        }
    }
    // the output mode given before anything else, then (a) the backend exchanged, (b) the destination created as a directory
    fn run_first<B0: Backend, B: Backend>(op: &Op) -> Result<Vec<CompilerError>, CompilerError> {
        let mode = match op.mode.as_str() {
            "stdout" => OutputMode::Stdout,
            "none" => OutputMode::NoOutput,
            _ => OutputMode::SingleFile(PathBuf::from(&op.out)),
        };
        #[allow(deprecated)]
        let c = if op.mode == "deprecated" { Compiler::<B0, _>::new().set_output_path(PathBuf::from(&op.out)) } else { Compiler::<B0, _>::new().set_output_mode(mode) };
        let c = c.with_backend(B::default());
        if op.late_dir {
            std::fs::create_dir_all(&op.out).expect("late directory");
        }
        let mut c = match (op.literals.first(), op.paths.first()) {
            (Some(l), _) => c.add_asn_literal(l.clone()),
            (None, Some(p)) => c.add_asn_by_path(p.clone()),
            _ => c.add_asn_sources_by_path(op.iter_paths.clone().into_iter()),
        };
        for l in op.literals.iter().skip(1) {
            c = c.add_asn_literal(l.clone());
        }
        for p in op.paths.iter().skip(if op.literals.is_empty() { 1 } else { 0 }) {
            c = c.add_asn_by_path(p.clone());
        }
        if !op.iter_paths.is_empty() && !(op.literals.is_empty() && op.paths.is_empty()) {
            c = c.add_asn_sources_by_path(op.iter_paths.clone().into_iter());
        }
        c.compile()
    }
    let r = guarded(|| match (op.swap_backend, op.late_dir, op.backend == "ts") {
        (true, _, true) => run_first::<RasnBackend, TypescriptBackend>(&op),
        (true, _, false) => run_first::<TypescriptBackend, RasnBackend>(&op),
        (false, true, true) => run_first::<TypescriptBackend, TypescriptBackend>(&op),
        (false, true, false) => run_first::<RasnBackend, RasnBackend>(&op),
        (false, false, true) => run::<TypescriptBackend>(&op),
        (false, false, false) => run::<RasnBackend>(&op),
    });
    match r {
        Ok(Ok(w)) => eprintln!("RESULT ok {}", w.len()),
        Ok(Err(e)) => {
            let kind = match &e {
                CompilerError::Lexer(_) => "Lexer".to_string(),
                CompilerError::Generator(g) => format!("Generator:{:?}", g.kind),
                CompilerError::Linker(_) => "Linker".into(),
                CompilerError::Grammar(_) => "Grammar".into(),
            };
            eprintln!("RESULT err {kind}")
        }
        Err((m, l)) => eprintln!("RESULT panic {l}: {m}"),
    }
}

const OK_A: &str = "Alpha DEFINITIONS AUTOMATIC TAGS ::= BEGIN\nA ::= SEQUENCE { a INTEGER (0..7), b BOOLEAN OPTIONAL }\nv INTEGER ::= 5\nEND\n";
const OK_B: &str = "Beta DEFINITIONS EXPLICIT TAGS ::= BEGIN\nB ::= CHOICE { x [0] NULL, y [1] UTF8String }\nEND\n";
const WARN: &str = "Warny DEFINITIONS AUTOMATIC TAGS ::= BEGIN\nW ::= REAL\nX ::= ENUMERATED { p, q }\nEND\n";
// bindings shorter than any output buffer and, unformatted, without a line break
const SMALL: &str = "S DEFINITIONS AUTOMATIC TAGS ::= BEGIN\nA ::= NULL\nEND\n";
const BAD: &str = "Broken DEFINITIONS AUTOMATIC TAGS ::= BEGIN\nA ::= SEQUENCE { a §§ }\nEND\n";

fn snapshot(dir: &Path) -> BTreeMap<String, (bool, Vec<u8>)> {
    let mut m = BTreeMap::new();
    fn walk(base: &Path, d: &Path, m: &mut BTreeMap<String, (bool, Vec<u8>)>) {
        if let Ok(rd) = std::fs::read_dir(d) {
            for e in rd.flatten() {
                let p = e.path();
                let rel = p.strip_prefix(base).unwrap().to_string_lossy().to_string();
                if p.is_dir() {
                    m.insert(rel, (true, vec![]));
                    walk(base, &p, m);
                } else {
                    m.insert(rel, (false, std::fs::read(&p).unwrap_or_default()));
                }
            }
        }
    }
    walk(dir, dir, &mut m);
    m
}

fn chmod(p: &Path, mode: u32) {
    use std::os::unix::fs::PermissionsExt;
    let _ = std::fs::set_permissions(p, std::fs::Permissions::from_mode(mode));
}

fn readonly_enforced() -> bool {
    static R: std::sync::OnceLock<bool> = std::sync::OnceLock::new();
    *R.get_or_init(readonly_probe)
}

fn readonly_probe() -> bool {
    // as root, permission bits are not enforced: the read-only rows cannot be realised
    let dir = format!("{}/.work/c20-probe-{}", verif_dir(), std::process::id());
    let _ = std::fs::create_dir_all(&dir);
    let f = format!("{dir}/ro");
    let _ = std::fs::write(&f, "x");
    chmod(Path::new(&f), 0o444);
    let enforced = std::fs::OpenOptions::new().write(true).open(&f).is_err();
    chmod(Path::new(&f), 0o644);
    let _ = std::fs::remove_dir_all(&dir);
    enforced
}

fn verif_dir() -> String {
    std::env::var("VERIF_DIR").unwrap_or_else(|_| "/verif".into())
}

fn cli_bin() -> String {
    format!("{}/target/cli/debug/rasn_compiler_cli", verif_dir())
}

static SEQ: AtomicU64 = AtomicU64::new(0);

// ------------------------------------------------------------------------------------------------ asn1! macro
// The macro clause of the property: `asn1!(text)` expands to the bindings the library returns for the same
// text (a text without BEGIN is an assignment list inside an AUTOMATIC TAGS module, as the macro documents) and
// fails to expand exactly when the library returns Err.  Both crates of /verif/macrocheck are expanded by rustc
// (-Zunpretty=expanded): `ma` invokes the macro, `mb` contains the library's text for the same input.

const MACRO_INPUTS: [(&str, &str, bool); 14] = [
    ("module", "Alpha DEFINITIONS AUTOMATIC TAGS ::= BEGIN\nA ::= SEQUENCE { a INTEGER (0..7), b BOOLEAN OPTIONAL }\nv INTEGER ::= 5\nEND\n", true),
    ("module-explicit", "Beta DEFINITIONS EXPLICIT TAGS ::= BEGIN\nB ::= CHOICE { x [0] NULL, y [1] UTF8String }\nC ::= SEQUENCE { c [5] B }\nEND\n", true),
    ("fragment", "A ::= SEQUENCE { a INTEGER (0..7), b BOOLEAN OPTIONAL }\nE ::= ENUMERATED { p, q-r }\nv INTEGER ::= 5", true),
    ("fragment-untagged-choice", "C ::= CHOICE { x NULL, y BOOLEAN }\nS ::= SEQUENCE { c C, d SEQUENCE OF C }", true),
    ("fragment-warn", "W ::= REAL\nX ::= ENUMERATED { p, q }", true),
    ("two-modules", "Alpha DEFINITIONS AUTOMATIC TAGS ::= BEGIN\nA ::= BOOLEAN\nEND\nBeta DEFINITIONS IMPLICIT TAGS ::= BEGIN\nB ::= [1] NULL\nEND\n", true),
    ("err-module", "Broken DEFINITIONS AUTOMATIC TAGS ::= BEGIN\nA ::= SEQUENCE { a \u{a7}\u{a7} }\nEND\n", false),
    ("err-fragment", "A ::= SEQUENCE { a INTEGER,, }", false),
    // bare snippets that merely mention BEGIN, and snippets whose last lexical item touches the wrapper's END
    ("fragment-comment-begin", "-- BEGIN of the types\nFoo ::= INTEGER (0..7)\n", true),
    ("fragment-begin-in-name", "BEGINNER ::= BOOLEAN\nS ::= SEQUENCE { b BEGINNER }\n", true),
    ("fragment-begin-in-string", "kw UTF8String ::= \"BEGIN\"\n", true),
    ("fragment-ends-in-reference", "Foo ::= INTEGER (0..7) Bar ::= Foo", true),
    ("fragment-ends-in-comment", "Foo ::= INTEGER (0..7) -- the foo", true),
    ("fragment-ends-in-valuereference", "foo INTEGER ::= 5 bar INTEGER ::= foo", true),
];

fn macro_literal(text: &str) -> String {
    // what the macro documents: a text without a module header is wrapped into a dummy AUTOMATIC TAGS module.
    // The reference does not guess from the spelling: a text is a module when the library reads it as one (or when it
    // names DEFINITIONS at all, for the malformed modules); everything else is a list of assignments, which is
    // separated from the wrapper's END by white-space (X.680 12.1.3).
    let as_is = matches!(compile_rasn(&[text.to_string()], &Cfg::default()), Outcome::Ok { .. });
    if as_is || text.split(|c: char| !(c.is_alphanumeric() || c == '-')).any(|w| w == "DEFINITIONS") {
        text.to_string()
    } else {
        format!("asn1 {{ dummy(999) header(999) }}\n\nDEFINITIONS AUTOMATIC TAGS::= BEGIN\n{text}\nEND")
    }
}

fn macro_results() -> &'static std::sync::Mutex<BTreeMap<String, String>> {
    static R: std::sync::OnceLock<std::sync::Mutex<BTreeMap<String, String>>> = std::sync::OnceLock::new();
    R.get_or_init(|| std::sync::Mutex::new(BTreeMap::new()))
}

fn cargo_in(dir: &str, args: &[&str]) -> Result<(bool, String, String), String> {
    let out = Command::new("cargo").args(args).current_dir(dir).env("RUSTC_BOOTSTRAP", "1").env("CARGO_NET_OFFLINE", "true").stdout(Stdio::piped()).stderr(Stdio::piped()).output().map_err(|e| format!("cannot run cargo: {e}"))?;
    Ok((out.status.success(), String::from_utf8_lossy(&out.stdout).to_string(), String::from_utf8_lossy(&out.stderr).to_string()))
}

/// text of `pub mod <name> { ... }` (brace matched) inside a pretty-printed expansion, whitespace removed
fn module_block(expanded: &str, name: &str) -> Option<String> {
    let start = expanded.find(&format!("pub mod {name} {{"))?;
    let mut depth = 0i32;
    for (i, ch) in expanded[start..].char_indices() {
        match ch {
            '{' => depth += 1,
            '}' => {
                depth -= 1;
                if depth == 0 {
                    // the macro runs where rustfmt may be available, the harness where it is not: formatting is not
                    // part of the property, so neutralise what rustfmt changes (order of use lines, trailing commas)
                    let block = &expanded[start..start + i + 1];
                    let mut lines: Vec<&str> = block.lines().collect();
                    let mut k = 0;
                    while k < lines.len() {
                        if lines[k].trim_start().starts_with("use ") {
                            let mut e = k;
                            while e < lines.len() && lines[e].trim_start().starts_with("use ") {
                                e += 1;
                            }
                            lines[k..e].sort_by_key(|l| l.trim().to_string());
                            k = e;
                        } else {
                            k += 1;
                        }
                    }
                    let flat: String = lines.join("\n").chars().filter(|c| !c.is_whitespace()).collect();
                    return Some(flat.replace(",)", ")").replace(",]", "]").replace(",}", "}"));
                }
            }
            _ => {}
        }
    }
    None
}

/// runs the whole macro family once; result per input name: "same" | "differs:<detail>" | "failed-as-expected" | ...
fn macro_batch() -> Result<(), String> {
    let root = format!("{}/macrocheck", verif_dir());
    let mut ma = String::from("#![allow(warnings)]\n");
    let mut mb = String::from("#![allow(warnings)]\n");
    let mut lib_ok: BTreeMap<String, bool> = BTreeMap::new();
    for (name, text, _) in MACRO_INPUTS.iter() {
        let k = name.replace('-', "_");
        let lib = compile_rasn(&[macro_literal(text)], &Cfg::default());
        let ok = matches!(lib, Outcome::Ok { .. });
        lib_ok.insert(name.to_string(), ok);
        if let Outcome::Ok { generated, .. } = lib {
            ma += &format!("pub mod {k} {{ rasn_compiler_derive::asn1!(r####\"{text}\"####); }}\n");
            mb += &format!("pub mod {k} {{ {generated} }}\n");
        }
    }
    std::fs::write(format!("{root}/ma/src/lib.rs"), &ma).map_err(|e| e.to_string())?;
    std::fs::write(format!("{root}/mb/src/lib.rs"), &mb).map_err(|e| e.to_string())?;
    let (oka, ea, erra) = cargo_in(&root, &["rustc", "-p", "ma", "--offline", "--lib", "--", "-Zunpretty=expanded"])?;
    let (okb, eb, errb) = cargo_in(&root, &["rustc", "-p", "mb", "--offline", "--lib", "--", "-Zunpretty=expanded"])?;
    if !okb {
        return Err(format!("the library's text does not expand (machinery or C01 matter): {}", errb.chars().rev().take(600).collect::<String>().chars().rev().collect::<String>()));
    }
    let mut map = macro_results().lock().unwrap();
    for (name, _, _) in MACRO_INPUTS.iter() {
        if !lib_ok[*name] {
            continue;
        }
        let k = name.replace('-', "_");
        let r = if !oka {
            format!("macro-failed:{}", erra.lines().filter(|l| l.contains("error")).take(2).collect::<Vec<_>>().join(" / "))
        } else {
            match (module_block(&ea, &k), module_block(&eb, &k)) {
                (Some(a), Some(b)) if a == b => "same".to_string(),
                (Some(a), Some(b)) => {
                    let pos = a.chars().zip(b.chars()).position(|(x, y)| x != y).unwrap_or(a.len().min(b.len()));
                    format!("differs:at {pos}: macro `{}` library `{}`", a.chars().skip(pos.saturating_sub(60)).take(160).collect::<String>(), b.chars().skip(pos.saturating_sub(60)).take(160).collect::<String>())
                }
                _ => "missing-module-in-expansion".to_string(),
            }
        };
        map.insert(name.to_string(), r);
    }
    // inputs the library rejects: the macro must fail to expand (one crate build per input); how it fails — a panic of the
    // proc macro or a compile_error! at the invocation — is not the property's subject, only that the build fails there
    for (name, text, _) in MACRO_INPUTS.iter() {
        if lib_ok[*name] {
            continue;
        }
        std::fs::write(format!("{root}/ma/src/lib.rs"), format!("#![allow(warnings)]\npub mod k {{ rasn_compiler_derive::asn1!(r####\"{text}\"####); }}\n")).map_err(|e| e.to_string())?;
        let (ok, _, err) = cargo_in(&root, &["check", "-p", "ma", "--offline"])?;
        let r = if ok { "expanded-although-library-errs".to_string() } else if err.contains("proc macro panicked") || err.contains("proc-macro") || (err.contains("error") && err.contains("src/lib.rs")) { "failed-as-expected".to_string() } else { format!("failed-otherwise:{}", err.lines().filter(|l| l.contains("error")).take(2).collect::<Vec<_>>().join(" / ")) };
        map.insert(name.to_string(), r);
    }
    // leave compiling stubs behind
    let _ = std::fs::write(format!("{root}/ma/src/lib.rs"), "#![allow(warnings)]\n");
    let _ = std::fs::write(format!("{root}/mb/src/lib.rs"), "#![allow(warnings)]\n");
    Ok(())
}

impl Prop for C20 {
    type Case = Case;
    fn id(&self) -> &'static str {
        "C20"
    }
    fn rule(&self) -> String {
        "complete matrix: input outcome {Ok, Ok-with-warnings, lexer Err, unreadable source path, Ok with bindings smaller than any buffer and without line break} × output mode {file path with/without extension, existing directory with/without a dot in its name, Stdout, NoOutput, deprecated set_output_path} × destination state {absent, existing file with other content, read-only file, read-only directory, missing parent directory, parent is a regular file, /dev/full (open succeeds, write fails), standard output redirected to /dev/full} × backend {rasn, typescript} × source kind {literal, single path, path iterator, literal+path mix}; two-step histories (Ok then Err, Err then Ok, Ok then Ok-other) on the same destination; the same matrix through the rasn_compiler_cli binary built from the working tree with -m (several files), -d (recursive directory with .asn, .asn1, other extensions, nested directories, a directory whose own name ends in .asn), -o, --stdout, --no-output and the default output. Every operation runs in a child process inside a private sandbox directory; stdout is captured; the directory tree is snapshotted before and after. Oracle (sem::delivery): delivered bytes = compile_to_string().generated of the same sources; directory ⇒ generated.<ext> inside; on Err the tree is unchanged and stdout empty; unwritable destination ⇒ Err(Generator(IO)), never a panic; CLI exit status 0 ⇔ library Ok. Non-trivial: the operation ran and its effects were compared.".into()
    }
    fn assumptions(&self) -> Vec<String> {
        vec![format!("read-only destinations enforced in this environment: {} (as root they are not; those rows are then reported as not realisable)", readonly_enforced())]
    }
    fn selftest(&self) -> Result<u64, String> {
        // build the CLI from the current working tree
        let out = Command::new("cargo")
            .args(["build", "-p", "rasn-compiler", "--features", "cli", "--offline", "--target-dir"])
            .arg(format!("{}/target/cli", verif_dir()))
            .current_dir(repo_dir())
            .env("CARGO_NET_OFFLINE", "true")
            .stdout(Stdio::piped())
            .stderr(Stdio::piped())
            .output()
            .map_err(|e| format!("cannot run cargo: {e}"))?;
        if !out.status.success() || !Path::new(&cli_bin()).exists() {
            return Err(format!("CLI build failed: {}", String::from_utf8_lossy(&out.stderr).chars().rev().take(600).collect::<String>().chars().rev().collect::<String>()));
        }
        Ok(1)
    }
    fn enumerate(&self, _tier: Tier, _seed: u64) -> Vec<Case> {
        let mut out = vec![];
        let inputs = ["ok", "warn", "err", "unreadable", "small"];
        let dests = ["absent", "existing", "existing-same-length", "readonly-file", "readonly-dir", "missing-parent", "parent-is-file", "dev-full"];
        for backend in ["rasn", "ts"] {
            for input in inputs {
                for source in ["literal", "path", "iter", "mix"] {
                    if input == "unreadable" && source == "literal" {
                        continue;
                    }
                    for mode in ["file", "dir", "deprecated", "file-noext", "dir-dotted"] {
                        for dest in dests {
                            if (mode == "file-noext" || mode == "dir-dotted") && !matches!(dest, "absent" | "existing" | "existing-same-length") {
                                continue;
                            }
                            if mode == "dir" && matches!(dest, "missing-parent" | "parent-is-file" | "dev-full") {
                                continue; // "existing directory" mode needs the directory
                            }
                            out.push(Case { steps: vec![Step { input: input.into(), source: source.into() }], mode: mode.into(), dest: dest.into(), backend: backend.into(), via: "lib".into() });
                        }
                    }
                    for mode in ["stdout", "none"] {
                        out.push(Case { steps: vec![Step { input: input.into(), source: source.into() }], mode: mode.into(), dest: "absent".into(), backend: backend.into(), via: "lib".into() });
                    }
                    // standard output that accepts no byte (/dev/full): an unwritable destination like any other
                    out.push(Case { steps: vec![Step { input: input.into(), source: source.into() }], mode: "stdout".into(), dest: "dev-full".into(), backend: backend.into(), via: "lib".into() });
                }
                // CLI
                for source in ["cli-m", "cli-d"] {
                    for mode in ["file", "dir", "stdout", "none", "cli-default", "file-noext", "dir-dotted"] {
                        for dest in dests {
                            if (mode == "file-noext" || mode == "dir-dotted") && !matches!(dest, "absent" | "existing" | "existing-same-length") {
                                continue;
                            }
                            if (mode == "stdout" || mode == "none") && dest != "absent" && !(mode == "stdout" && dest == "dev-full") {
                                continue;
                            }
                            if (mode == "dir" || mode == "cli-default") && matches!(dest, "missing-parent" | "parent-is-file" | "dev-full") {
                                continue;
                            }
                            out.push(Case { steps: vec![Step { input: input.into(), source: source.into() }], mode: mode.into(), dest: dest.into(), backend: backend.into(), via: "cli".into() });
                        }
                    }
                }
            }
            // (the asn1! macro family is appended after the backend loop)
            // two-step histories on one destination
            for (a, b) in [("ok", "err"), ("err", "ok"), ("ok", "warn"), ("warn", "unreadable"), ("unreadable", "ok")] {
                for mode in ["file", "dir"] {
                    for via in ["lib", "cli"] {
                        let src = if via == "cli" { "cli-m" } else { "path" };
                        out.push(Case { steps: vec![Step { input: a.into(), source: src.into() }, Step { input: b.into(), source: src.into() }], mode: mode.into(), dest: "absent".into(), backend: backend.into(), via: via.into() });
                    }
                }
            }
        }
        // builder call orders: the output mode set before / between the sources
        for backend in ["rasn", "ts"] {
            for input in ["ok", "warn", "err"] {
                for source in ["literal", "path", "mix", "iter-then-literal"] {
                    for k in [0usize, 1] {
                        for mode in ["file", "stdout", "deprecated"] {
                            out.push(Case { steps: vec![Step { input: input.into(), source: source.into() }], mode: mode.into(), dest: "absent".into(), backend: backend.into(), via: format!("lib@{k}") });
                        }
                    }
                }
            }
        }
        // the output mode given first, then the backend exchanged with `with_backend` (the file name inside a directory
        // follows the backend that compiles), or the destination created as a directory only afterwards
        for backend in ["rasn", "ts"] {
            for input in ["ok", "warn", "err", "small"] {
                for source in ["literal", "path", "mix"] {
                    for mode in ["file", "dir", "dir-dotted", "deprecated", "stdout"] {
                        out.push(Case { steps: vec![Step { input: input.into(), source: source.into() }], mode: mode.into(), dest: "absent".into(), backend: backend.into(), via: "lib-swap".into() });
                    }
                    for mode in ["late-dir", "late-dir-dotted"] {
                        out.push(Case { steps: vec![Step { input: input.into(), source: source.into() }], mode: mode.into(), dest: "absent".into(), backend: backend.into(), via: "lib-late".into() });
                        out.push(Case { steps: vec![Step { input: input.into(), source: source.into() }], mode: mode.into(), dest: "absent".into(), backend: backend.into(), via: "lib-swap-late".into() });
                    }
                }
            }
        }
        // formatter reachable: compile() must deliver what compile_to_string() returns in the same environment
        for backend in ["rasn", "ts"] {
            for input in ["ok", "warn"] {
                for mode in ["file", "dir", "stdout", "deprecated"] {
                    out.push(Case { steps: vec![Step { input: input.into(), source: "path".into() }], mode: mode.into(), dest: "absent".into(), backend: backend.into(), via: "lib-fmt".into() });
                }
                for mode in ["file", "dir", "stdout", "cli-default"] {
                    out.push(Case { steps: vec![Step { input: input.into(), source: "cli-m".into() }], mode: mode.into(), dest: "absent".into(), backend: backend.into(), via: "cli-fmt".into() });
                }
            }
        }
        for (name, _, _) in MACRO_INPUTS.iter() {
            out.push(Case { steps: vec![Step { input: name.to_string(), source: "macro".into() }], mode: "none".into(), dest: "absent".into(), backend: "rasn".into(), via: "macro".into() });
        }
        if let Err(e) = macro_batch() {
            eprintln!("MACHINERY: {e}");
            std::process::exit(2);
        }
        out
    }
    fn check(&self, c: &Case) -> CaseResult {
        if c.via == "macro" {
            let name = c.steps[0].input.clone();
            let mut r = macro_results().lock().unwrap().get(&name).cloned();
            if r.is_none() {
                // replay path
                if let Err(e) = macro_batch() {
                    return CaseResult { discs: vec![Disc::new("deliver|macro|machinery".to_string(), e)], nontrivial: false, outcome: "machinery".into(), skipped: None };
                }
                r = macro_results().lock().unwrap().get(&name).cloned();
            }
            let r = r.unwrap_or_else(|| "no-result".into());
            let expect_ok = MACRO_INPUTS.iter().find(|x| x.0 == name).map_or(true, |x| x.2);
            let good = if expect_ok { r == "same" } else { r == "failed-as-expected" };
            let mut discs = vec![];
            if !good {
                discs.push(Disc::new(format!("deliver|macro|input={name}|{}", r.split(':').next().unwrap_or("")), format!("asn1!({name}): {r}\n{}", MACRO_INPUTS.iter().find(|x| x.0 == name).map(|x| x.1).unwrap_or(""))));
            }
            return CaseResult { discs, nontrivial: true, outcome: format!("macro:{}", r.split(':').next().unwrap_or("")), skipped: None };
        }
        if c.dest.starts_with("readonly") && !readonly_enforced() {
            return CaseResult::skip("readonly-not-realisable-as-root");
        }
        let ext = if c.backend == "ts" { "ts" } else { "rs" };
        let root = PathBuf::from(format!("{}/.work/c20/{}-{}", verif_dir(), std::process::id(), SEQ.fetch_add(1, Ordering::SeqCst)));
        let _ = std::fs::remove_dir_all(&root);
        let inp = root.join("in");
        let outd = root.join(if c.mode == "dir-dotted" { "out.d" } else { "out" });
        std::fs::create_dir_all(inp.join("dir/sub/deeper")).unwrap();
        std::fs::create_dir_all(&outd).unwrap();
        let kb = format!("deliver|input={}|source={}|mode={}|dest={}|backend={}|via={}", c.steps.iter().map(|s| s.input.clone()).collect::<Vec<_>>().join(">"), c.steps[0].source, c.mode, c.dest, c.backend, c.via);
        let mut discs: Vec<Disc> = vec![];
        // "-fmt" variants: the same operations with a code formatter reachable the way the library looks for it
        let fmt_env = c.via.ends_with("-fmt");
        let cargo_home = std::env::var("VERIF_RUSTFMT_HOME").unwrap_or_else(|_| format!("{}/.cargo", std::env::var("HOME").unwrap_or_else(|_| "/root".into())));
        if fmt_env && !Path::new(&format!("{cargo_home}/bin/rustfmt")).exists() {
            return CaseResult::skip("rustfmt-not-available");
        }
        // destination
        let target_file: PathBuf; // where the bindings must end up on success
        let out_arg: PathBuf; // what is handed to the API / CLI
        match c.mode.as_str() {
            "file" | "deprecated" | "file-noext" => {
                let fname = if c.mode == "file-noext" { "gen" } else { "gen.out" };
                out_arg = match c.dest.as_str() {
                    "missing-parent" => outd.join("nope").join(fname),
                    "parent-is-file" => outd.join("bystander.txt").join(fname),
                    "dev-full" => PathBuf::from("/dev/full"),
                    _ => outd.join(fname),
                };
                target_file = out_arg.clone();
            }
            "dir" | "cli-default" | "dir-dotted" => {
                out_arg = outd.clone();
                target_file = outd.join(format!("generated.{ext}"));
            }
            "late-dir" | "late-dir-dotted" => {
                // does not exist while the builder is put together; the child creates it before compile()
                out_arg = outd.join(if c.mode == "late-dir" { "later" } else { "later.d" });
                target_file = out_arg.join(format!("generated.{ext}"));
            }
            _ => {
                out_arg = outd.join("unused");
                target_file = out_arg.clone();
            }
        }
        if matches!(c.dest.as_str(), "existing" | "readonly-file") {
            std::fs::write(&target_file, "OLD CONTENT\n").unwrap();
        }
        if c.dest == "existing-same-length" {
            // other content of exactly the length of the bindings about to be delivered (a size-keyed "up to date" test must not pass)
            let first: Vec<String> = match c.steps.first().map(|s| s.input.as_str()) {
                Some("ok") => vec![OK_A.into(), OK_B.into()],
                Some("warn") => vec![OK_A.into(), WARN.into()],
                Some("small") => vec![SMALL.into()],
                _ => vec![OK_A.into()],
            };
            let r = if c.backend == "ts" { compile_ts(&first) } else { compile_rasn(&first, &Cfg::default()) };
            let len = r.ok_any().map_or(12, |(g, _)| g.len());
            std::fs::write(&target_file, "#".repeat(len)).unwrap();
        }
        std::fs::write(outd.join("bystander.txt"), "bystander\n").unwrap();
        if c.dest == "readonly-file" {
            chmod(&target_file, 0o444);
        }
        if c.dest == "readonly-dir" {
            chmod(&outd, 0o555);
        }
        let unwritable = matches!(c.dest.as_str(), "readonly-file" | "readonly-dir" | "missing-parent" | "parent-is-file" | "dev-full") && !matches!(c.mode.as_str(), "stdout" | "none") || (c.mode == "stdout" && c.dest == "dev-full");
        let full_stdout = c.mode == "stdout" && c.dest == "dev-full";
        for (si, step) in c.steps.iter().enumerate() {
            // sources of this step
            let texts: Vec<&str> = match step.input.as_str() {
                "ok" => vec![OK_A, OK_B],
                "warn" => vec![OK_A, WARN],
                "err" => vec![OK_A, BAD],
                "small" => vec![SMALL],
                _ => vec![OK_A],
            };
            let sdir = inp.join(format!("s{si}"));
            std::fs::create_dir_all(sdir.join("dir/sub/deeper")).unwrap();
            let mut paths: Vec<String> = vec![];
            for (k, t) in texts.iter().enumerate() {
                let p = sdir.join(format!("m{k}.asn"));
                std::fs::write(&p, t).unwrap();
                paths.push(p.to_string_lossy().to_string());
            }
            if step.input == "unreadable" {
                paths.push(sdir.join("does-not-exist.asn").to_string_lossy().to_string());
            }
            // directory layout for -d
            std::fs::write(sdir.join("dir/a.asn"), texts[0]).unwrap();
            if texts.len() > 1 {
                std::fs::write(sdir.join("dir/sub/deeper/b.asn1"), texts[1]).unwrap();
            }
            std::fs::write(sdir.join("dir/sub/ignored.txt"), "this is §§ not ASN.1").unwrap();
            std::fs::write(sdir.join("dir/notes.asn.bak"), "neither is this").unwrap();
            // a directory whose name ends like a module file is searched, not read
            std::fs::create_dir_all(sdir.join("dir/sub/specs.asn")).unwrap();
            std::fs::write(sdir.join("dir/sub/specs.asn/readme.txt"), "no module here").unwrap();
            // reference text
            let lits: Vec<String> = texts.iter().map(|t| t.to_string()).collect();
            let reference = if c.backend == "ts" { compile_ts(&lits) } else { compile_rasn(&lits, &Cfg::default()) };
            let (mut exp_text, exp_ok) = match (&reference, step.input.as_str()) {
                (_, "unreadable") => (String::new(), false),
                (Outcome::Ok { generated, .. }, _) => (generated.clone(), true),
                _ => (String::new(), false),
            };
            if fmt_env && exp_ok {
                // with a formatter reachable the reference is what compile_to_string() returns in that very environment
                let rop = Op { literals: lits.clone(), paths: vec![], iter_paths: vec![], mode: "to-string".into(), out: String::new(), backend: c.backend.clone(), out_pos: None, swap_backend: false, late_dir: false };
                let exe = std::env::current_exe().unwrap();
                match Command::new(exe).arg("c20op").arg(serde_json::to_string(&rop).unwrap()).env("CARGO_HOME", &cargo_home).current_dir(&inp).stdin(Stdio::null()).output() {
                    Ok(o) if String::from_utf8_lossy(&o.stderr).lines().any(|l| l.starts_with("RESULT ok")) => exp_text = String::from_utf8_lossy(&o.stdout).to_string(),
                    other => return CaseResult { discs: vec![Disc::new("deliver|machinery".to_string(), format!("reference child failed: {other:?}"))], nontrivial: false, outcome: "spawn".into(), skipped: None },
                }
            }
            let before = snapshot(&outd);
            // run
            let (status_ok, stdout, result_line, panicked): (bool, Vec<u8>, String, bool);
            if c.via.starts_with("lib") {
                // "lib@k": the output mode is set before the k-th source is added (type-state builder, any call order)
                let out_pos = c.via.split_once('@').and_then(|(_, k)| k.parse::<usize>().ok());
                let mut op = Op { literals: vec![], paths: vec![], iter_paths: vec![], mode: c.mode.clone(), out: out_arg.to_string_lossy().to_string(), backend: c.backend.clone(), out_pos, swap_backend: c.via.contains("swap"), late_dir: c.via.contains("late") };
                match step.source.as_str() {
                    "literal" => op.literals = lits.clone(),
                    "path" => op.paths = paths.clone(),
                    "iter" => op.iter_paths = paths.clone(),
                    "iter-then-literal" => {
                        // actions are ordered literals, paths, iterator: put the *first* text last as an iterator of one
                        op.literals = lits[1..].to_vec();
                        op.iter_paths = vec![paths[0].clone()];
                    }
                    _ => {
                        op.literals = vec![lits[0].clone()];
                        op.paths = paths[1..].to_vec();
                    }
                }
                let exe = std::env::current_exe().unwrap();
                let mut ch = Command::new(exe);
                ch.arg("c20op").arg(serde_json::to_string(&op).unwrap()).current_dir(&outd).stdin(Stdio::null());
                if fmt_env {
                    ch.env("CARGO_HOME", &cargo_home);
                }
                if full_stdout {
                    ch.stdout(std::fs::OpenOptions::new().write(true).open("/dev/full").unwrap());
                }
                let o = ch.output();
                match o {
                    Ok(o) => {
                        let err = String::from_utf8_lossy(&o.stderr).to_string();
                        let line = err.lines().rev().find(|l| l.starts_with("RESULT")).unwrap_or("RESULT none").to_string();
                        panicked = line.starts_with("RESULT panic") || line == "RESULT none";
                        status_ok = line.starts_with("RESULT ok");
                        stdout = o.stdout;
                        result_line = line;
                    }
                    Err(e) => return CaseResult { discs: vec![Disc::new("deliver|machinery".to_string(), format!("cannot spawn child: {e}"))], nontrivial: false, outcome: "spawn".into(), skipped: None },
                }
            } else {
                let mut cmd = Command::new(cli_bin());
                cmd.current_dir(&outd).stdin(Stdio::null());
                if fmt_env {
                    cmd.env("CARGO_HOME", &cargo_home);
                }
                if step.source == "cli-d" && step.input != "unreadable" {
                    cmd.arg("-d").arg(sdir.join("dir"));
                } else if step.source == "cli-d" {
                    cmd.arg("-d").arg(sdir.join("dir")).arg("-m").arg(sdir.join("does-not-exist.asn"));
                } else {
                    cmd.arg("-m");
                    for p in &paths {
                        cmd.arg(p);
                    }
                }
                match c.mode.as_str() {
                    "file" | "dir" | "file-noext" | "dir-dotted" => {
                        cmd.arg("-o").arg(&out_arg);
                    }
                    "stdout" => {
                        cmd.arg("--stdout");
                    }
                    "none" => {
                        cmd.arg("--no-output");
                    }
                    _ => {}
                }
                cmd.arg("-b").arg(if c.backend == "ts" { "typescript" } else { "rasn" });
                if full_stdout {
                    cmd.stdout(std::fs::OpenOptions::new().write(true).open("/dev/full").unwrap());
                }
                match cmd.output() {
                    Ok(o) => {
                        let err = String::from_utf8_lossy(&o.stderr).to_string();
                        panicked = err.contains("panicked at") || o.status.code().is_none() || o.status.code() == Some(101);
                        status_ok = o.status.success();
                        stdout = o.stdout;
                        result_line = format!("exit {:?}: {}", o.status.code(), err.lines().last().unwrap_or(""));
                    }
                    Err(e) => return CaseResult { discs: vec![Disc::new("deliver|machinery".to_string(), format!("cannot run CLI: {e}"))], nontrivial: false, outcome: "spawn".into(), skipped: None },
                }
            }
            // restore permissions for inspection
            if c.dest == "readonly-dir" {
                chmod(&outd, 0o755);
            }
            let mut after = snapshot(&outd);
            if c.via.contains("late") {
                // the directory the child created on purpose before compile() is not a write of the compiler
                if let Ok(rel) = out_arg.strip_prefix(&outd) {
                    after.remove(&rel.to_string_lossy().to_string());
                }
            }
            if c.dest == "readonly-dir" && si + 1 < c.steps.len() {
                chmod(&outd, 0o555);
            }
            let ctx = format!("step {si} ({}/{}) via {} mode {} dest {} backend {}: {result_line}\nout arg: {}\nbefore: {:?}\nafter: {:?}", step.input, step.source, c.via, c.mode, c.dest, c.backend, out_arg.display(), before.keys().collect::<Vec<_>>(), after.keys().collect::<Vec<_>>());
            if panicked {
                discs.push(Disc::new(format!("{kb}|kind=panic"), ctx.clone()));
                continue;
            }
            let should_succeed = exp_ok && !unwritable;
            if status_ok != should_succeed {
                discs.push(Disc::new(format!("{kb}|kind=status|exp={should_succeed}|got={status_ok}"), ctx.clone()));
            }
            if exp_ok && unwritable && c.via.starts_with("lib") && !result_line.contains("Generator:IO") {
                discs.push(Disc::new(format!("{kb}|kind=error-kind"), format!("unwritable destination must be reported as Err(Generator(IO))\n{ctx}")));
            }
            let writes_file = matches!(c.mode.as_str(), "file" | "dir" | "deprecated" | "cli-default" | "file-noext" | "dir-dotted" | "late-dir" | "late-dir-dotted");
            if should_succeed && writes_file {
                // exactly the target file changed / appeared with exactly the expected text
                let rel = target_file.strip_prefix(&outd).unwrap().to_string_lossy().to_string();
                match after.get(&rel) {
                    Some((false, bytes)) if *bytes == exp_text.as_bytes() => {}
                    Some((false, bytes)) => discs.push(Disc::new(format!("{kb}|kind=content"), format!("delivered {} bytes, compile_to_string() gives {} bytes\n{ctx}", bytes.len(), exp_text.len()))),
                    _ => discs.push(Disc::new(format!("{kb}|kind=location"), format!("expected bindings at {rel}\n{ctx}"))),
                }
                for (k, v) in &after {
                    if *k != rel && before.get(k) != Some(v) {
                        discs.push(Disc::new(format!("{kb}|kind=extra-write"), format!("unexpected change of {k}\n{ctx}")));
                    }
                }
                for k in before.keys() {
                    if !after.contains_key(k) {
                        discs.push(Disc::new(format!("{kb}|kind=deleted"), format!("{k} disappeared\n{ctx}")));
                    }
                }
                if !stdout.is_empty() {
                    discs.push(Disc::new(format!("{kb}|kind=stdout-noise"), ctx.clone()));
                }
            } else {
                // nothing may be written or overwritten
                if before != after {
                    let changed: Vec<&String> = after.keys().filter(|k| before.get(*k) != after.get(*k)).chain(before.keys().filter(|k| !after.contains_key(*k))).collect();
                    discs.push(Disc::new(format!("{kb}|kind={}", if exp_ok { "wrote-despite-mode" } else { "wrote-on-err" }), format!("changed: {changed:?}\n{ctx}")));
                }
                if c.mode == "stdout" && should_succeed {
                    if stdout != exp_text.as_bytes() {
                        discs.push(Disc::new(format!("{kb}|kind=stdout-content"), format!("stdout {} bytes, expected {} bytes\n{ctx}", stdout.len(), exp_text.len())));
                    }
                } else if !stdout.is_empty() {
                    discs.push(Disc::new(format!("{kb}|kind=stdout-on-{}", if should_succeed { "nooutput" } else { "err" }), format!("{} bytes on stdout\n{ctx}", stdout.len())));
                }
            }
        }
        chmod(&outd, 0o755);
        if let Ok(md) = std::fs::metadata(&target_file) {
            if md.is_file() {
                chmod(&target_file, 0o644);
            }
        }
        let _ = std::fs::remove_dir_all(&root);
        CaseResult { discs, nontrivial: true, outcome: format!("{}:{}:{}", c.via, c.mode, c.steps.iter().map(|s| s.input.clone()).collect::<Vec<_>>().join(">")), skipped: None }
    }
}
