//! C06 — the chosen Rust integer type can hold every permitted value.
use crate::common::*;
use crate::driver::*;
use crate::proj::*;
use serde::{Deserialize, Serialize};

pub struct C06;

/// endpoint: None = MIN/MAX (open)
pub type End = Option<i128>;

#[derive(Clone, Serialize, Deserialize)]
#[serde(into = "CaseS", from = "CaseS")]
pub struct Case {
    /// constraints: list of (lo,hi) ranges; `form` says how they are combined
    pub ranges: Vec<(End, End)>,
    /// "single" | "serial" | "union"
    pub form: String,
    pub ext: bool,
    /// "assign" | "component" | "seqof" | "setof" | "choice" | "value" | "default" | "refvalue" | "optional" | "nested"
    pub ctx: String,
    /// literal for value/default contexts
    pub x: Option<i128>,
}

/// serialised mirror (JSON numbers cannot carry 2^100): integers as decimal strings, MIN/MAX as null
#[derive(Clone, Serialize, Deserialize)]
pub struct CaseS {
    pub ranges: Vec<(Option<String>, Option<String>)>,
    pub form: String,
    pub ext: bool,
    pub ctx: String,
    pub x: Option<String>,
}
impl From<Case> for CaseS {
    fn from(c: Case) -> Self {
        CaseS { ranges: c.ranges.iter().map(|(a, b)| (a.map(|v| v.to_string()), b.map(|v| v.to_string()))).collect(), form: c.form, ext: c.ext, ctx: c.ctx, x: c.x.map(|v| v.to_string()) }
    }
}
impl From<CaseS> for Case {
    fn from(c: CaseS) -> Self {
        let p = |s: &Option<String>| s.as_ref().and_then(|v| v.parse::<i128>().ok());
        Case { ranges: c.ranges.iter().map(|(a, b)| (p(a), p(b))).collect(), form: c.form, ext: c.ext, ctx: c.ctx, x: p(&c.x) }
    }
}

pub fn boundary_set() -> Vec<i128> {
    let mut v = vec![0i128, 1, -1];
    for k in [7u32, 8, 15, 16, 31, 32, 63, 64] {
        let p = 1i128 << k;
        v.extend([p - 1, p, p + 1, -p - 1, -p, -p + 1]);
    }
    v.sort();
    v.dedup();
    v
}

pub fn type_range(t: &str) -> Option<(End, End)> {
    Some(match t {
        "u8" => (Some(0), Some(u8::MAX as i128)),
        "u16" => (Some(0), Some(u16::MAX as i128)),
        "u32" => (Some(0), Some(u32::MAX as i128)),
        "u64" => (Some(0), Some(u64::MAX as i128)),
        "i8" => (Some(i8::MIN as i128), Some(i8::MAX as i128)),
        "i16" => (Some(i16::MIN as i128), Some(i16::MAX as i128)),
        "i32" => (Some(i32::MIN as i128), Some(i32::MAX as i128)),
        "i64" => (Some(i64::MIN as i128), Some(i64::MAX as i128)),
        "Integer" => (None, None),
        _ => return None,
    })
}

fn contains(t: (End, End), lo: End, hi: End) -> bool {
    let lo_ok = match (t.0, lo) {
        (None, _) => true,
        (Some(_), None) => false,
        (Some(a), Some(b)) => a <= b,
    };
    let hi_ok = match (t.1, hi) {
        (None, _) => true,
        (Some(_), None) => false,
        (Some(a), Some(b)) => a >= b,
    };
    lo_ok && hi_ok
}

fn cls(e: End, lower: bool) -> String {
    match e {
        None => if lower { "MIN".into() } else { "MAX".into() },
        Some(0) => "0".into(),
        Some(v) => {
            // name the boundary: sign, nearest power of two and offset
            let a = v.unsigned_abs();
            let sign = if v < 0 { "-" } else { "" };
            for k in [7u32, 8, 15, 16, 31, 32, 63, 64] {
                let p = 1u128 << k;
                if a == p { return format!("{sign}2^{k}"); }
                if a == p - 1 { return format!("{sign}(2^{k}-1)"); }
                if a == p + 1 { return format!("{sign}(2^{k}+1)"); }
            }
            format!("{v}")
        }
    }
}

fn show_end(e: End, lower: bool) -> String {
    match e {
        None => if lower { "MIN".into() } else { "MAX".into() },
        Some(v) => v.to_string(),
    }
}

fn constraint_text(c: &Case) -> String {
    let r = |(lo, hi): &(End, End)| {
        if lo.is_some() && lo == hi {
            show_end(*lo, true)
        } else {
            format!("{}..{}", show_end(*lo, true), show_end(*hi, false))
        }
    };
    let ext = if c.ext { ", ..." } else { "" };
    match c.form.as_str() {
        "single" => format!("({}{ext})", r(&c.ranges[0])),
        // the element in parentheses of its own (X.680 50.1: Elements ::= ... | "(" ElementSetSpec ")"): the same constraint
        "paren" => format!("(({}){ext})", r(&c.ranges[0])),
        // the same set written with excluded endpoints (X.680 51.4.2): `(l-1)<..h`, `l..<(h+1)`
        "open-lo" | "open-hi" | "open-both" => {
            let (l, h) = (c.ranges[0].0.unwrap(), c.ranges[0].1.unwrap());
            let lo = if c.form != "open-hi" { format!("{}<", l - 1) } else { l.to_string() };
            let hi = if c.form != "open-lo" { format!("<{}", h + 1) } else { h.to_string() };
            format!("({lo}..{hi}{ext})")
        }
        "serial" => format!("({})({}{ext})", r(&c.ranges[0]), r(&c.ranges[1])),
        "union" => format!("({}{ext})", c.ranges.iter().map(r).collect::<Vec<_>>().join(" | ")),
        // the second range is that of a referenced type, named as a contained subtype (`text` defines Pp)
        "union-ref-last" => format!("({} | Pp{ext})", r(&c.ranges[0])),
        "union-ref-first" => format!("(Pp | {}{ext})", r(&c.ranges[0])),
        _ => unreachable!(),
    }
}

/// permitted set hull (lo,hi) of the constraint
fn hull(c: &Case) -> (End, End) {
    match c.form.as_str() {
        "serial" => c.ranges[1], // second ⊆ first by construction
        _ => {
            let lo = if c.ranges.iter().any(|r| r.0.is_none()) { None } else { c.ranges.iter().map(|r| r.0.unwrap()).min() };
            let hi = if c.ranges.iter().any(|r| r.1.is_none()) { None } else { c.ranges.iter().map(|r| r.1.unwrap()).max() };
            (lo, hi)
        }
    }
}

pub fn text(c: &Case) -> String {
    let k = constraint_text(c);
    let body = match c.ctx.as_str() {
        "assign" => format!("A ::= INTEGER {k}"),
        "component" => format!("S ::= SEQUENCE {{ f INTEGER {k} }}"),
        "optional" => format!("S ::= SEQUENCE {{ f INTEGER {k} OPTIONAL }}"),
        "choice" => format!("S ::= CHOICE {{ f INTEGER {k} }}"),
        "nested" => format!("S ::= SEQUENCE {{ n SEQUENCE {{ f INTEGER {k} }} }}"),
        "seqof" => format!("L ::= SEQUENCE OF INTEGER {k}"),
        "setof" => format!("S ::= SEQUENCE {{ l SET OF INTEGER {k} }}"),
        "value" => format!("v INTEGER {k} ::= {}", c.x.unwrap()),
        "refvalue" => format!("A ::= INTEGER {k}\nv A ::= {}", c.x.unwrap()),
        "default" => format!("S ::= SEQUENCE {{ f INTEGER {k} DEFAULT {} }}", c.x.unwrap()),
        "refdefault" => format!("A ::= INTEGER {k}\nS ::= SEQUENCE {{ f A DEFAULT {} }}", c.x.unwrap()),
        // the literal is governed by a constrained reference to A (and one more alias): its form follows A's integer type
        "subrefvalue" => format!("A ::= INTEGER {k}\nPp ::= A ({x})\nQq ::= Pp\nv Qq ::= {x}", x = c.x.unwrap()),
        "subrefdefault" => format!("A ::= INTEGER {k}\nPp ::= A ({x})\nS ::= SEQUENCE {{ f Pp DEFAULT {x} }}", x = c.x.unwrap()),
        // the bounds are the actual parameters of a template whose dummy references are spelled like values of the module
        "template-instance" => {
            let (l, h) = (c.ranges[0].0.unwrap(), c.ranges[0].1.unwrap());
            format!("lo INTEGER ::= 1\nhi INTEGER ::= 10\nRng {{ INTEGER:lo, INTEGER:hi }} ::= INTEGER (lo..hi)\nA ::= Rng {{ {l}, {h} }}")
        }
        "template-instance-component" => {
            let (l, h) = (c.ranges[0].0.unwrap(), c.ranges[0].1.unwrap());
            format!("lo INTEGER ::= 1\nhi INTEGER ::= 10\nRng {{ INTEGER:lo, INTEGER:hi }} ::= SEQUENCE {{ f INTEGER (lo..hi) }}\nS ::= Rng {{ {l}, {h} }}")
        }
        _ => unreachable!(),
    };
    let body = if c.form.starts_with("union-ref") {
        let (l, h) = c.ranges[1];
        format!("Pp ::= INTEGER ({}..{})\n{body}", show_end(l, true), show_end(h, false))
    } else {
        body
    };
    module("M", "AUTOMATIC", false, &body)
}

/// parse the integer literal forms the templates emit: `5`, `-5`, `Integer::from(5i128)`, `A(…)`
pub fn eval_int(expr: &str) -> Option<(i128, Vec<String>)> {
    let mut e = expr.trim().to_string();
    let mut wrappers = vec![];
    loop {
        if let Some(inner) = e.strip_prefix("Integer::from(").and_then(|s| s.strip_suffix(')')) {
            wrappers.push("Integer::from".to_string());
            e = inner.to_string();
            continue;
        }
        if let Some(p) = e.find('(') {
            if e.ends_with(')') && e[..p].chars().all(|c| c.is_alphanumeric() || c == '_') && !e[..p].is_empty() {
                wrappers.push(e[..p].to_string());
                e = e[p + 1..e.len() - 1].to_string();
                continue;
            }
        }
        break;
    }
    let lit = e.trim_end_matches("i128").trim_end_matches("i64").trim_end_matches("u64");
    lit.parse::<i128>().ok().map(|v| (v, wrappers))
}

fn key(c: &Case, kind: &str, got: &str) -> String {
    let h = hull(c);
    format!("width|ctx={}|form={}|lo={}|hi={}|ext={}|kind={kind}|got={got}", c.ctx, c.form, cls(h.0, true), cls(h.1, false), c.ext)
}

impl Prop for C06 {
    type Case = Case;
    fn id(&self) -> &'static str {
        "C06"
    }
    fn rule(&self) -> String {
        "all (lo,hi), lo<=hi, over the 53-point boundary set {MIN,MAX,0,±1,±2^k,±2^k±1 | k∈{7,8,15,16,31,32,63,64}} × marker∈2 × context∈{assignment, component, OPTIONAL component, CHOICE alternative, nested anonymous SEQUENCE member, SEQUENCE OF element, SET OF element in a component, value assignment, value of a referenced type, DEFAULT, DEFAULT of a referenced type} with literal x∈{lo,hi,mid}; plus serial (second ⊆ first) and union pairs over the 9-point subset {MIN,-129,-128,0,255,256,2^63,2^64,MAX}. Non-trivial: compiled without warnings and an integer type token / literal was found and judged. Oracle: representable range of the emitted type ⊇ permitted hull; fixed width ⇒ non-extensible and finite; literal equals the source value and fits the declared type.".into()
    }
    fn selftest(&self) -> Result<u64, String> {
        let b = boundary_set();
        if b.len() != 51 {
            return Err(format!("boundary set has {} finite points, expected 51", b.len()));
        }
        let mut n = 0;
        // brute-force cross-check of contains() for small types
        for lo in -130i128..=130 {
            for hi in lo..=130 {
                n += 1;
                let brute = (lo..=hi).all(|v| v >= i8::MIN as i128 && v <= i8::MAX as i128);
                if contains(type_range("i8").unwrap(), Some(lo), Some(hi)) != brute {
                    return Err(format!("contains(i8,{lo},{hi})"));
                }
            }
        }
        if eval_int("Integer::from(-5i128)") != Some((-5, vec!["Integer::from".into()])) || eval_int("A(7)").map(|x| x.0) != Some(7) || eval_int("-128").map(|x| x.0) != Some(-128) {
            return Err("eval_int".into());
        }
        Ok(n)
    }
    fn enumerate(&self, tier: Tier, _seed: u64) -> Vec<Case> {
        let b = boundary_set();
        let mut ends_lo: Vec<End> = vec![None];
        ends_lo.extend(b.iter().map(|v| Some(*v)));
        let mut ends_hi: Vec<End> = b.iter().map(|v| Some(*v)).collect();
        ends_hi.push(None);
        let mut out = vec![];
        let type_ctx = ["assign", "component", "optional", "choice", "nested", "seqof", "setof"];
        let val_ctx = ["value", "refvalue", "default", "refdefault", "subrefvalue", "subrefdefault"];
        for lo in &ends_lo {
            for hi in &ends_hi {
                if let (Some(l), Some(h)) = (lo, hi) {
                    if l > h {
                        continue;
                    }
                }
                for ext in [false, true] {
                    for ctx in type_ctx {
                        out.push(Case { ranges: vec![(*lo, *hi)], form: "single".into(), ext, ctx: ctx.into(), x: None });
                    }
                    // literals
                    let mut xs: Vec<i128> = vec![];
                    if let Some(l) = lo {
                        xs.push(*l);
                    }
                    if let Some(h) = hi {
                        xs.push(*h);
                    }
                    match (lo, hi) {
                        (Some(l), Some(h)) => xs.push(l + (h - l) / 2),
                        (None, Some(h)) => xs.push(h - 1000),
                        (Some(l), None) => xs.push(l + 1000),
                        (None, None) => xs.extend([0, -(1i128 << 100), 1i128 << 100]),
                    }
                    xs.sort();
                    xs.dedup();
                    for x in xs {
                        for ctx in val_ctx {
                            out.push(Case { ranges: vec![(*lo, *hi)], form: "single".into(), ext, ctx: ctx.into(), x: Some(x) });
                        }
                    }
                }
            }
        }
        // template instances: bounds given as actual parameters (finite pairs of the 9-point subset and a few boundary pairs)
        for (l, h) in [(-5i128, 300i128), (0, 70000), (-129, 127), (0, 255), (0, 256), (-128, 127), (0, 1i128 << 32), (-(1i128 << 31), (1i128 << 31) - 1), (5, 5)] {
            for ctx in ["template-instance", "template-instance-component"] {
                out.push(Case { ranges: vec![(Some(l), Some(h))], form: "single".into(), ext: false, ctx: ctx.into(), x: None });
            }
        }
        // the range in parentheses of its own, with and without marker
        for lo in b.iter() {
            for hi in b.iter() {
                if lo > hi {
                    continue;
                }
                for ext in [false, true] {
                    for ctx in ["assign", "component", "seqof"] {
                        out.push(Case { ranges: vec![(Some(*lo), Some(*hi))], form: "paren".into(), ext, ctx: ctx.into(), x: None });
                    }
                    out.push(Case { ranges: vec![(Some(*lo), Some(*hi))], form: "paren".into(), ext, ctx: "default".into(), x: Some(*lo) });
                }
            }
        }
        // finite ranges written with excluded endpoints
        for lo in b.iter() {
            for hi in b.iter() {
                if lo > hi || *lo == i128::MIN || *hi == i128::MAX {
                    continue;
                }
                for form in ["open-lo", "open-hi", "open-both"] {
                    for ctx in ["assign", "component", "seqof"] {
                        out.push(Case { ranges: vec![(Some(*lo), Some(*hi))], form: form.into(), ext: false, ctx: ctx.into(), x: None });
                    }
                    for x in [*lo, *hi] {
                        for ctx in ["value", "default"] {
                            out.push(Case { ranges: vec![(Some(*lo), Some(*hi))], form: form.into(), ext: false, ctx: ctx.into(), x: Some(x) });
                        }
                    }
                }
            }
        }
        // two-constraint combinations over the 9-point subset
        let sub_lo: Vec<End> = vec![None, Some(-129), Some(-128), Some(0), Some(255), Some(256), Some(1i128 << 63), Some(1i128 << 64)];
        let sub_hi: Vec<End> = vec![Some(-129), Some(-128), Some(0), Some(255), Some(256), Some(1i128 << 63), Some(1i128 << 64), None];
        let mut pairs = vec![];
        for lo in &sub_lo {
            for hi in &sub_hi {
                if let (Some(l), Some(h)) = (lo, hi) {
                    if l > h {
                        continue;
                    }
                }
                pairs.push((*lo, *hi));
            }
        }
        let ctxs2: &[&str] = if tier.thorough() { &["assign", "component", "seqof", "default", "value"] } else { &["assign", "component", "default"] };
        for a in &pairs {
            for b2 in &pairs {
                for ext in [false, true] {
                    // serial: b2 ⊆ a
                    let sub = contains(*a, b2.0, b2.1);
                    for ctx in ctxs2 {
                        let x = match (b2.0, b2.1) {
                            (Some(l), _) => l,
                            (None, Some(h)) => h,
                            _ => 0,
                        };
                        let needs_x = *ctx == "default" || *ctx == "value";
                        if sub && a != b2 {
                            out.push(Case { ranges: vec![*a, *b2], form: "serial".into(), ext, ctx: ctx.to_string(), x: needs_x.then_some(x) });
                        }
                        // union: disjoint-or-not, any order
                        if a != b2 {
                            out.push(Case { ranges: vec![*a, *b2], form: "union".into(), ext, ctx: ctx.to_string(), x: needs_x.then_some(x) });
                            if !ext && (b2.0.is_some() || b2.1.is_some()) {
                                for form in ["union-ref-last", "union-ref-first"] {
                                    out.push(Case { ranges: vec![*a, *b2], form: form.into(), ext, ctx: ctx.to_string(), x: needs_x.then_some(x) });
                                }
                            }
                        }
                    }
                }
            }
        }
        out
    }
    fn check(&self, c: &Case) -> CaseResult {
        let src = text(c);
        let o = compile1(&src);
        let gen = match &o {
            Outcome::Ok { generated, warnings } if warnings.is_empty() => generated.clone(),
            Outcome::Panic { message, location } => {
                return CaseResult { discs: vec![Disc::new(format!("panic|{location}"), format!("{message}\n{src}"))], nontrivial: false, outcome: "panic".into(), skipped: None }
            }
            other => return CaseResult::skip(format!("{}:{}", other.class(), c.form)),
        };
        let p = match project(&gen) {
            Ok(p) => p,
            Err(e) => return CaseResult { discs: vec![Disc::new("width|unparsable", format!("{e}\n{src}\n{gen}"))], nontrivial: false, outcome: "unparsable".into(), skipped: None },
        };
        let m = match p.only() {
            Some(m) => m,
            None => return CaseResult::skip("no-module"),
        };
        let (hlo, hhi) = hull(c);
        let mut discs = vec![];
        let judged = std::cell::Cell::new(false);
        let check_type = |tok: &str, what: &str, discs: &mut Vec<Disc>| {
            let tok = tok.trim_start_matches("Option<").trim_end_matches('>');
            match type_range(tok) {
                None => discs.push(Disc::new(key(c, "unknown-type", tok), format!("{what}: unrecognised integer type `{tok}`\n{src}\n{gen}"))),
                Some(tr) => {
                    judged.set(true);
                    if !contains(tr, hlo, hhi) {
                        discs.push(Disc::new(key(c, "too-narrow", tok), format!("{what}: type {tok} cannot hold [{},{}]\n{src}\n{gen}", show_end(hlo, true), show_end(hhi, false))));
                    }
                    // Serial constraints whose *second* constraint is extensible: extension additions must
                    // still be values of the parent type (X.680 §G.4.2.3), so a fixed-width type that holds the
                    // whole (non-extensible, finite) parent range is sound; accepted (Corrections log, DESIGN §9).
                    let open = if c.form == "serial" && c.ext {
                        !contains(tr, c.ranges[0].0, c.ranges[0].1)
                    } else {
                        c.ext || hlo.is_none() || hhi.is_none()
                    };
                    if tok != "Integer" && open {
                        discs.push(Disc::new(key(c, "fixed-but-open", tok), format!("{what}: fixed-width {tok} for extensible/open constraint\n{src}\n{gen}")));
                    }
                }
            }
        };
        let field_ty = |item: &str, field: &str| -> Option<String> {
            match m.find(item) {
                Some(Item::Struct { fields, .. }) => fields.iter().find(|f| f.name == field).map(|f| f.ty.clone()),
                Some(Item::Enum { variants, .. }) => variants.iter().find(|v| v.name == field).and_then(|v| v.payload.clone()),
                _ => None,
            }
        };
        let tuple_ty = |item: &str| -> Option<String> {
            match m.find(item) {
                Some(Item::Struct { tuple: Some(t), .. }) if t.len() == 1 => Some(t[0].clone()),
                _ => None,
            }
        };
        let missing = |what: &str| Disc::new(format!("width|ctx={}|missing-item|{what}", c.ctx), format!("{what} not found\n{src}\n{gen}"));
        match c.ctx.as_str() {
            "assign" | "template-instance" => match tuple_ty("A") {
                Some(t) => check_type(&t, "struct A", &mut discs),
                None => discs.push(missing("struct A")),
            },
            "component" | "optional" | "choice" | "template-instance-component" => match field_ty("S", "f") {
                Some(t) => check_type(&t, "S.f", &mut discs),
                None => discs.push(missing("S.f")),
            },
            "nested" => match field_ty("SN", "f") {
                Some(t) => check_type(&t, "SN.f", &mut discs),
                None => discs.push(missing("SN.f")),
            },
            "seqof" => match tuple_ty("AnonymousL") {
                Some(t) => check_type(&t, "AnonymousL", &mut discs),
                None => discs.push(missing("AnonymousL")),
            },
            "setof" => match field_ty("S", "l") {
                Some(t) => {
                    // chase newtypes / collection wrappers down to the integer type
                    let mut cur = t.clone();
                    let mut depth = 0;
                    loop {
                        for pre in ["Option<", "Box<", "SetOf<", "SequenceOf<"] {
                            if let Some(x) = cur.strip_prefix(pre).and_then(|x| x.strip_suffix('>')) {
                                cur = x.to_string();
                            }
                        }
                        if type_range(&cur).is_some() || depth > 6 {
                            break;
                        }
                        match tuple_ty(&cur) {
                            Some(t2) => cur = t2,
                            None => break,
                        }
                        depth += 1;
                    }
                    check_type(&cur, "S.l element", &mut discs)
                }
                None => discs.push(missing("S.l")),
            },
            "value" | "refvalue" | "subrefvalue" => {
                let x = c.x.unwrap();
                let found = m.items.iter().find_map(|i| match i {
                    Item::Const { name, ty, init } if name == "V" => Some((ty.clone(), init.clone())),
                    Item::Static { name, ty, init, .. } if name == "V" => Some((ty.clone(), init.clone())),
                    _ => None,
                });
                match found {
                    None => discs.push(missing("const V")),
                    Some((ty, init)) => match eval_int(&init) {
                        None => discs.push(Disc::new(key(c, "literal-unevaluated", &ty), format!("initialiser `{init}`\n{src}\n{gen}"))),
                        Some((v, wrappers)) => {
                            judged.set(true);
                            if v != x {
                                discs.push(Disc::new(key(c, "literal-value", &ty), format!("literal {v} != source {x}\n{src}\n{gen}")));
                            }
                            // declared type: either integer type or A (then A's inner type)
                            let inner = if c.ctx == "refvalue" {
                                if ty != "A" || wrappers.first().map(|s| s.as_str()) != Some("A") {
                                    discs.push(Disc::new(key(c, "ref-shape", &ty), format!("expected `V: A = A(..)`, got `{ty} = {init}`\n{src}\n{gen}")));
                                }
                                tuple_ty("A")
                            } else if c.ctx == "subrefvalue" {
                                let w: Vec<&str> = wrappers.iter().map(|s| s.as_str()).filter(|s| *s != "Integer::from").collect();
                                if ty != "Qq" || w != ["Qq", "Pp", "A"] {
                                    discs.push(Disc::new(key(c, "ref-shape", &ty), format!("expected `V: Qq = Qq(Pp(A(..)))`, got `{ty} = {init}`\n{src}\n{gen}")));
                                }
                                tuple_ty("A")
                            } else {
                                Some(ty.clone())
                            };
                            match inner.as_deref().and_then(type_range) {
                                Some(tr) => {
                                    if !contains(tr, Some(x), Some(x)) {
                                        discs.push(Disc::new(key(c, "literal-does-not-fit", inner.as_deref().unwrap_or("?")), format!("literal {x} does not fit {inner:?}\n{src}\n{gen}")));
                                    }
                                    if c.ctx == "value" {
                                        check_type(inner.as_deref().unwrap(), "const V type", &mut discs);
                                    }
                                    // the literal is written the way its declared type needs it
                                    let big = inner.as_deref() == Some("Integer");
                                    if big != wrappers.iter().any(|w| w == "Integer::from") {
                                        discs.push(Disc::new(key(c, "literal-form", inner.as_deref().unwrap_or("?")), format!("literal written as `{init}` where {inner:?} is declared\n{src}\n{gen}")));
                                    }
                                }
                                None => discs.push(Disc::new(key(c, "unknown-type", &ty), format!("declared type `{ty}`\n{src}\n{gen}"))),
                            }
                        }
                    },
                }
            }
            "default" | "refdefault" | "subrefdefault" => {
                let x = c.x.unwrap();
                match field_ty("S", "f") {
                    Some(t) if c.ctx == "default" => check_type(&t, "S.f", &mut discs),
                    Some(_) => {}
                    None => discs.push(missing("S.f")),
                }
                match m.find("s_f_default") {
                    Some(Item::Fn { ret, body, .. }) => match eval_int(body) {
                        None => discs.push(Disc::new(key(c, "literal-unevaluated", ret), format!("default body `{body}`\n{src}\n{gen}"))),
                        Some((v, wrappers)) => {
                            judged.set(true);
                            if v != x {
                                discs.push(Disc::new(key(c, "literal-value", ret), format!("default literal {v} != source {x}\n{src}\n{gen}")));
                            }
                            if c.ctx == "subrefdefault" {
                                let w: Vec<&str> = wrappers.iter().map(|s| s.as_str()).filter(|s| *s != "Integer::from").collect();
                                if ret != "Pp" || w != ["Pp", "A"] {
                                    discs.push(Disc::new(key(c, "ref-shape", ret), format!("expected `-> Pp {{ Pp(A(..)) }}`, got `{ret} {{ {body} }}`\n{src}\n{gen}")));
                                }
                            }
                            let inner = if c.ctx != "default" { tuple_ty("A") } else { Some(ret.clone()) };
                            match inner.as_deref().and_then(type_range) {
                                Some(tr) => {
                                    if !contains(tr, Some(x), Some(x)) {
                                        discs.push(Disc::new(key(c, "literal-does-not-fit", inner.as_deref().unwrap_or("?")), format!("default literal {x} does not fit {inner:?}\n{src}\n{gen}")));
                                    }
                                    let big = inner.as_deref() == Some("Integer");
                                    if big != wrappers.iter().any(|w| w == "Integer::from") {
                                        discs.push(Disc::new(key(c, "literal-form", inner.as_deref().unwrap_or("?")), format!("default literal written as `{body}` where {inner:?} is declared\n{src}\n{gen}")));
                                    }
                                }
                                None => discs.push(Disc::new(key(c, "unknown-type", ret), format!("default fn return type `{ret}`\n{src}\n{gen}"))),
                            }
                        }
                    },
                    _ => discs.push(missing("fn s_f_default")),
                }
            }
            _ => unreachable!(),
        }
        CaseResult { discs, nontrivial: judged.get(), outcome: format!("ok:{}:{}", c.ctx, c.form), skipped: None }
    }
}
