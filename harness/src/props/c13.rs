//! C13 — whitespace, line endings and comments between tokens do not matter.
use crate::common::*;
use crate::driver::*;
use crate::proj::*;
use crate::tokens::*;
use serde::{Deserialize, Serialize};
use std::sync::Arc;

pub struct C13;

#[derive(Clone, Serialize, Deserialize)]
pub struct Case {
    pub base_name: String,
    /// canonical (single-space) text of the base input
    pub base: Arc<String>,
    /// boundaries (token index i = between token i and i+1) whose separator is replaced
    pub at: Vec<usize>,
    pub sep: String,
}

pub fn separators() -> Vec<(&'static str, &'static str)> {
    vec![
        ("space", " "),
        ("two-spaces", "  "),
        ("tab", "\t"),
        ("lf", "\n"),
        ("crlf", "\r\n"),
        ("none", ""),
        ("line-comment", "--c\n"),
        ("line-comment-spaced", " -- c\n "),
        ("inline-comment", " -- c -- "),
        ("block-comment", "/* c */"),
        ("block-comment-spaced", " /* c */ "),
        ("nested-block-comment", " /* a /* b */ c */ "),
        ("nested-block-comment-depth3", " /* a /* b /* c */ b */ a */ "),
        ("nested-block-comment-siblings", " /*/* a *//* b /**/*/*/ "),
        // comment texts that coincide with the generator's internal markers for hoisted items
        ("line-comment-anonymous", " -- Anonymous thing\n"),
        ("line-comment-inner-type", " -- Inner type --"),
        ("line-comment-hostile", " -- \"{ END é\n"),
        ("block-comment-hostile", " /* \" } BEGIN € */ "),
    ]
}

fn sep_class(s: &str) -> &'static str {
    separators().iter().find(|(_, t)| *t == s).map(|(n, _)| *n).unwrap_or("other")
}

fn sep_kind(s: &str) -> &'static str {
    if s.is_empty() {
        "none"
    } else if s.contains("-- Anonymous") || s.contains("-- Inner type") {
        "marker-comment"
    } else if s.contains("--") || s.contains("/*") {
        "comment"
    } else if s.contains('\n') {
        "eol"
    } else {
        "ws"
    }
}

/// innermost syntactic context of the boundary after token i: header / top / <token before the open bracket><bracket>
fn context(toks: &[Tok], i: usize) -> String {
    let mut stack: Vec<String> = vec![];
    let mut in_body = false;
    for (k, t) in toks.iter().enumerate().take(i + 1) {
        match t.text.as_str() {
            "BEGIN" if stack.is_empty() => in_body = true,
            "END" if stack.is_empty() => in_body = false,
            "{" | "(" | "[" | "[[" => {
                let prev = if k > 0 { class_of(&toks[k - 1]) } else { String::new() };
                stack.push(format!("{prev}{}", t.text));
            }
            "}" | ")" | "]" | "]]" => {
                stack.pop();
            }
            _ => {}
        }
    }
    match stack.last() {
        Some(s) => s.clone(),
        None => {
            if in_body {
                // which kind of statement: look back to the last `;`/assignment start is overkill; name the clause keyword
                let mut k = i as isize;
                while k >= 0 {
                    let t = toks[k as usize].text.as_str();
                    if t == "IMPORTS" || t == "EXPORTS" {
                        return t.to_string();
                    }
                    if t == ";" || t == "::=" || t == "BEGIN" {
                        break;
                    }
                    k -= 1;
                }
                "top".into()
            } else {
                "header".into()
            }
        }
    }
}

fn observe(text: &str) -> (String, Option<Proj>) {
    let o = compile1(text);
    match &o {
        Outcome::Ok { generated, warnings } => {
            let p = project(generated).ok().map(|p| p.without_docs());
            (format!("ok:w{}", warnings.len()), p)
        }
        Outcome::Err(e) => (format!("err:{}", e.variant), None),
        Outcome::Panic { location, .. } => (format!("panic:{location}"), None),
    }
}

impl Prop for C13 {
    type Case = Case;
    fn id(&self) -> &'static str {
        "C13"
    }
    fn rule(&self) -> String {
        "bases: 38 feature modules covering every production of the grammar G (single- and multi-module) and the N smallest real-world modules of the repository that tokenize (quick 12, thorough 60), each re-printed with single spaces; for every token boundary (X.680 §12 tokens: multi-word reserved sequences are several tokens) the separator is replaced by each of 17 forms {two spaces, tab, LF, CRLF, none where separable, `--c<LF>` tight and spaced, `-- c --`, `/* c */` tight and spaced, nested block comments (depth 2, depth 3, siblings), comments containing quotes/braces/keywords/non-ASCII, comments spelled like the generator's internal markers}; thorough adds all boundaries at once per form and every pair of adjacent boundaries for the feature modules. Oracle: differential — same Ok/Err class and warning count and the same syn projection minus #[doc] as the single-space base. Non-trivial: the base compiles Ok and the edited text was compiled and compared.".into()
    }
    fn enumerate(&self, tier: Tier, _seed: u64) -> Vec<Case> {
        let mut bases: Vec<(String, Vec<Tok>)> = vec![];
        for (n, t) in feature_modules() {
            if let Some(toks) = tokenize(&t) {
                bases.push((format!("feature:{n}"), toks));
            }
        }
        let nreal = if tier.thorough() { 60 } else { 12 };
        for (p, t) in real_world_modules(nreal, 6000) {
            if let Some(toks) = tokenize(&t) {
                if toks.len() >= 8 {
                    bases.push((format!("real:{}", p.rsplit('/').next().unwrap_or("")), toks));
                }
            }
        }
        let mut out = vec![];
        for (name, toks) in &bases {
            let base = Arc::new(canonical(toks));
            for i in 0..toks.len() - 1 {
                for (_, s) in separators() {
                    if s.is_empty() && (!separable(&toks[i], &toks[i + 1]) || toks[i + 1].text == ";") {
                        continue;
                    }
                    out.push(Case { base_name: name.clone(), base: base.clone(), at: vec![i], sep: s.to_string() });
                    if toks[i + 1].text == ";" && s == "  " {
                        out.push(Case { base_name: name.clone(), base: base.clone(), at: vec![i], sep: " ".to_string() });
                    }
                }
            }
            // the compact text (no separator wherever two tokens may touch) against the canonical single-space text: the base
            // itself may be the layout that is rejected, and then every single-boundary case compares Err with Err
            out.push(Case { base_name: name.clone(), base: base.clone(), at: (0..toks.len() - 1).filter(|i| separable(&toks[*i], &toks[*i + 1]) && toks[*i + 1].text != ";").collect(), sep: String::new() });
            if tier.thorough() {
                for (_, s) in separators() {
                    if s.is_empty() {
                        continue;
                    }
                    out.push(Case { base_name: name.clone(), base: base.clone(), at: (0..toks.len() - 1).collect(), sep: s.to_string() });
                }
                if name.starts_with("feature:") {
                    for i in 0..toks.len().saturating_sub(2) {
                        for (_, s) in separators() {
                            if s.is_empty() && !(separable(&toks[i], &toks[i + 1]) && separable(&toks[i + 1], &toks[i + 2])) {
                                continue;
                            }
                            out.push(Case { base_name: name.clone(), base: base.clone(), at: vec![i, i + 1], sep: s.to_string() });
                        }
                    }
                }
            }
        }
        out
    }
    fn check(&self, c: &Case) -> CaseResult {
        let toks = match tokenize(&c.base) {
            Some(t) => t,
            None => return CaseResult::skip("base-not-tokenizable"),
        };
        let mut seps = canonical_seps(&toks);
        for i in &c.at {
            if *i < seps.len() {
                seps[*i] = c.sep.clone();
            }
        }
        let edited = join(&toks, &seps);
        let (bclass, bproj) = observe(&c.base);
        let (eclass, eproj) = observe(&edited);
        let mut discs = vec![];
        let differs = |ec: &String, ep: &Option<Proj>| *ec != bclass || *ep != bproj;
        if differs(&eclass, &eproj) {
            // attribute to single boundaries (deviation 1) wherever one of them alone already explains it
            let mut culprits: Vec<usize> = vec![];
            if c.at.len() > 1 {
                for i in &c.at {
                    let mut s1 = canonical_seps(&toks);
                    if c.sep.is_empty() && !separable(&toks[*i], &toks[*i + 1]) {
                        continue;
                    }
                    s1[*i] = c.sep.clone();
                    let (c1, p1) = observe(&join(&toks, &s1));
                    if differs(&c1, &p1) {
                        culprits.push(*i);
                    }
                }
            } else {
                culprits.push(c.at[0]);
            }
            if eclass.starts_with("panic") {
                // a panic is C08's subject; here it is one discrepancy class per panic site
                discs.push(Disc::new(format!("layout|{eclass}"), format!("base {}: edited text panics ({eclass})\n--- edited text ---\n{edited}", c.base_name)));
                return CaseResult { discs, nontrivial: bclass.starts_with("ok"), outcome: "panic".into(), skipped: None };
            }
            let got = if eclass.starts_with("panic") { "panic".to_string() } else if bclass != eclass { eclass.split(':').next().unwrap().to_string() } else { "different-bindings".to_string() };
            let exp = bclass.split(':').next().unwrap().to_string();
            if culprits.is_empty() {
                discs.push(Disc::new(format!("layout|combination|n={}|sep={}|exp={exp}|got={got}|base={}", c.at.len().min(3), sep_kind(&c.sep), if c.base_name.starts_with("feature:") { c.base_name.as_str() } else { "real" }), format!("base {}: no single boundary explains the difference ({bclass} vs {eclass})\n--- edited text ---\n{edited}", c.base_name)));
            }
            for i in culprits {
                let (l, r) = (class_of(&toks[i]), class_of(&toks[i + 1]));
                discs.push(Disc::new(format!("layout|ctx={}|left={l}|right={r}|sep={}|exp={exp}|got={got}", context(&toks, i), sep_kind(&c.sep)), format!("base {} boundary {i}: base → {bclass}, edited → {eclass}\n--- edited text ---\n{edited}", c.base_name)));
            }
        }
        CaseResult { discs, nontrivial: bclass.starts_with("ok") || eclass.starts_with("ok"), outcome: format!("{}:{}", bclass.split(':').next().unwrap(), sep_class(&c.sep)), skipped: None }
    }
}
