//! C03 — tags and tagging mode follow X.680 under the module's tagging environment.
use crate::common::*;
use crate::driver::*;
use crate::proj::*;
use crate::wire::{apply_tag, run_wire, rust_bytes, tlv, to_hex, WireCase, WireOutcome};
use serde::{Deserialize, Serialize};
use std::collections::HashMap;
use std::sync::{Mutex, OnceLock};

pub struct C03;

#[derive(Clone, Serialize, Deserialize)]
pub struct Occ {
    /// "" | IMPLICIT | EXPLICIT
    pub kw: String,
    /// "" (context) | APPLICATION | PRIVATE | UNIVERSAL
    pub class: String,
    pub num: u32,
    /// assign | seqof | setof | compof (tag on the type / OF element) | a container path such as "seq", "choice>seq", "seqof>set>choice" (tag on a component of the innermost container)
    pub pos: String,
    /// prim | refseq | refchoice | inchoice | open | inseq
    pub kind: String,
}

#[derive(Clone, Serialize, Deserialize)]
pub struct Case {
    /// module default: "" | EXPLICIT | IMPLICIT | AUTOMATIC
    pub default: String,
    /// tag occurrences (1 in the core space, 2 in compositions); each lives in its own type assignment
    pub occ: Vec<Occ>,
    /// automatic-tagging predicate case: (container kind, tagged-subset bitmask, nested)
    #[serde(default)]
    pub auto: Option<(String, u8, bool)>,
    #[serde(default)]
    pub ext_implied: bool,
}

#[derive(Debug, Clone, PartialEq)]
pub struct Tag {
    pub explicit: bool,
    pub class: String,
    pub num: u32,
}

pub fn parse_tag(v: &str) -> Option<Tag> {
    let (explicit, inner) = match v.strip_prefix("explicit(").and_then(|r| r.strip_suffix(')')) {
        Some(i) => (true, i),
        None => (false, v),
    };
    let (c, n) = inner.split_once(',')?;
    Some(Tag { explicit, class: c.trim().to_string(), num: n.trim().parse().ok()? })
}

fn class_rust(c: &str) -> &'static str {
    match c {
        "" => "context",
        "APPLICATION" => "application",
        "PRIVATE" => "private",
        _ => "universal",
    }
}

fn type_text(kind: &str) -> &'static str {
    match kind {
        "prim" => "INTEGER",
        "refseq" => "RefSeq",
        // references whose names begin with a tagging keyword
        "refseq-kwI" => "IMPLICITRef",
        "refseq-kwE" => "EXPLICITRef",
        "refchoice" => "RefChoice",
        "inchoice" => "CHOICE { x BOOLEAN, y NULL }",
        "inseq" => "SEQUENCE { x BOOLEAN }",
        "open" => "ANY",
        _ => unreachable!(),
    }
}
fn is_choice_like(kind: &str) -> bool {
    matches!(kind, "refchoice" | "inchoice" | "open")
}

fn tag_text(o: &Occ) -> String {
    let mut s = String::from("[");
    if !o.class.is_empty() {
        s += &o.class;
        s += " ";
    }
    s += &o.num.to_string();
    s += "]";
    if !o.kw.is_empty() {
        s += " ";
        s += &o.kw;
    }
    s
}

/// Text of the type assignment(s) carrying occurrence `o`, using name suffix `k` (A0, S0, ...)
fn occ_text(o: &Occ, k: usize) -> String {
    let t = format!("{} {}", tag_text(o), type_text(&o.kind));
    match o.pos.as_str() {
        "assign" => format!("A{k} ::= {t}"),
        "seqof" => format!("L{k} ::= SEQUENCE OF {t}"),
        "setof" => format!("L{k} ::= SET OF {t}"),
        "compof" => format!("S{k} ::= SEQUENCE {{ l SEQUENCE OF {t} }}"),
        path => {
            // path of containers, outermost first, e.g. "seq>choice>seq"; the innermost holds component `ctag{k}`
            let parts: Vec<&str> = path.split('>').collect();
            let mut inner = String::new();
            for (i, c) in parts.iter().rev().enumerate() {
                let content = if i == 0 { format!("ctag{k} {t}") } else { format!("n {inner}") };
                inner = match *c {
                    "seq" => format!("SEQUENCE {{ {content} }}"),
                    "set" => format!("SET {{ {content} }}"),
                    "choice" => format!("CHOICE {{ {content} }}"),
                    "seqof" => format!("SEQUENCE OF {inner}"),
                    "setof" => format!("SET OF {inner}"),
                    _ => unreachable!(),
                };
            }
            format!("S{k} ::= {inner}")
        }
    }
}

pub fn text(c: &Case) -> String {
    let mut body = String::from("RefSeq ::= SEQUENCE { x BOOLEAN }\nRefChoice ::= CHOICE { x BOOLEAN, y NULL }\n");
    if c.occ.iter().any(|o| o.kind.starts_with("refseq-kw")) {
        // Ref is a different type: a tag keyword split off the name would go unnoticed otherwise
        body += "Ref ::= INTEGER\nIMPLICITRef ::= SEQUENCE { x BOOLEAN }\nEXPLICITRef ::= SEQUENCE { x BOOLEAN }\n";
    }
    for (k, o) in c.occ.iter().enumerate() {
        body += &occ_text(o, k);
        body += "\n";
    }
    if let Some((kind, mask, _)) = c.auto.as_ref().filter(|a| a.0.starts_with("LISTTAG-")) {
        // a tagged SEQUENCE OF / SET OF type assignment: the tag belongs to the list, not to its (anonymous) element type
        let f: Vec<&str> = kind.split('-').collect();
        let kw = ["", "IMPLICIT ", "EXPLICIT "][(*mask % 3) as usize];
        let class = ["", "APPLICATION ", "PRIVATE "][(*mask / 3) as usize];
        let elem = match f[2] { "INTEGER" => "INTEGER", "CHOICE" => "CHOICE { x NULL, y BOOLEAN }", _ => "SEQUENCE { x BOOLEAN }" };
        body += &format!("T ::= [{class}7] {kw}{} OF {elem}\n", if f[1] == "SEQOF" { "SEQUENCE" } else { "SET" });
        return module("M", &c.default, c.ext_implied, &body);
    }
    if let Some((kind, mask, _)) = c.auto.as_ref().filter(|a| a.0.starts_with("TEMPLATE-")) {
        // a tag written inside a parameterized type: every instance carries it under the module's tagging default
        let kw = ["", "IMPLICIT ", "EXPLICIT "][(*mask % 3) as usize];
        let class = ["", "APPLICATION ", "PRIVATE "][(*mask / 3) as usize];
        let tp = match kind.trim_start_matches("TEMPLATE-") {
            "assign" => format!("Tp {{ Dummy }} ::= [{class}7] {kw}Dummy"),
            "choice" => format!("Tp {{ Dummy }} ::= CHOICE {{ a [{class}7] {kw}Dummy, b [{class}8] {kw}NULL }}"),
            "nested" => format!("Tp {{ Dummy }} ::= SEQUENCE {{ n SEQUENCE {{ a [{class}7] {kw}Dummy, b BOOLEAN }} }}"),
            _ => format!("Tp {{ Dummy }} ::= SEQUENCE {{ a [{class}7] {kw}Dummy, b BOOLEAN }}"),
        };
        body += &format!("{tp}\nT ::= Tp {{ INTEGER }}\n");
        return module("M", &c.default, c.ext_implied, &body);
    }
    if let Some((kind, _, _)) = c.auto.as_ref().filter(|a| a.0.starts_with("COMPOF-")) {
        // the automatic-tagging decision is taken on the components as written, before COMPONENTS OF is expanded (X.680 25.7)
        let k = kind.trim_start_matches("COMPOF-");
        body += &format!("A0 ::= {k} {{ x [5] BOOLEAN, y [6] NULL }}\nT ::= {k} {{ c INTEGER, COMPONENTS OF A0 }}\n");
        return module("M", &c.default, c.ext_implied, &body);
    }
    if let Some((kind, mask, nested)) = &c.auto {
        let comps: Vec<String> = [("a", "BOOLEAN"), ("b", "INTEGER"), ("c", "NULL")].iter().enumerate().map(|(i, (n, t))| if mask & (1 << i) != 0 { format!("{n} [{i}] {t}") } else { format!("{n} {t}") }).collect();
        let inner = format!("{kind} {{ {} }}", comps.join(", "));
        if *nested {
            body += &format!("T ::= SEQUENCE {{ n {inner} }}\n");
        } else {
            body += &format!("T ::= {inner}\n");
        }
    }
    module("M", &c.default, c.ext_implied, &body)
}

/// X.680 §31.2.7: explicit iff EXPLICIT keyword, or no keyword under EXPLICIT (= absent) default, or CHOICE/open type
fn expect_explicit(default: &str, o: &Occ) -> bool {
    o.kw == "EXPLICIT" || (o.kw.is_empty() && (default == "EXPLICIT" || default.is_empty())) || is_choice_like(&o.kind)
}

fn find_field<'a>(m: &'a ModProj, item: &str, name: &str) -> Option<(&'a Attrs, String)> {
    match m.find(item)? {
        Item::Struct { fields, .. } => fields.iter().find(|f| f.name == name).map(|f| (&f.attrs, f.ty.clone())),
        Item::Enum { variants, .. } => variants.iter().find(|v| v.name == name).map(|v| (&v.attrs, v.payload.clone().unwrap_or_default())),
        _ => None,
    }
}

// ------------------------------------------------------------------------------------------------ wire level
// Reference DER encodings of one canonical value per tagged type (INTEGER 5, BOOLEAN TRUE, NULL, first
// alternative, one element), computed from X.680 §31 / X.690 alone; the generated type must decode them with
// rasn's DER codec and encode the decoded value to the same bytes.

fn class_bits(c: &str) -> u8 {
    match c {
        "" => 2,
        "APPLICATION" => 1,
        "PRIVATE" => 3,
        _ => 0,
    }
}

/// (encoding, is an untagged CHOICE / open type) of the canonical value of the tagged type's base type
fn base_enc(kind: &str, auto: bool) -> (Vec<u8>, bool) {
    let x = if auto { vec![0x80, 1, 0xff] } else { vec![1, 1, 0xff] };
    match kind {
        "prim" => (vec![2, 1, 5], false),
        "refseq" | "inseq" | "refseq-kwI" | "refseq-kwE" => (tlv(0, true, 16, &x), false),
        "refchoice" | "inchoice" => (x, true),
        _ => (vec![5, 0], true),
    }
}

/// automatic tag [0] on the single untagged component `n` of an outer container
fn auto0(enc: &[u8], is_choice: bool) -> Vec<u8> {
    apply_tag(enc, 2, 0, is_choice)
}

/// (generated type name, reference encoding) per occurrence, plus `T`/`TN` of the automatic-tagging family
pub fn reference_encodings(c: &Case) -> Vec<(String, Vec<u8>, bool)> {
    let auto = c.default == "AUTOMATIC";
    let mut out = vec![];
    for (k, o) in c.occ.iter().enumerate() {
        let (base, _) = base_enc(&o.kind, auto);
        let tagged = apply_tag(&base, class_bits(&o.class), o.num, expect_explicit(&c.default, o));
        let (name, enc) = match o.pos.as_str() {
            "assign" => (format!("A{k}"), tagged),
            "seqof" => (format!("L{k}"), tlv(0, true, 16, &tagged)),
            "setof" => (format!("L{k}"), tlv(0, true, 17, &tagged)),
            "compof" => {
                let l = tlv(0, true, 16, &tagged);
                let l = if auto { auto0(&l, false) } else { l };
                (format!("S{k}"), tlv(0, true, 16, &l))
            }
            path => {
                let parts: Vec<&str> = path.split('>').collect();
                // innermost container holds the tagged component: never tagged automatically
                let mut enc = tagged;
                let mut is_choice = false;
                for (i, cont) in parts.iter().rev().enumerate() {
                    let content = if i == 0 || matches!(*cont, "seqof" | "setof") {
                        enc.clone()
                    } else if auto {
                        auto0(&enc, is_choice)
                    } else {
                        enc.clone()
                    };
                    let (e, ch) = match *cont {
                        "seq" | "seqof" => (tlv(0, true, 16, &content), false),
                        "set" | "setof" => (tlv(0, true, 17, &content), false),
                        _ => (content, true),
                    };
                    enc = e;
                    is_choice = ch;
                }
                (format!("S{k}"), enc)
            }
        };
        out.push((name, enc, true));
    }
    if c.auto.as_ref().map_or(false, |a| a.0.starts_with("COMPOF-") || a.0.starts_with("LISTTAG-") || a.0.starts_with("TEMPLATE-")) {
        return out;
    }
    if let Some((kind, mask, nested)) = &c.auto {
        let automatic = auto && *mask == 0;
        let explicit = c.default == "EXPLICIT" || c.default.is_empty();
        let bases: [Vec<u8>; 3] = [vec![1, 1, 0xff], vec![2, 1, 5], vec![5, 0]];
        let mut comps: Vec<Vec<u8>> = vec![];
        for (i, b) in bases.iter().enumerate() {
            if automatic {
                comps.push(apply_tag(b, 2, i as u32, false));
            } else if mask & (1 << i) != 0 {
                comps.push(apply_tag(b, 2, i as u32, explicit));
            } else {
                comps.push(b.clone());
            }
        }
        let (inner, is_choice, strict) = match kind.as_str() {
            "SEQUENCE" => (tlv(0, true, 16, &comps.concat()), false, true),
            "SET" => {
                // DER: components of a SET in the canonical order of their tags (class, then number)
                let mut cs = comps.clone();
                cs.sort_by_key(|e| (e[0] >> 6, e[0] & 0x1f));
                (tlv(0, true, 17, &cs.concat()), false, false)
            }
            _ => (comps[0].clone(), true, true),
        };
        if *nested {
            // T ::= SEQUENCE { n <inner> }: the outer SEQUENCE has no tagged component, so AUTOMATIC applies to it
            let n = if auto { auto0(&inner, is_choice) } else { inner };
            out.push(("T".into(), tlv(0, true, 16, &n), strict));
        } else {
            out.push(("T".into(), inner, strict));
        }
    }
    out
}

fn wire_results() -> &'static Mutex<HashMap<u64, Result<String, String>>> {
    static R: OnceLock<Mutex<HashMap<u64, Result<String, String>>>> = OnceLock::new();
    R.get_or_init(|| Mutex::new(HashMap::new()))
}

/// cases of the wire subset: context / application class, number 5 (plus the long-form number 300 on type
/// assignments), paths up to depth 2, every default, keyword and kind; the automatic-tagging family;
/// thorough: every class and the depth-3 paths as well
fn in_wire_subset(c: &Case, thorough: bool) -> bool {
    if c.occ.len() > 1 {
        return false; // compositions are judged at attribute level only
    }
    if c.ext_implied {
        return thorough;
    }
    match c.occ.first() {
        None => true,
        Some(o) => (o.num == 5 || (o.num == 300 && o.pos == "assign")) && (thorough || (matches!(o.class.as_str(), "" | "APPLICATION") && o.pos.matches('>').count() < 2)),
    }
}

fn wire_batch(cases: &[Case]) -> Result<(), String> {
    use rayon::prelude::*;
    let gens: Vec<(u64, Option<String>)> = cases
        .par_iter()
        .map(|c| {
            let src = text(c);
            let g = match compile1(&src) {
                Outcome::Ok { generated, warnings } if warnings.is_empty() => Some(generated),
                _ => None,
            };
            (fnv(&src), g)
        })
        .collect();
    let mut wcs = vec![];
    let mut idx_of: HashMap<usize, u64> = HashMap::new();
    for (i, (c, (h, g))) in cases.iter().zip(gens.iter()).enumerate() {
        let g = match g {
            Some(g) => g,
            None => continue,
        };
        if wire_results().lock().unwrap().contains_key(h) || idx_of.values().any(|x| x == h) {
            continue;
        }
        let mut body = String::from("    let mut r = String::new();\n");
        for (name, enc, _) in reference_encodings(c) {
            body += &format!("    r += &format!(\"{name}={{}};\", wsupport::roundtrip::<m::{name}>({}));\n", rust_bytes(&enc));
        }
        body += "    r";
        wcs.push(WireCase { idx: i, generated: g.clone(), test_body: body });
        idx_of.insert(i, *h);
    }
    if wcs.is_empty() {
        return Ok(());
    }
    let res = run_wire(&wcs)?;
    let mut map = wire_results().lock().unwrap();
    for (i, h) in idx_of {
        match res.get(&i) {
            Some(WireOutcome::Ran(s)) => {
                map.insert(h, Ok(s.clone()));
            }
            Some(WireOutcome::CompileError(e)) => {
                map.insert(h, Err(e.clone()));
            }
            None => return Err(format!("no wire result for case {i}")),
        }
    }
    Ok(())
}

impl Prop for C03 {
    type Case = Case;
    fn id(&self) -> &'static str {
        "C03"
    }
    fn rule(&self) -> String {
        "(attribute level + wire level: for the subset number 5 (300 on type assignments) x every default, keyword, kind and path up to depth 2 (thorough: depth 3 and every class) and the automatic-tagging family, the bindings are compiled and run: rasn's DER codec must decode the reference encoding computed from X.680 31 / X.690 of a canonical value and re-encode it identically) complete product: module default {none,EXPLICIT,IMPLICIT,AUTOMATIC} × keyword {none,IMPLICIT,EXPLICIT} × class {context,APPLICATION,PRIVATE,UNIVERSAL} × number {0,5,300} × position {type assignment, SEQUENCE/SET component, CHOICE alternative, component of a nested anonymous SEQUENCE / CHOICE (depth 2 and 3), SEQUENCE OF / SET OF element (top-level and inside a component)} × tagged type {primitive, referenced SEQUENCE, referenced CHOICE, inline CHOICE, inline SEQUENCE, open type; references named IMPLICITRef / EXPLICITRef next to a type Ref}, minus IMPLICIT on CHOICE/open type; plus the automatic-tagging predicate {4 defaults}×{SEQUENCE,SET,CHOICE}×{8 tagged subsets of 3 components}×{top-level,nested}, and with COMPONENTS OF a type whose components are tagged (the decision is taken on the components as written); thorough adds every ordered pair of occurrences at different positions in one module (independence) and EXTENSIBILITY IMPLIED. Oracle: X.680 §31.2.7 / §25.3 / §29.2 reference on the #[rasn(tag(..))] / automatic_tags attributes. For CHOICE/open-typed *components* only (class, number) are compared (rasn wraps those itself). Non-trivial: compiled cleanly and the item/field that should carry the tag was found.".into()
    }
    fn selftest(&self) -> Result<u64, String> {
        if parse_tag("explicit(context,5)") != Some(Tag { explicit: true, class: "context".into(), num: 5 }) || parse_tag("application,300") != Some(Tag { explicit: false, class: "application".into(), num: 300 }) {
            return Err("parse_tag".into());
        }
        crate::wire::selftest()?;
        // reference encodings of hand-computed cases (X.690): [5] IMPLICIT INTEGER 5; [APPLICATION 5] EXPLICIT SEQUENCE { x BOOLEAN };
        // AUTOMATIC: S ::= SEQUENCE { n CHOICE { ctag [5] INTEGER } } -> n is [0] EXPLICIT around the CHOICE value
        let occ = |kw: &str, class: &str, pos: &str, kind: &str| Occ { kw: kw.into(), class: class.into(), num: 5, pos: pos.into(), kind: kind.into() };
        let enc = |d: &str, o: Occ| reference_encodings(&Case { default: d.into(), occ: vec![o], auto: None, ext_implied: false })[0].1.clone();
        if enc("IMPLICIT", occ("", "", "assign", "prim")) != vec![0x85, 1, 5] || enc("IMPLICIT", occ("EXPLICIT", "APPLICATION", "assign", "inseq")) != vec![0x65, 5, 0x30, 3, 1, 1, 0xff] || enc("AUTOMATIC", occ("", "", "seq>choice", "prim")) != vec![0x30, 5, 0xa0, 3, 0x85, 1, 5] || enc("", occ("", "", "set", "refchoice")) != vec![0x31, 5, 0xa5, 3, 1, 1, 0xff] {
            return Err("reference encodings".into());
        }
        let auto = reference_encodings(&Case { default: "AUTOMATIC".into(), occ: vec![], auto: Some(("SEQUENCE".into(), 0, false)), ext_implied: false });
        if auto[0].1 != vec![0x30, 8, 0x80, 1, 0xff, 0x81, 1, 5, 0x82, 0] {
            return Err("automatic tagging reference".into());
        }
        Ok(9)
    }
    fn enumerate(&self, tier: Tier, _seed: u64) -> Vec<Case> {
        let defaults = ["", "EXPLICIT", "IMPLICIT", "AUTOMATIC"];
        let kws = ["", "IMPLICIT", "EXPLICIT"];
        let classes = ["", "APPLICATION", "PRIVATE", "UNIVERSAL"];
        let nums = [5u32, 0, 300];
        let conts = ["seq", "set", "choice", "seqof", "setof"];
        let mut paths: Vec<String> = vec![];
        for a in ["seq", "set", "choice"] {
            paths.push(a.to_string());
        }
        for a in conts {
            for b in ["seq", "set", "choice"] {
                paths.push(format!("{a}>{b}"));
            }
        }
        let mut deep: Vec<String> = vec![];
        for a in conts {
            for b in conts {
                for c3 in ["seq", "set", "choice"] {
                    deep.push(format!("{a}>{b}>{c3}"));
                }
            }
        }
        let mut poss: Vec<String> = vec!["assign".into(), "seqof".into(), "setof".into(), "compof".into()];
        poss.extend(paths.iter().cloned());
        let kinds = ["prim", "refseq", "refchoice", "inchoice", "inseq", "open"];
        let mut occs = vec![];
        for pos in poss.iter() {
            for kind in kinds {
                for kw in kws {
                    if kw == "IMPLICIT" && is_choice_like(kind) {
                        continue;
                    }
                    for class in classes {
                        for num in nums {
                            occs.push(Occ { kw: kw.into(), class: class.into(), num, pos: pos.clone(), kind: kind.into() });
                        }
                    }
                }
            }
        }
        // referenced types whose names begin with IMPLICIT / EXPLICIT (the keyword must end at a word boundary)
        for pos in ["assign", "seq", "choice", "seqof"] {
            for kind in ["refseq-kwI", "refseq-kwE"] {
                for kw in kws {
                    occs.push(Occ { kw: kw.into(), class: "".into(), num: 5, pos: pos.into(), kind: kind.into() });
                }
            }
        }
        // depth-3 paths: context class, number 5, every keyword and kind
        for pos in deep.iter() {
            for kind in kinds {
                for kw in kws {
                    if kw == "IMPLICIT" && is_choice_like(kind) {
                        continue;
                    }
                    occs.push(Occ { kw: kw.into(), class: "".into(), num: 5, pos: pos.clone(), kind: kind.into() });
                }
            }
        }
        let mut out = vec![];
        for d in defaults {
            for o in &occs {
                out.push(Case { default: d.into(), occ: vec![o.clone()], auto: None, ext_implied: false });
            }
        }
        for kind in ["components-of", "selection", "selection-component"] {
            for dl in ["EXPLICIT", "IMPLICIT", "AUTOMATIC"] {
                for du in ["EXPLICIT", "IMPLICIT"] {
                    for order in ["lib-first", "user-first"] {
                        out.push(Case { default: du.into(), occ: vec![], auto: Some((format!("XEXPAND-{kind}|{dl}|{du}|Zz-Lib|{order}"), 0, false)), ext_implied: false });
                    }
                }
            }
        }
        for d in ["EXPLICIT", "IMPLICIT", "AUTOMATIC"] {
            for list in ["SEQOF", "SETOF"] {
                for elem in ["INTEGER", "CHOICE", "SEQUENCE"] {
                    for mask in 0u8..9 {
                        out.push(Case { default: d.into(), occ: vec![], auto: Some((format!("LISTTAG-{list}-{elem}"), mask, false)), ext_implied: false });
                    }
                }
            }
        }
        for d in defaults {
            for pos in ["assign", "component", "choice", "nested"] {
                for mask in 0u8..9 {
                    out.push(Case { default: d.into(), occ: vec![], auto: Some((format!("TEMPLATE-{pos}"), mask, false)), ext_implied: false });
                }
            }
        }
        for d in defaults {
            for kind in ["COMPOF-SEQUENCE", "COMPOF-SET"] {
                out.push(Case { default: d.into(), occ: vec![], auto: Some((kind.into(), 0, false)), ext_implied: false });
            }
        }
        for d in defaults {
            for kind in ["SEQUENCE", "SET", "CHOICE"] {
                for mask in 0u8..8 {
                    for nested in [false, true] {
                        out.push(Case { default: d.into(), occ: vec![], auto: Some((kind.into(), mask, nested)), ext_implied: false });
                    }
                }
            }
        }
        if tier.thorough() {
            // compositions: two occurrences (context class, number 5/6) at different positions, every default
            let small: Vec<Occ> = occs.iter().filter(|o| o.class.is_empty() && o.num == 5 && o.pos.matches('>').count() < 2).cloned().collect();
            for d in defaults {
                for a in &small {
                    for b in &small {
                        if a.pos == b.pos {
                            continue;
                        }
                        let mut b2 = b.clone();
                        b2.num = 6;
                        out.push(Case { default: d.into(), occ: vec![a.clone(), b2], auto: None, ext_implied: false });
                    }
                }
                for o in &small {
                    out.push(Case { default: d.into(), occ: vec![o.clone()], auto: None, ext_implied: true });
                }
            }
        }
        // wire level: the selected cases are compiled together with their reference encodings and run on rasn's DER codec
        let subset: Vec<Case> = out.iter().filter(|c| in_wire_subset(c, tier.thorough())).cloned().collect();
        if let Err(e) = wire_batch(&subset) {
            eprintln!("MACHINERY: {e}");
            std::process::exit(2);
        }
        WIRE_BATCH_DONE.store(true, std::sync::atomic::Ordering::SeqCst);
        out
    }
    fn check(&self, c: &Case) -> CaseResult {
        if let Some((kind, _, _)) = c.auto.as_ref().filter(|a| a.0.starts_with("XEXPAND-")) {
            // tags copied into another module by COMPONENTS OF / a selection type keep the mode their own module gives
            // them (the same cases as C12's expansion-across-modules family, judged here for the tagging property)
            return crate::props::c12::check_xexpand(kind.trim_start_matches("XEXPAND-"));
        }
        let src = text(c);
        let o = compile1(&src);
        let gen = match &o {
            Outcome::Ok { generated, warnings } if warnings.is_empty() => generated.clone(),
            Outcome::Panic { message, location } => return CaseResult { discs: vec![Disc::new(format!("panic|{location}"), format!("{message}\n{src}"))], nontrivial: false, outcome: "panic".into(), skipped: None },
            other => {
                let k = match c.occ.first() {
                    Some(o) => format!("tag|rejected|pos={}|kind={}|{}", o.pos, o.kind, other.class()),
                    None => format!("auto|rejected|{}", other.class()),
                };
                return CaseResult { discs: vec![Disc::new(k, format!("valid module not compiled cleanly: {}\n{src}", other.brief()))], nontrivial: false, outcome: other.class().into(), skipped: None };
            }
        };
        let p = match project(&gen) {
            Ok(p) => p,
            Err(e) => return CaseResult { discs: vec![Disc::new("tag|unparsable", format!("{e}\n{src}\n{gen}"))], nontrivial: false, outcome: "unparsable".into(), skipped: None },
        };
        let m = match p.only() {
            Some(m) => m,
            None => return CaseResult::skip("no-module"),
        };
        let mut discs = vec![];
        let mut found_all = true;
        let dflt = if c.default.is_empty() { "none" } else { &c.default };
        for (k, oc) in c.occ.iter().enumerate() {
            let keyb = format!("tag|default={dflt}|kw={}|class={}|pos={}|kind={}", if oc.kw.is_empty() { "none" } else { &oc.kw }, class_rust(&oc.class), oc.pos, oc.kind);
            // locate the attribute list that must carry the tag
            let loc: Option<(&Attrs, bool)> = match oc.pos.as_str() {
                "assign" => m.find(&format!("A{k}")).and_then(|i| i.attrs()).map(|a| (a, false)),
                "seqof" | "setof" => m.find(&format!("AnonymousL{k}")).and_then(|i| i.attrs()).map(|a| (a, false)),
                "compof" => {
                    // element newtype of the hoisted SEQUENCE OF
                    let cand = [format!("AnonymousS{k}L"), format!("S{k}L")];
                    let mut r = None;
                    for n in cand {
                        if let Some(a) = m.find(&n).and_then(|i| i.attrs()) {
                            if a.rasn.has("tag") || r.is_none() {
                                r = Some((a, false));
                            }
                        }
                    }
                    r
                }
                _ => {
                    // the unique field / variant named ctag<k>, wherever the generator hoisted its container to
                    let fname = format!("ctag{k}");
                    let mut hits: Vec<&Attrs> = vec![];
                    for it in &m.items {
                        match it {
                            Item::Struct { fields, .. } => hits.extend(fields.iter().filter(|f| f.name == fname).map(|f| &f.attrs)),
                            Item::Enum { variants, .. } => hits.extend(variants.iter().filter(|v| v.name == fname).map(|v| &v.attrs)),
                            _ => {}
                        }
                    }
                    if hits.len() == 1 {
                        Some((hits[0], true))
                    } else {
                        None
                    }
                }
            };
            let elem_pos = matches!(oc.pos.as_str(), "seqof" | "setof" | "compof");
            let (attrs, is_component) = match loc {
                Some(l) => l,
                None => {
                    found_all = false;
                    let kind = if elem_pos && oc.kind.starts_with("ref") { "missing" } else { "no-carrier" };
                    discs.push(Disc::new(format!("{keyb}|exp=tag|got={kind}"), format!("no item/field found that could carry the tag of occurrence {k}\n{src}\n{gen}")));
                    continue;
                }
            };
            let want_explicit = expect_explicit(&c.default, oc);
            // rasn applies explicit tagging to CHOICE / open types on its own, so the explicit marking is
            // observable only where the generator itself renders a CHOICE item (inline CHOICE as a type
            // assignment or as an OF element); for CHOICE/open-typed components and delegate newtypes over a
            // referenced CHOICE / ANY only (class, number) is compared.
            let compare_mode = !is_choice_like(&oc.kind) || (oc.kind == "inchoice" && !is_component);
            match attrs.rasn.get("tag") {
                None => discs.push(Disc::new(format!("{keyb}|exp={}|got=missing", if want_explicit { "explicit" } else { "implicit" }), format!("tag of occurrence {k} not rendered\n{src}\n{gen}"))),
                Some(v) => match parse_tag(v) {
                    None => discs.push(Disc::new(format!("{keyb}|got=unparsable"), format!("tag attribute `{v}`\n{src}\n{gen}"))),
                    Some(t) => {
                        if attrs.rasn.count("tag") != 1 {
                            discs.push(Disc::new(format!("{keyb}|got=duplicate-tag"), format!("{src}\n{gen}")));
                        }
                        if t.class != class_rust(&oc.class) || t.num != oc.num {
                            discs.push(Disc::new(format!("{keyb}|got=wrong-class-or-number"), format!("expected ({}, {}) got ({}, {})\n{src}\n{gen}", class_rust(&oc.class), oc.num, t.class, t.num)));
                        }
                        if compare_mode && t.explicit != want_explicit {
                            discs.push(Disc::new(format!("{keyb}|exp={}|got={}", if want_explicit { "explicit" } else { "implicit" }, if t.explicit { "explicit" } else { "implicit" }), format!("occurrence {k}: tagging mode\n{src}\n{gen}")));
                        }
                    }
                },
            }
        }
        if let Some((kind, mask, _)) = c.auto.as_ref().filter(|a| a.0.starts_with("LISTTAG-")) {
            let kw = ["", "IMPLICIT", "EXPLICIT"][(*mask % 3) as usize];
            let class = ["context", "application", "private"][(*mask / 3) as usize];
            let want_explicit = kw == "EXPLICIT" || (kw.is_empty() && c.default == "EXPLICIT");
            let keyb = format!("tag|list-assignment|{kind}|default={dflt}|kw={}|class={class}", if kw.is_empty() { "none" } else { kw });
            match m.find("T").and_then(|i| i.attrs()) {
                None => {
                    found_all = false;
                    discs.push(Disc::new(format!("{keyb}|missing-item"), format!("{src}\n{gen}")));
                }
                Some(a) => {
                    match a.rasn.get("tag").and_then(parse_tag) {
                        Some(t) if t.num == 7 && t.class == class && t.explicit == want_explicit => {}
                        other => discs.push(Disc::new(format!("{keyb}|list-tag|exp-explicit={want_explicit}|got={}", other.as_ref().map_or("none".to_string(), |t| format!("{}:{}:{}", t.class, t.num, t.explicit))), format!("tag of the list type: {other:?}\n{src}\n{gen}"))),
                    }
                    // every other item of the module (the anonymous element type and what it hoists) is untagged as written
                    for it in m.types() {
                        if let Some(ia) = it.attrs() {
                            if it.name() != "T" && ia.rasn.has("tag") {
                                discs.push(Disc::new(format!("{keyb}|element-tagged"), format!("item {} carries a tag although only the list type is tagged\n{src}\n{gen}", it.name())));
                            }
                        }
                    }
                }
            }
        } else if let Some((kind, mask, _)) = c.auto.as_ref().filter(|a| a.0.starts_with("TEMPLATE-")) {
            let kw = ["", "IMPLICIT", "EXPLICIT"][(*mask % 3) as usize];
            let class = ["context", "application", "private"][(*mask / 3) as usize];
            let want_explicit = kw == "EXPLICIT" || (kw.is_empty() && c.default == "EXPLICIT");
            let pos = kind.trim_start_matches("TEMPLATE-");
            let keyb = format!("tag|template-instance|pos={pos}|default={dflt}|kw={}|class={class}", if kw.is_empty() { "none" } else { kw });
            // where the instance T carries the tag written in the template
            let got: Option<String> = match pos {
                "assign" => m.find("T").and_then(|i| i.attrs()).and_then(|a| a.rasn.get("tag").map(|s| s.to_string())),
                "choice" => match m.find("T") {
                    Some(Item::Enum { variants, .. }) => variants.iter().find(|v| v.name == "a").and_then(|v| v.attrs.rasn.get("tag").map(|s| s.to_string())),
                    _ => None,
                },
                "nested" => match m.find("TN") {
                    Some(Item::Struct { fields, .. }) => fields.iter().find(|f| f.name == "a").and_then(|f| f.attrs.rasn.get("tag").map(|s| s.to_string())),
                    _ => None,
                },
                _ => match m.find("T") {
                    Some(Item::Struct { fields, .. }) => fields.iter().find(|f| f.name == "a").and_then(|f| f.attrs.rasn.get("tag").map(|s| s.to_string())),
                    _ => None,
                },
            };
            match got.as_deref().and_then(parse_tag) {
                Some(t) if t.num == 7 && t.class == class && t.explicit == want_explicit => {}
                other => discs.push(Disc::new(format!("{keyb}|exp-explicit={want_explicit}|got={}", other.as_ref().map_or("none".to_string(), |t| format!("{}:{}:{}", t.class, t.num, t.explicit))), format!("tag of the template instance: {other:?}\n{src}\n{gen}"))),
            }
        } else if let Some((kind, _, _)) = c.auto.as_ref().filter(|a| a.0.starts_with("COMPOF-")) {
            match m.find("T").and_then(|i| i.attrs()) {
                None => {
                    found_all = false;
                    discs.push(Disc::new(format!("auto|missing-item|{kind}"), format!("{src}\n{gen}")));
                }
                Some(a) => {
                    let want = c.default == "AUTOMATIC";
                    let got = a.rasn.has("automatic_tags");
                    if want != got {
                        discs.push(Disc::new(format!("auto|default={dflt}|kind={kind}|exp={want}|got={got}"), format!("no component of T is tagged as written\n{src}\n{gen}")));
                    }
                    for (fname, num) in [("c", None), ("x", Some(5u32)), ("y", Some(6u32))] {
                        match find_field(m, "T", fname) {
                            Some((fa, _)) => {
                                let has = fa.rasn.get("tag").and_then(parse_tag);
                                // under automatic tagging the included components are re-tagged like the others
                                let want_tag = if want { None } else { num };
                                if has.as_ref().map(|t| t.num) != want_tag {
                                    discs.push(Disc::new(format!("auto|component-tag|kind={kind}|default={dflt}|want={}|got={}", want_tag.is_some(), has.is_some()), format!("component {fname}: {has:?}\n{src}\n{gen}")));
                                }
                            }
                            None => discs.push(Disc::new(format!("auto|missing-component|{kind}"), format!("component {fname}\n{src}\n{gen}"))),
                        }
                    }
                }
            }
        } else if let Some((kind, mask, nested)) = &c.auto {
            let name = if *nested { "TN" } else { "T" };
            match m.find(name).and_then(|i| i.attrs()) {
                None => {
                    found_all = false;
                    discs.push(Disc::new(format!("auto|missing-item|{kind}|nested={nested}"), format!("{src}\n{gen}")));
                }
                Some(a) => {
                    let want = c.default == "AUTOMATIC" && *mask == 0;
                    let got = a.rasn.has("automatic_tags");
                    if want != got {
                        discs.push(Disc::new(format!("auto|default={dflt}|kind={kind}|tagged={}|nested={nested}|exp={want}|got={got}", mask.count_ones()), format!("{src}\n{gen}")));
                    }
                    // the written tags must still be there
                    for i in 0..3 {
                        let fname = ["a", "b", "c"][i];
                        if let Some((fa, _)) = find_field(m, name, fname) {
                            let has = fa.rasn.get("tag").and_then(parse_tag);
                            let want_tag = mask & (1 << i) != 0;
                            match (want_tag, has) {
                                (true, Some(t)) if t.class == "context" && t.num == i as u32 => {}
                                (false, None) => {}
                                (w, h) => discs.push(Disc::new(format!("auto|component-tag|kind={kind}|nested={nested}|want={w}|got={}", h.is_some()), format!("component {fname}: {h:?}\n{src}\n{gen}"))),
                            }
                        } else {
                            discs.push(Disc::new(format!("auto|missing-component|{kind}|nested={nested}"), format!("{src}\n{gen}")));
                        }
                    }
                }
            }
        }
        // ---- a neighbour module with another tagging default, generated before / after this one, must not matter
        if c.occ.len() <= 1 && c.occ.first().map_or(true, |o| o.num == 5 && o.pos.matches('>').count() < 1) {
            let others: Vec<&str> = ["AUTOMATIC", "EXPLICIT", "IMPLICIT"].into_iter().filter(|d| *d != c.default).collect();
            for (nb_name, nb_default) in [("A-Nb", others[0]), ("Z-Nb", others[1]), ("A-Nb", others[1]), ("Z-Nb", others[0])] {
                let nb = format!("{nb_name} DEFINITIONS {nb_default} TAGS ::= BEGIN\nNb ::= SEQUENCE {{ n BOOLEAN, o INTEGER }}\nNc ::= [3] CHOICE {{ p NULL, q BOOLEAN }}\nEND\n");
                if let Outcome::Ok { generated, .. } = compile_rasn(&[src.clone(), nb.clone()], &Cfg::default()) {
                    if let Ok(p2) = project(&generated) {
                        if p2.module("m").map(|x| x.without_docs()) != Some(m.without_docs()) {
                            discs.push(Disc::new(format!("tag|neighbour|self={dflt}|neighbour={nb_default}|{}", if nb_name.starts_with('A') { "before" } else { "after" }), format!("module M differs when compiled next to\n{nb}\n{src}\n--- alone ---\n{gen}\n--- joint ---\n{generated}")));
                        }
                    }
                }
            }
        }
        // ---- wire level
        let h = fnv(&src);
        let mut wr = wire_results().lock().unwrap().get(&h).cloned();
        if wr.is_none() && !WIRE_BATCH_DONE.load(std::sync::atomic::Ordering::SeqCst) {
            // replay path: judge this single case
            if let Err(e) = wire_batch(std::slice::from_ref(c)) {
                return CaseResult { discs: vec![Disc::new("tag|wire|machinery".to_string(), e)], nontrivial: false, outcome: "machinery".into(), skipped: None };
            }
            wr = wire_results().lock().unwrap().get(&h).cloned();
        }
        let mut wired = false;
        if let Some(wr) = wr {
            wired = true;
            let refs = reference_encodings(c);
            let key_of = |name: &str| -> String {
                if name == "T" {
                    let (kind, mask, nested) = c.auto.clone().unwrap_or_default();
                    format!("auto|default={dflt}|kind={kind}|tagged={}|nested={nested}", mask.count_ones())
                } else {
                    let k: usize = name[1..].parse().unwrap_or(0);
                    let oc = &c.occ[k.min(c.occ.len() - 1)];
                    format!("tag|default={dflt}|kw={}|class={}|pos={}|kind={}", if oc.kw.is_empty() { "none" } else { &oc.kw }, class_rust(&oc.class), oc.pos, oc.kind)
                }
            };
            match wr {
                Err(e) => {
                    // bindings that do not compile are C01's subject; here they only make the wire run impossible
                    discs.push(Disc::new(format!("{}|wire=does-not-compile", key_of(&refs.first().map(|r| r.0.clone()).unwrap_or("T".into()))), format!("{e}\n{src}\n{gen}")));
                }
                Ok(line) => {
                    for (name, enc, strict) in &refs {
                        let res = line.split(';').find_map(|p| p.strip_prefix(&format!("{name}="))).unwrap_or("no-result");
                        let class = res.split(':').next().unwrap_or("");
                        let ok = class == "ok" || (!strict && class == "reenc");
                        if !ok {
                            discs.push(Disc::new(format!("{}|wire={class}", key_of(name)), format!("type {name}: reference DER {} -> {res}\n{src}\n{gen}", to_hex(enc))));
                        }
                    }
                }
            }
        }
        CaseResult { discs, nontrivial: found_all, outcome: format!("ok:{}{}", c.occ.first().map(|o| o.pos.clone()).unwrap_or("auto".into()), if wired { "+wire" } else { "" }), skipped: None }
    }
}

static WIRE_BATCH_DONE: std::sync::atomic::AtomicBool = std::sync::atomic::AtomicBool::new(false);
