//! C10 — no definition is lost silently; warnings are local; Err carries nothing.
use crate::common::*;
use crate::driver::*;
use crate::proj::*;
use serde::{Deserialize, Serialize};

pub struct C10;

#[derive(Clone, Serialize, Deserialize)]
pub struct Case {
    /// (definition index, fault kind) replacements
    pub faults: Vec<(usize, String)>,
    /// one | two  (module layout)
    pub layout: String,
    /// textual order: "fwd" | "rev"
    pub order: String,
    pub ts: bool,
    /// "" (type names as written: Ty0, Ty-15) | "upper" (type references without lower-case letters: TY0, TY-15 —
    /// lexically also object class references)
    #[serde(default)]
    pub names: String,
    /// definitions of the documented no-output categories (class, object, object set, parameterized template, with
    /// names sorting before and after every other definition) precede the definitions of module Main
    #[serde(default)]
    pub extras: bool,
}

/// the no-output categories named by the property: they owe neither an item nor a warning, and must not disturb the rest
pub const EXTRAS: &str = "AA-CLASS ::= CLASS { &id INTEGER UNIQUE, &Type } WITH SYNTAX { &Type IDENTIFIED BY &id }\naa-obj AA-CLASS ::= { INTEGER IDENTIFIED BY 1 }\nAaSet AA-CLASS ::= { aa-obj }\nAaTempl { T } ::= SEQUENCE { x T }\nZZ-CLASS ::= CLASS { &code INTEGER } WITH SYNTAX { CODE &code }\nzz-obj ZZ-CLASS ::= { CODE 2 }\nZzSet ZZ-CLASS ::= { zz-obj }";

fn spell(c: &Case, text: &str) -> String {
    if c.names == "upper" {
        text.replace("Ty", "TY")
    } else {
        text.to_string()
    }
}

pub struct Def {
    pub name: &'static str,
    pub text: &'static str,
    pub deps: &'static [usize],
    pub is_value: bool,
}

pub const DEFS: [Def; 19] = [
    Def { name: "Ty0", text: "Ty0 ::= INTEGER (0..7)", deps: &[], is_value: false },
    Def { name: "Ty1", text: "Ty1 ::= SEQUENCE { a Ty0, b BOOLEAN OPTIONAL }", deps: &[0], is_value: false },
    Def { name: "Ty2", text: "Ty2 ::= CHOICE { x Ty1, y NULL }", deps: &[1], is_value: false },
    Def { name: "Ty3", text: "Ty3 ::= ENUMERATED { p, q }", deps: &[], is_value: false },
    Def { name: "Ty4", text: "Ty4 ::= SEQUENCE OF Ty3", deps: &[3], is_value: false },
    Def { name: "Ty5", text: "Ty5 ::= Ty1", deps: &[1], is_value: false },
    Def { name: "val6", text: "val6 INTEGER ::= 5", deps: &[], is_value: true },
    Def { name: "val7", text: "val7 Ty0 ::= 3", deps: &[0], is_value: true },
    Def { name: "val8", text: "val8 UTF8String ::= \"s\"", deps: &[], is_value: true },
    Def { name: "val9", text: "val9 OBJECT IDENTIFIER ::= { iso 3 }", deps: &[], is_value: true },
    Def { name: "val10", text: "val10 Ty3 ::= q", deps: &[3], is_value: true },
    Def { name: "Ty11", text: "Ty11 ::= SET { s [0] Ty4, t [1] Ty0 }", deps: &[4, 0], is_value: false },
    Def { name: "val12", text: "val12 Ty2 ::= y:NULL", deps: &[2], is_value: true },
    Def { name: "Ty13", text: "Ty13 ::= BIT STRING { f(0), g(2) }", deps: &[], is_value: false },
    Def { name: "val14", text: "val14 Ty13 ::= { f }", deps: &[13], is_value: true },
    Def { name: "Ty-15", text: "Ty-15 ::= OCTET STRING (SIZE (2))", deps: &[], is_value: false },
    Def { name: "val16", text: "val16 Ty1 ::= { a 3, b TRUE }", deps: &[1], is_value: true },
    // a value of a built-in type whose name is one upper-case word, given as a single reference in braces
    Def { name: "val17", text: "val17 RELATIVE-OID ::= { 3 4 }", deps: &[], is_value: true },
    Def { name: "val18", text: "val18 RELATIVE-OID ::= { val17 }", deps: &[17], is_value: true },
];

pub const TYPE_FAULTS: [&str; 7] = ["REAL", "Videotex", "TIME", "inverted-range", "undefined-ref", "macro", "selection-undefined"];
pub const VALUE_FAULTS: [&str; 9] = ["real-value", "real-seq-value", "undefined-type-value", "all-value", "local-time-value", "inline-enum-value", "optional-omitted-value", "class-field-value", "inline-seq-class-field-value"];

fn fault_text(d: &Def, kind: &str) -> String {
    let n = d.name;
    match kind {
        "REAL" => format!("{n} ::= REAL"),
        "Videotex" => format!("{n} ::= VideotexString"),
        "TIME" => format!("{n} ::= TIME"),
        "inverted-range" => format!("{n} ::= INTEGER (5..1)"),
        "undefined-ref" => format!("{n} ::= SEQUENCE {{ u Undefined-Type }}"),
        "macro" => format!("{} MACRO ::= BEGIN TYPE NOTATION ::= \"ARG\" type VALUE NOTATION ::= value (VALUE INTEGER) END", n.to_uppercase()),
        "real-value" => format!("{n} REAL ::= 1.5"),
        "real-seq-value" => format!("{n} REAL ::= {{ mantissa 1, base 10, exponent 2 }}"),
        "undefined-type-value" => format!("{n} Undefined-Type ::= 5"),
        "all-value" => format!("{n} INTEGER ::= ALL"),
        "selection-undefined" => format!("{n} ::= x < Undefined-Choice"),
        "local-time-value" => format!("{n} GeneralizedTime ::= \"19990102030405\""),
        "inline-enum-value" => format!("{n} ENUMERATED {{ on, off }} ::= off"),
        "class-field-value" => format!("{n} AA-CLASS.&id ::= 5"),
        "inline-seq-class-field-value" => format!("{n} SEQUENCE {{ a AA-CLASS.&id }} ::= {{ a 1 }}"),
        "optional-omitted-value" => format!("{n} SEQUENCE {{ a INTEGER, b BOOLEAN OPTIONAL }} ::= {{ a 1 }}"),
        _ => unreachable!(),
    }
}

fn rust_name(c: &Case, d: &Def, faulted_as_macro: bool) -> String {
    let name = spell(c, d.name);
    if faulted_as_macro {
        return name.to_uppercase().replace('-', "");
    }
    if d.is_value {
        name.to_uppercase().replace('-', "_")
    } else {
        // documented rule: hyphens removed, following letter upper-cased
        let mut out = String::new();
        let mut up = false;
        for c in name.chars() {
            if c == '-' {
                up = true;
            } else if up {
                out.push(c.to_ascii_uppercase());
                up = false;
            } else {
                out.push(c);
            }
        }
        out
    }
}

pub fn sources(c: &Case) -> Vec<String> {
    sources_as_written(c).iter().map(|t| spell(c, t)).collect()
}

fn sources_as_written(c: &Case) -> Vec<String> {
    let text_of = |i: usize| -> String {
        match c.faults.iter().find(|(j, _)| *j == i) {
            Some((_, k)) => fault_text(&DEFS[i], k),
            None => DEFS[i].text.to_string(),
        }
    };
    let mut idx: Vec<usize> = (0..DEFS.len()).collect();
    if c.order == "rev" {
        idx.reverse();
    }
    if c.layout == "bad-module" {
        // every healthy definition in Main; a second module consisting of nothing but unsupported definitions
        let body: Vec<String> = idx.iter().map(|i| DEFS[*i].text.to_string()).collect();
        let bad: Vec<String> = c.faults.iter().enumerate().map(|(n, (i, k))| {
            let name: &'static str = if DEFS[*i].is_value { ["bad0", "bad1", "bad2"][n % 3] } else { ["Bad0", "Bad1", "Bad2"][n % 3] };
            fault_text(&Def { name, text: "", deps: &[], is_value: DEFS[*i].is_value }, k)
        }).collect();
        return vec![module("Main", "AUTOMATIC", false, &body.join("\n")), module("Bad", "AUTOMATIC", false, &bad.join("\n"))];
    }
    let extras = if c.extras { format!("{EXTRAS}\n") } else { String::new() };
    if c.layout == "one" {
        let body: Vec<String> = idx.iter().map(|i| text_of(*i)).collect();
        vec![module("Main", "AUTOMATIC", false, &format!("{extras}{}", body.join("\n")))]
    } else {
        // definitions 0..=5 live in module Lib, the rest in Main which imports what it uses
        let lib: Vec<String> = idx.iter().filter(|i| **i <= 5).map(|i| text_of(*i)).collect();
        let main: Vec<String> = idx.iter().filter(|i| **i > 5).map(|i| text_of(*i)).collect();
        vec![
            format!("Main DEFINITIONS AUTOMATIC TAGS ::= BEGIN\nIMPORTS Ty0, Ty1, Ty2, Ty3, Ty4 FROM Lib;\n{extras}{}\nEND\n", main.join("\n")),
            module("Lib", "EXPLICIT", false, &lib.join("\n")),
        ]
    }
}

fn module_of(c: &Case, i: usize) -> &'static str {
    if c.layout == "two" && i <= 5 {
        "lib"
    } else {
        "main"
    }
}

fn depends_on_fault(i: usize, faulted: &[usize]) -> bool {
    if faulted.contains(&i) {
        return true;
    }
    DEFS[i].deps.iter().any(|d| depends_on_fault(*d, faulted))
}

/// layout "bad-module": Main holds the 16 healthy definitions, Bad holds nothing but unsupported ones.
/// Every Bad definition (MACROs excepted) must be the subject of a warning; Main must be untouched.
fn check_bad_module(c: &Case, srcs: &Vec<String>) -> CaseResult {
    let compile = |s: &Vec<String>| if c.ts { compile_ts(s) } else { compile_rasn(s, &Cfg::default()) };
    let kinds: Vec<String> = c.faults.iter().map(|(_, k)| k.clone()).collect();
    let dump = srcs.join("\n=====\n");
    let (gen, warnings) = match compile(srcs) {
        Outcome::Ok { generated, warnings } => (generated, warnings),
        Outcome::Panic { message, location } => return CaseResult { discs: vec![Disc::new(format!("panic|{}", location.rsplit_once(':').map(|x| x.0.to_string()).unwrap_or(location.clone()).rsplit("/src/").next().unwrap_or("")), format!("{message} at {location}\n{dump}"))], nontrivial: false, outcome: "panic".into(), skipped: None },
        Outcome::Err(_) => return CaseResult::skip("whole-compilation-err"),
    };
    let mut discs = vec![];
    let need = c.faults.len();
    // an unsupported definition may still yield an item (e.g. an inverted range kept as written): then no warning is owed
    // (the TypeScript backend keeps the spelling of value names: `export const bad0`)
    let generated_bad = (0..3).filter(|n| gen.contains(&format!("Bad{n}")) || gen.contains(&format!("BAD{n}")) || (c.ts && gen.contains(&format!("const bad{n} ")))).count();
    if warnings.len() + generated_bad < need {
        discs.push(Disc::new(format!("lost|bad-module|ts={}|faults={}|warnings={}", c.ts, kinds.join("+"), warnings.len()), format!("{need} unsupported definitions in module Bad, {} warnings, {generated_bad} generated\nwarnings: {warnings:?}\n{dump}\n--- generated ---\n{gen}", warnings.len())));
    }
    // locality: Main equals the compilation of Main alone
    let alone = compile(&vec![srcs[0].clone()]);
    if c.ts {
        if let Some(g) = alone.ok_clean() {
            if !strip_ws_keep_strings(&gen).contains(&strip_ws_keep_strings(g)) {
                discs.push(Disc::new(format!("local|bad-module|ts=true|faults={}", kinds.join("+")), format!("the TypeScript output of Main alone is not contained in the joint output\n{dump}\n--- joint ---\n{gen}\n--- alone ---\n{g}")));
            }
        }
    } else if let (Ok(p), Some(Ok(rp))) = (project(&gen), alone.ok_clean().map(|g| project(g))) {
        if p.module("main").map(|m| m.without_docs()) != rp.module("main").map(|m| m.without_docs()) {
            discs.push(Disc::new(format!("local|bad-module|ts=false|faults={}", kinds.join("+")), format!("module Main differs from its compilation alone\nwarnings: {warnings:?}\n{dump}\n--- generated ---\n{gen}")));
        }
    }
    CaseResult { discs, nontrivial: true, outcome: format!("bad-module:w{}:f{}", warnings.len().min(3), c.faults.len()), skipped: None }
}

impl Prop for C10 {
    type Case = Case;
    fn id(&self) -> &'static str {
        "C10"
    }
    fn rule(&self) -> String {
        "base: 16 definitions of every kind (constrained INTEGER, SEQUENCE, CHOICE, ENUMERATED, SEQUENCE OF, alias, SET, BIT STRING with named bits, hyphenated name; values of INTEGER, referenced INTEGER, string, OID, enumeral, CHOICE, named bits) with a dependency graph, in one module or split over two modules with IMPORTS, in forward and reverse textual order, both backends, with and without definitions of the documented no-output categories (class, object, object set, parameterized template; names sorting before and after every other definition) in front; faults: every way of replacing k=1 (quick) / k<=2 (thorough) definitions by a parseable-but-unsupported one of each kind {REAL, VideotexString, TIME type assignment, inverted range, reference to an undefined type, MACRO definition; REAL value (decimal and { mantissa, base, exponent } notation), value of an undefined type, ALL value, local-time value, value of an ENUMERATED / SEQUENCE type written in the value assignment, value governed by a class field (directly / inside an inline SEQUENCE); selection type of an undefined CHOICE}. Oracle: every top-level assignment of the faulted input is generated under its mangled name in its own module, or named by a warning, or covered by an anonymous warning (count), or is a class/object/template (a MACRO is none of these and must be warned about); locality: every definition that does not transitively depend on a faulted one has exactly the items of the fault-free compilation. Non-trivial: the faulted input compiled to Ok and was accounted.".into()
    }
    fn selftest(&self) -> Result<u64, String> {
        for layout in ["one", "two"] {
            for order in ["fwd", "rev"] {
                for extras in [false, true] {
                    let c = Case { faults: vec![], layout: layout.into(), order: order.into(), ts: false, names: String::new(), extras };
                    let o = compile_rasn(&sources(&c), &Cfg::default());
                    if o.ok_clean().is_none() {
                        return Err(format!("COMPILER: fault-free base ({layout},{order},extras={extras}) does not compile cleanly: {}", o.brief()));
                    }
                }
            }
        }
        Ok(8)
    }
    fn enumerate(&self, tier: Tier, _seed: u64) -> Vec<Case> {
        let mut out = vec![];
        let kinds_for = |i: usize| -> Vec<&'static str> { if DEFS[i].is_value { VALUE_FAULTS.to_vec() } else { TYPE_FAULTS.to_vec() } };
        for (names, extras) in [("", false), ("upper", false), ("", true)] {
        for layout in ["one", "two"] {
            for order in ["fwd", "rev"] {
                for ts in [false, true] {
                    out.push(Case { faults: vec![], layout: layout.into(), order: order.into(), ts, names: names.into(), extras });
                    for i in 0..DEFS.len() {
                        for k in kinds_for(i) {
                            out.push(Case { faults: vec![(i, k.into())], layout: layout.into(), order: order.into(), ts, names: names.into(), extras });
                        }
                    }
                    if tier.thorough() && !ts && names.is_empty() {
                        for i in 0..DEFS.len() {
                            for j in (i + 1)..DEFS.len() {
                                for ki in kinds_for(i) {
                                    for kj in kinds_for(j) {
                                        out.push(Case { faults: vec![(i, ki.into()), (j, kj.into())], layout: layout.into(), order: order.into(), ts, names: names.into(), extras });
                                    }
                                }
                            }
                        }
                    }
                }
            }
        }
        }
        // a module consisting only of unsupported definitions next to a healthy one (1..3 definitions of every kind)
        let all_kinds: Vec<(usize, &str)> = TYPE_FAULTS.iter().map(|k| (0usize, *k)).chain(VALUE_FAULTS.iter().map(|k| (6usize, *k))).collect();
        for ts in [false, true] {
            for a in &all_kinds {
                out.push(Case { faults: vec![(a.0, a.1.into())], layout: "bad-module".into(), order: "fwd".into(), ts, names: String::new(), extras: false });
                for b in &all_kinds {
                    out.push(Case { faults: vec![(a.0, a.1.into()), (b.0, b.1.into())], layout: "bad-module".into(), order: "fwd".into(), ts, names: String::new(), extras: false });
                    if tier.thorough() {
                        for c3 in &all_kinds {
                            out.push(Case { faults: vec![(a.0, a.1.into()), (b.0, b.1.into()), (c3.0, c3.1.into())], layout: "bad-module".into(), order: "rev".into(), ts, names: String::new(), extras: false });
                        }
                    }
                }
            }
        }
        out
    }
    fn check(&self, c: &Case) -> CaseResult {
        let srcs = sources(c);
        if c.layout == "bad-module" {
            return check_bad_module(c, &srcs);
        }
        let clean = Case { faults: vec![], ..c.clone() };
        let compile = |s: &Vec<String>| if c.ts { compile_ts(s) } else { compile_rasn(s, &Cfg::default()) };
        let o = compile(&srcs);
        let kinds: Vec<String> = c.faults.iter().map(|(_, k)| k.clone()).collect();
        let dump = srcs.join("\n=====\n");
        let (gen, warnings) = match &o {
            Outcome::Ok { generated, warnings } => (generated.clone(), warnings.clone()),
            Outcome::Panic { message, location } => return CaseResult { discs: vec![Disc::new(format!("panic|{}", location.rsplit_once(':').map(|x| x.0).unwrap_or(location).rsplit("/src/").next().unwrap_or("")), format!("{message} at {location}\n{dump}"))], nontrivial: false, outcome: "panic".into(), skipped: None },
            Outcome::Err(_) => return CaseResult::skip("whole-compilation-err"),
        };
        let mut discs = vec![];
        let faulted: Vec<usize> = c.faults.iter().map(|(i, _)| *i).collect();
        if c.ts {
            // TypeScript: every non-faulted type must be declared in its namespace
            for (i, d) in DEFS.iter().enumerate() {
                if faulted.contains(&i) || depends_on_fault(i, &faulted) || d.is_value {
                    continue;
                }
                let n = spell(c, d.name).replace('-', "_");
                if !gen.contains(&format!(" {n} ")) && !gen.contains(&format!(" {n}=")) && !gen.contains(&format!(" {n}:")) {
                    discs.push(Disc::new(format!("lost|ts|def={}|faults={}", if d.is_value { "value" } else { "type" }, kinds.join("+")), format!("{n} not declared\n{dump}\n--- generated ---\n{gen}")));
                }
            }
            return CaseResult { discs, nontrivial: true, outcome: format!("ts:w{}", warnings.len().min(3)), skipped: None };
        }
        let p = match project(&gen) {
            Ok(p) => p,
            Err(e) => return CaseResult { discs: vec![Disc::new("lost|unparsable".to_string(), format!("{e}\n{dump}\n{gen}"))], nontrivial: false, outcome: "unparsable".into(), skipped: None },
        };
        let reference = compile(&sources(&clean));
        let rp = reference.ok_clean().and_then(|g| project(g).ok());
        // ---- accounting
        let mut anonymous_warnings: i64 = 0;
        for w in &warnings {
            let named = DEFS.iter().any(|d| w.contains(&spell(c, d.name)) || w.contains(&d.name.to_uppercase()));
            if !named {
                anonymous_warnings += 1;
            }
        }
        let mut unaccounted: Vec<usize> = vec![];
        for (i, d) in DEFS.iter().enumerate() {
            // a MACRO definition is not among the documented no-output categories (classes, objects, parameterized
            // templates): it yields no item, so it has to be the subject of a warning
            let as_macro = c.faults.iter().any(|(j, k)| *j == i && k == "macro");
            let m = p.module(module_of(c, i));
            let present = !as_macro && m.map_or(false, |m| m.find(&rust_name(c, d, false)).is_some());
            // (a definition replaced by a MACRO carries the macro's all-capital name)
            let shown_name: String = if as_macro { d.name.to_uppercase() } else { spell(c, d.name) };
            let named_in_warning = warnings.iter().any(|w| {
                // the warning names the definition (avoid prefix matches such as Ty1 in Ty11)
                let mut found = false;
                let mut start = 0;
                while let Some(pos) = w[start..].find(shown_name.as_str()) {
                    let end = start + pos + shown_name.len();
                    let next = w[end..].chars().next();
                    if !next.map_or(false, |ch| ch.is_ascii_alphanumeric() || ch == '-') {
                        found = true;
                        break;
                    }
                    start = end;
                }
                found
            });
            if !present && !named_in_warning {
                unaccounted.push(i);
            }
            if present && faulted.contains(&i) && !named_in_warning {
                // a faulted definition that still produced an item is fine (e.g. inverted range kept as written)
            }
        }
        unaccounted.sort_by_key(|i| (!faulted.contains(i), *i));
        let reported: Vec<usize> = unaccounted.iter().skip(anonymous_warnings.max(0) as usize).cloned().collect();
        if !reported.is_empty() {
            for i in &reported {
                let d = &DEFS[*i];
                let rel = if faulted.contains(i) { "faulted" } else if depends_on_fault(*i, &faulted) { "dependent" } else { "independent" };
                let fk = if faulted.contains(i) { c.faults.iter().find(|(j, _)| j == i).map(|(_, k)| k.clone()).unwrap_or_default() } else { "-".to_string() };
                discs.push(Disc::new(
                    format!("lost|def={}{}|relation={rel}|own-fault={fk}|warnings={}", if c.names.is_empty() { "" } else { "upper-case-type-names:" }, if d.is_value { "value" } else { "type" }, if warnings.is_empty() { "none" } else if anonymous_warnings > 0 { "anonymous-fewer-than-losses" } else { "named-others" }),
                    format!("definition {} is neither generated nor the subject of a warning ({} unaccounted, {} anonymous warnings)\nwarnings: {warnings:?}\n{dump}\n--- generated ---\n{gen}", d.name, unaccounted.len(), anonymous_warnings),
                ));
            }
        }
        // ---- locality
        if let Some(rp) = rp {
            for (i, d) in DEFS.iter().enumerate() {
                if depends_on_fault(i, &faulted) {
                    continue;
                }
                let name = rust_name(c, d, false);
                let a = p.module(module_of(c, i)).and_then(|m| m.find(&name));
                let b = rp.module(module_of(c, i)).and_then(|m| m.find(&name));
                if a != b {
                    discs.push(Disc::new(format!("local|def={}|faults={}|{}", if d.is_value { "value" } else { "type" }, kinds.join("+"), if a.is_none() { "removed" } else { "altered" }), format!("independent definition {} differs from the fault-free compilation\nfaulted: {a:?}\nclean: {b:?}\nwarnings: {warnings:?}\n{dump}", d.name)));
                }
            }
        }
        CaseResult { discs, nontrivial: true, outcome: format!("ok:w{}:f{}", warnings.len().min(3), c.faults.len()), skipped: None }
    }
}
