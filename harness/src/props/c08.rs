//! C08 — compilation and error rendering are total: no panic, abort or hang.
use crate::driver::*;
use crate::tokens::*;
use crate::worker::*;
use serde::{Deserialize, Serialize};
use std::collections::HashMap;
use std::sync::{Arc, Mutex, OnceLock};
use std::time::Duration;

pub struct C08;

#[derive(Clone, Serialize, Deserialize)]
pub struct Case {
    pub family: String,
    /// shape label (used in crash/hang keys, which have no panic location)
    pub label: String,
    pub text: Arc<String>,
    pub backend: String,
}

pub const T: [&str; 40] = [
    "A", "a", "1", "-1", "::=", "{", "}", "(", ")", "[", "]", "[[", "]]", ",", "...", "..", "|", "^", ":", ";", ".", "&", "@", "<", "\"x\"", "'01'B", "'AF'H", "--", "/*", "*/", "SEQUENCE", "OF", "CHOICE", "INTEGER", "ENUMERATED", "DEFAULT", "COMPONENTS OF", "SIZE", "MIN", "CLASS",
];

/// enclosing function of a panic location, resolved with syn (stable under line shifts)
fn enclosing_fn(location: &str) -> String {
    static CACHE: OnceLock<Mutex<HashMap<String, String>>> = OnceLock::new();
    let cache = CACHE.get_or_init(|| Mutex::new(HashMap::new()));
    if let Some(v) = cache.lock().unwrap().get(location) {
        return v.clone();
    }
    let (file, line) = match location.rsplit_once(':') {
        Some((f, l)) => (f.to_string(), l.parse::<usize>().unwrap_or(0)),
        None => (location.to_string(), 0),
    };
    let rel = file.rsplit_once("/src/").map(|(_, r)| r.to_string()).unwrap_or(file.clone());
    let mut best: Option<(usize, String)> = None;
    if let Ok(src) = std::fs::read_to_string(&file) {
        if let Ok(f) = syn::parse_file(&src) {
            struct V {
                line: usize,
                best: Option<(usize, String)>,
            }
            impl<'ast> syn::visit::Visit<'ast> for V {
                fn visit_item_fn(&mut self, i: &'ast syn::ItemFn) {
                    use syn::spanned::Spanned;
                    let (s, e) = (i.span().start().line, i.span().end().line);
                    if s <= self.line && self.line <= e && self.best.as_ref().map_or(true, |b| e - s < b.0) {
                        self.best = Some((e - s, i.sig.ident.to_string()));
                    }
                    syn::visit::visit_item_fn(self, i);
                }
                fn visit_impl_item_fn(&mut self, i: &'ast syn::ImplItemFn) {
                    use syn::spanned::Spanned;
                    let (s, e) = (i.span().start().line, i.span().end().line);
                    if s <= self.line && self.line <= e && self.best.as_ref().map_or(true, |b| e - s < b.0) {
                        self.best = Some((e - s, i.sig.ident.to_string()));
                    }
                    syn::visit::visit_impl_item_fn(self, i);
                }
            }
            let mut v = V { line, best: None };
            syn::visit::Visit::visit_file(&mut v, &f);
            best = v.best;
        }
    }
    let r = match best {
        Some((_, name)) => format!("{rel}::{name}"),
        None => {
            // dependency code (nom, std): file name only
            let short = file.rsplit('/').take(2).collect::<Vec<_>>().into_iter().rev().collect::<Vec<_>>().join("/");
            format!("{short}")
        }
    };
    cache.lock().unwrap().insert(location.to_string(), r.clone());
    r
}

fn message_class(m: &str) -> String {
    // drop numbers and quoted payloads
    let mut out = String::new();
    let mut in_q = false;
    for c in m.chars() {
        if c == '`' || c == '"' || c == '\'' {
            in_q = !in_q;
            continue;
        }
        if in_q || c.is_ascii_digit() {
            continue;
        }
        out.push(c);
    }
    let out: String = out.split_whitespace().collect::<Vec<_>>().join(" ");
    out.chars().take(60).collect()
}

fn module(body: &str) -> String {
    format!("M DEFINITIONS AUTOMATIC TAGS ::= BEGIN\n{body}\nEND\n")
}

fn nest(open: &str, close: &str, core: &str, d: usize) -> String {
    let mut s = String::with_capacity(d * (open.len() + close.len()) + core.len());
    for _ in 0..d {
        s += open;
    }
    s += core;
    for _ in 0..d {
        s += close;
    }
    s
}

/// `S` -> `Sx` for every one-letter upper-case identifier outside strings
fn mixed_case_type_names(body: &str) -> String {
    let cs: Vec<char> = body.chars().collect();
    let mut out = String::new();
    let mut in_str = false;
    for (i, c) in cs.iter().enumerate() {
        out.push(*c);
        if *c == '"' || *c == '\'' {
            in_str = !in_str;
        }
        let word = |x: Option<&char>| x.map_or(false, |x| x.is_ascii_alphanumeric() || *x == '-' || *x == '&');
        if !in_str && c.is_ascii_uppercase() && !(i > 0 && word(cs.get(i - 1))) && !word(cs.get(i + 1)) {
            out.push('x');
        }
    }
    out
}

impl Prop for C08 {
    type Case = Case;
    fn id(&self) -> &'static str {
        "C08"
    }
    fn rule(&self) -> String {
        "eight complete families (incl. flat repetition: 15 kinds of list of 16 / 256 / 4096 / 65536 items — doubled quotes, string digits, enumerals, components, arcs, assignments, comments …), both backends, every case in a worker subprocess with a 10 s watchdog, 8 MiB stack, 6 GiB address-space cap; compile + Display + contextualize of every error and warning: (1) all sequences of <=L tokens (quick 3, thorough 4) over a 40-token alphabet as whole input / module body / after `A ::=`; (2) every byte prefix of the 38 feature modules, token-boundary prefixes of the smallest real-world modules, and every single-token edit (delete, duplicate, swap, replace by / insert each of the 40 tokens) at every token position of the feature modules (thorough: + 30 real-world modules); (3) é/€/𝄞 inserted at every character position of the feature modules; (4) every feature module left inside an unterminated comment (line, block depth 1..3), cstring, bstring, brace, parenthesis, version bracket; (5) all functional reference graphs on 3 nodes over 8 edge kinds (alias, constrained alias, COMPONENTS OF, member, OF element, selection, CHOICE alternative, parameterized instantiation) with/without a value of the first type, nesting depth 2^k (quick <=4096, thorough <=65536) for 14 bracket-like recursions, and 16 parsed-but-unsupported notations in 6 positions; (6) boundary numbers: 23 number positions of the grammar (enumeration item / addition, named number, named bit, range ends, size, tag, OID arc, value, DEFAULT, version number, REAL value / DEFAULT / range / mantissa-base-exponent) x 19 boundaries (i128/i64/u64/u32 extremes and their neighbours, -1, 0, beyond i128, 10^400 and its negative, real numbers with exponents beyond f64); time values: 6 UTCTime / GeneralizedTime strings with every prefix and every character replaced by / preceded by é € x + - :, as value and DEFAULT; (7) every feature module (thorough: + real-world modules) under each non-default generator option {non-opaque open types, From impls, no_std, wildcard imports} and all together. Oracle: the worker answers within the watchdog with a non-panic outcome. Non-trivial: the input reached the compiler and a verdict came back.".into()
    }
    fn assumptions(&self) -> Vec<String> {
        vec!["panic keys are file::function (resolved with syn from the panic Location) + message class; crashes/hangs are keyed by the input-shape label".into()]
    }
    fn enumerate(&self, tier: Tier, _seed: u64) -> Vec<Case> {
        let mut out: Vec<Case> = vec![];
        let mut push = |family: &str, label: String, text: String, backend: &str| out.push(Case { family: family.into(), label, text: Arc::new(text), backend: backend.into() });
        // ---- family 1: token strings
        let l = if tier.thorough() { 4 } else { 3 };
        let mut seqs: Vec<Vec<usize>> = vec![vec![]];
        let mut all: Vec<Vec<usize>> = vec![];
        for _ in 0..l {
            let mut next = Vec::with_capacity(seqs.len() * T.len());
            for s in &seqs {
                for t in 0..T.len() {
                    let mut s2 = s.clone();
                    s2.push(t);
                    next.push(s2);
                }
            }
            all.extend(next.iter().cloned());
            seqs = next;
        }
        for s in &all {
            let txt: String = s.iter().map(|i| T[*i]).collect::<Vec<_>>().join(" ");
            let lab = format!("tokens:n={}", s.len());
            push("tokens", format!("{lab}:whole"), txt.clone(), "rasn");
            push("tokens", format!("{lab}:body"), module(&txt), "rasn");
            push("tokens", format!("{lab}:after-assign"), module(&format!("A ::= {txt}")), "rasn");
        }
        // ---- family 2: prefixes and single edits
        let feats = feature_modules();
        for (name, text) in &feats {
            for (i, _) in text.char_indices() {
                push("prefix", format!("prefix:feature:{name}"), text[..i].to_string(), "both");
            }
            if let Some(toks) = tokenize(text) {
                let seps = canonical_seps(&toks);
                let render = |ts: &Vec<String>| -> String {
                    let mut s = String::new();
                    for (i, t) in ts.iter().enumerate() {
                        if i > 0 {
                            s.push(' ');
                        }
                        s += t;
                    }
                    s
                };
                let _ = seps;
                let base: Vec<String> = toks.iter().map(|t| t.text.clone()).collect();
                for i in 0..base.len() {
                    let mut v = base.clone();
                    v.remove(i);
                    push("edit", format!("edit:delete:feature:{name}"), render(&v), "both");
                    let mut v = base.clone();
                    v.insert(i, base[i].clone());
                    push("edit", format!("edit:duplicate:feature:{name}"), render(&v), "both");
                    if i + 1 < base.len() {
                        let mut v = base.clone();
                        v.swap(i, i + 1);
                        push("edit", format!("edit:swap:feature:{name}"), render(&v), "both");
                    }
                    for t in T {
                        let mut v = base.clone();
                        v[i] = t.to_string();
                        push("edit", format!("edit:replace:feature:{name}"), render(&v), "rasn");
                        let mut v = base.clone();
                        v.insert(i, t.to_string());
                        push("edit", format!("edit:insert:feature:{name}"), render(&v), "rasn");
                    }
                }
            }
        }
        let nreal = if tier.thorough() { 40 } else { 10 };
        for (p, text) in real_world_modules(nreal, 4096) {
            let name = p.rsplit('/').next().unwrap_or("").to_string();
            if let Some(toks) = tokenize(&text) {
                for t in &toks {
                    push("prefix", format!("prefix:real:{name}"), text[..t.start].to_string(), "both");
                }
                if tier.thorough() {
                    let base: Vec<String> = toks.iter().map(|t| t.text.clone()).collect();
                    for i in 0..base.len() {
                        let mut v = base.clone();
                        v.remove(i);
                        push("edit", format!("edit:delete:real:{name}"), v.join(" "), "rasn");
                        for t in [T[4], T[5], T[6], T[7], T[13], T[28], T[30], T[36]] {
                            let mut v = base.clone();
                            v[i] = t.to_string();
                            push("edit", format!("edit:replace:real:{name}"), v.join(" "), "rasn");
                        }
                    }
                }
            }
        }
        // ---- family 3: multi-byte characters
        for (name, text) in &feats {
            for ch in ['é', '€', '𝄞'] {
                for (i, _) in text.char_indices() {
                    let mut t = text.clone();
                    t.insert(i, ch);
                    push("multibyte", format!("multibyte:U+{:X}:feature:{name}", ch as u32), t, "both");
                }
                let mut t = text.clone();
                t.push(ch);
                push("multibyte", format!("multibyte-last:U+{:X}:feature:{name}", ch as u32), t, "both");
            }
        }
        // ---- family 4: unterminated items
        let openers = ["--", "-- x", "/*", "/* /*", "/* /* /*", "/* a */ /*", "\"abc", "\"", "'01", "'AF'", "{", "(", "[[", "[", "{ {", "( (", "::=", "\u{e9}", "/* \u{20ac}", "-- \u{e9}"];
        for (name, text) in &feats {
            let toks = tokenize(text).unwrap_or_default();
            for o in openers {
                push("unterminated", format!("unterminated:end:{o}"), format!("{text} {o}"), "both");
                push("unterminated", format!("unterminated:end-tight:{o}"), format!("{text}{o}"), "both");
                if let Some(last) = toks.last() {
                    let mut t = text[..last.start].to_string();
                    t += o;
                    push("unterminated", format!("unterminated:before-END:{o}"), t.clone(), "both");
                    t += " ";
                    t += &last.text;
                    push("unterminated", format!("unterminated:before-last-token:{o}"), t, "both");
                }
                let _ = name;
            }
        }
        for o in openers {
            push("unterminated", format!("unterminated:alone:{o}"), o.to_string(), "both");
            push("unterminated", format!("unterminated:body:{o}"), format!("M DEFINITIONS ::= BEGIN {o}"), "both");
        }
        // ---- family 5a: reference topologies
        let kinds = ["alias", "calias", "compof", "member", "of", "select", "alt", "param"];
        let names = ["A", "B", "C"];
        let def = |x: &str, kind: &str, y: &str| -> String {
            match kind {
                "alias" => format!("{x} ::= {y}"),
                "calias" => format!("{x} ::= {y} (0..5)"),
                "compof" => format!("{x} ::= SEQUENCE {{ COMPONENTS OF {y}, own{x} BOOLEAN }}"),
                "member" => format!("{x} ::= SEQUENCE {{ m {y} }}"),
                "of" => format!("{x} ::= SEQUENCE OF {y}"),
                "select" => format!("{x} ::= m < {y}"),
                "alt" => format!("{x} ::= CHOICE {{ m {y}, n NULL }}"),
                _ => format!("{x} ::= P {{ {y} }}"),
            }
        };
        for ka in kinds {
            for ta in names {
                for kb in kinds {
                    for tb in names {
                        for kc in kinds {
                            for tc in names {
                                if !tier.thorough() && (kc != "alias" && kc != "member" && kc != "compof") {
                                    continue;
                                }
                                let body = format!("P {{ T }} ::= SEQUENCE {{ p T }}\n{}\n{}\n{}", def("A", ka, ta), def("B", kb, tb), def("C", kc, tc));
                                // shape = the walk from A (kinds along the path until a node repeats, and where it loops back to)
                                let edge = |n: &str| -> (&str, &str) {
                                    match n {
                                        "A" => (ka, ta),
                                        "B" => (kb, tb),
                                        _ => (kc, tc),
                                    }
                                };
                                let mut seen: Vec<&str> = vec![];
                                let mut cur = "A";
                                let mut walk: Vec<&str> = vec![];
                                let loop_at;
                                loop {
                                    if let Some(p) = seen.iter().position(|x| *x == cur) {
                                        loop_at = p;
                                        break;
                                    }
                                    seen.push(cur);
                                    let (k, t) = edge(cur);
                                    walk.push(k);
                                    cur = t;
                                }
                                let pure = walk.iter().all(|k| matches!(*k, "alias" | "calias" | "select"));
                                let walk: Vec<&str> = if pure { vec!["pure-reference-cycle"] } else { walk };
                                let lab = if pure { format!("graph:walk=pure-reference-cycle:full=A-{ka}->{ta},B-{kb}->{tb},C-{kc}->{tc}") } else { format!("graph:walk={}@{loop_at}:full=A-{ka}->{ta},B-{kb}->{tb},C-{kc}->{tc}", walk.join(",")) };
                                push("graph", lab.clone(), module(&body), "rasn");
                                push("graph", format!("{lab}+value"), module(&format!("{body}\nv A ::= 1")), "rasn");
                                // other ways a value / DEFAULT makes the linker walk the type graph: an identifier (enumeral or
                                // named number of the root type), a value reference, a DEFAULT of the first type
                                push("graph", format!("{lab}+value-ident"), module(&format!("{body}\nv A ::= x")), "rasn");
                                push("graph", format!("{lab}+default"), module(&format!("{body}\nH ::= SEQUENCE {{ h A DEFAULT x }}")), "rasn");
                                if !tier.thorough() && (ka, kb) > (kb, kc) {
                                    continue;
                                }
                                push("graph", format!("{lab}+value-ref"), module(&format!("{body}\nw B ::= 2\nv A ::= w")), "rasn");
                                if ka == kb && kb == kc {
                                    push("graph", format!("{lab}+ts"), module(&body), "ts");
                                }
                            }
                        }
                    }
                }
            }
        }
        // undefined targets and selection types in every position
        for (lab, body) in [
            ("undefined:select-top", "A ::= x < Undefined"),
            ("undefined:select-member", "A ::= SEQUENCE { f x < Undefined }"),
            ("select:member", "A ::= SEQUENCE { f z < Cho }\nCho ::= CHOICE { z NULL, y BOOLEAN }"),
            ("select:alternative", "A ::= CHOICE { f z < Cho, g NULL }\nCho ::= CHOICE { z NULL, y BOOLEAN }"),
            ("select:of", "A ::= SEQUENCE OF z < Cho\nCho ::= CHOICE { z NULL, y BOOLEAN }"),
            ("select:missing-alternative", "A ::= q < Cho\nCho ::= CHOICE { z NULL }"),
            ("select:of-non-choice", "A ::= z < B\nB ::= SEQUENCE { z NULL }"),
            ("undefined:alias", "A ::= Undefined\nv A ::= 1"),
            ("undefined:member", "A ::= SEQUENCE { f Undefined DEFAULT 1 }"),
            ("undefined:compof", "A ::= SEQUENCE { COMPONENTS OF Undefined }"),
            ("undefined:param", "A ::= Undefined { INTEGER }"),
            ("undefined:value-ref", "A ::= INTEGER (0..undefined)\nv INTEGER ::= undefined2"),
            ("undefined:class", "o UNDEFINED-CLASS ::= { &id 1 }\nS UNDEFINED-CLASS ::= { o }"),
        ] {
            push("graph", lab.to_string(), module(body), "both");
        }
        // all functional value-reference graphs on 4 nodes: every value is a literal or refers to one of the four
        {
            let vn = ["a", "b", "c", "d"];
            for ty in ["INTEGER", "BOOLEAN", "Enu"] {
                let lit = match ty {
                    "INTEGER" => "5",
                    "BOOLEAN" => "TRUE",
                    _ => "x",
                };
                for code in 0..625usize {
                    let mut body = String::from("Enu ::= ENUMERATED { x, y }\n");
                    let mut k = code;
                    let mut any_ref = false;
                    let mut tgt = vec![];
                    for i in 0..4 {
                        let t = k % 5;
                        k /= 5;
                        tgt.push(t);
                        if t == 4 {
                            body += &format!("{} {ty} ::= {lit}\n", vn[i]);
                        } else {
                            any_ref = true;
                            body += &format!("{} {ty} ::= {}\n", vn[i], vn[t]);
                        }
                    }
                    if !any_ref {
                        continue;
                    }
                    // label: does the walk from a end in a literal, a cycle through a, or a cycle not containing a?
                    let mut seen = vec![];
                    let mut cur = 0usize;
                    let shape = loop {
                        if tgt[cur] == 4 {
                            break "literal";
                        }
                        if let Some(p) = seen.iter().position(|x| *x == cur) {
                            break if p == 0 { "cycle-through-start" } else { "cycle-off-start" };
                        }
                        seen.push(cur);
                        cur = tgt[cur];
                    };
                    push("graph", format!("valuegraph:{ty}:{shape}"), module(&body), "both");
                    if code % 7 == 0 || tier.thorough() {
                        push("graph", format!("valuegraph:{ty}:{shape}+default"), module(&format!("{body}S ::= SEQUENCE {{ f {ty} DEFAULT a, g {ty} (0..5) OPTIONAL }}")), "both");
                    }
                }
            }
        }
        // value-level cycles
        for (lab, body) in [
            ("valuecycle:self", "a INTEGER ::= a"),
            ("valuecycle:2", "a INTEGER ::= b\nb INTEGER ::= a"),
            ("valuecycle:default", "S ::= SEQUENCE { f INTEGER DEFAULT a }\na INTEGER ::= b\nb INTEGER ::= a"),
            ("valuecycle:constraint", "A ::= INTEGER (0..a)\na A ::= a"),
            ("valuecycle:oid", "a OBJECT IDENTIFIER ::= { b 1 }\nb OBJECT IDENTIFIER ::= { a 2 }"),
            ("objsetcycle", "C ::= CLASS { &id INTEGER UNIQUE } S1 C ::= { S2 } S2 C ::= { S1 }"),
            ("objsetcycle-members", "K ::= CLASS { &id INTEGER UNIQUE } o1 K ::= { &id 1 } o2 K ::= { &id 2 } SetB K ::= { o1 | SetC } SetC K ::= { o2 | SetB }"),
            ("objsetcycle-3", "K ::= CLASS { &id INTEGER UNIQUE } o1 K ::= { &id 1 } SetA K ::= { o1 | SetB } SetB K ::= { o1 | SetC } SetC K ::= { o1 | SetA }"),
            ("objsetcycle-self", "K ::= CLASS { &id INTEGER UNIQUE } o1 K ::= { &id 1 } SetA K ::= { o1 | SetA }"),
            ("objsetcycle-ext", "K ::= CLASS { &id INTEGER UNIQUE } o1 K ::= { &id 1 } SetA K ::= { o1, ..., SetB } SetB K ::= { SetA | o1, ... }"),
            ("classcycle", "C ::= CLASS { &f C.&f }"),
            ("paramcycle", "P { T } ::= P { T }\nA ::= P { INTEGER }"),
            ("paramcycle2", "P { T } ::= SEQUENCE { p Q { T } }\nQ { T } ::= SEQUENCE { q P { T } }\nA ::= P { INTEGER }"),
            ("contained-cycle", "A ::= INTEGER (B)\nB ::= INTEGER (A)"),
            ("contained-self", "A ::= INTEGER (A)"),
            ("size-self", "A ::= OCTET STRING (SIZE (a))\na A ::= '00'H"),
            // (third hunter round)
            ("valuecycle:default-of-referenced-type", "T ::= BOOLEAN\nA ::= SEQUENCE { x T DEFAULT b }\nb BOOLEAN ::= b"),
            ("valuecycle:default-of-referenced-type-2", "T ::= BOOLEAN\nA ::= SEQUENCE { x T DEFAULT b }\nb BOOLEAN ::= c\nc BOOLEAN ::= b"),
            ("objectcycle", "CLS ::= CLASS { &id INTEGER UNIQUE } WITH SYNTAX { ID &id }\nz CLS ::= { a }\na CLS ::= { b }\nb CLS ::= { a }"),
            ("objectcycle-self", "CLS ::= CLASS { &id INTEGER UNIQUE } WITH SYNTAX { ID &id }\na CLS ::= { a }"),
            ("objsetcycle-extensible", "CLS ::= CLASS { &id INTEGER UNIQUE }\nZ CLS ::= { A1, ... }\nA1 CLS ::= { B1, ... }\nB1 CLS ::= { A1, ... }"),
            ("object-as-actual-parameter", "P { T } ::= INTEGER\nA ::= P { { &id 1 } }"),
            ("value-as-type-parameter", "P { T } ::= SEQUENCE { a T }\nA ::= P { 5 }"),
        ] {
            push("graph", lab.to_string(), module(body), "both");
        }
        // ---- family 5a'': fan-out (valid modules in which a definition is referenced twice per level): the work must not
        // double with every level
        for depth in if tier.thorough() { vec![4usize, 8, 16, 20, 24] } else { vec![4usize, 8, 16] } {
            let chain = |f: &dyn Fn(usize) -> String, last: &str| -> String { (0..depth).map(|i| f(i)).collect::<Vec<_>>().join("\n") + "\n" + last };
            for (lab, body) in [
                ("fanout:diamond-types", chain(&|i| format!("T{i} ::= SEQUENCE {{ a T{}, b T{} }}", i + 1, i + 1), &format!("T{depth} ::= INTEGER"))),
                ("fanout:contained-subtypes", chain(&|i| format!("A{i} ::= INTEGER (A{} | A{})", i + 1, i + 1), &format!("A{depth} ::= INTEGER (0..5)"))),
                ("fanout:components-of", chain(&|i| format!("T{i} ::= SEQUENCE {{ a{i} INTEGER, COMPONENTS OF T{}, COMPONENTS OF T{} }}", i + 1, i + 1), &format!("T{depth} ::= SEQUENCE {{ z INTEGER }}"))),
                ("fanout:object-braces", format!("CLS ::= CLASS {{ &id INTEGER UNIQUE }}\nS CLS ::= {}{{&id 1}}{}", "{ ".repeat(depth), " }".repeat(depth))),
            ] {
                push("graph", format!("{lab}:depth={depth}"), module(&body), "both");
            }
        }
        // ---- family 5a': permitted alphabets over the 65 k-character tables (work must stay proportional to the input)
        {
            let long: String = (0..150).map(|_| "abcdefghij").collect();
            for (lab, body) in [
                ("alphabet-wide:range-union", "A ::= BMPString (SIZE (1..4) ^ FROM (\"c\"..\"\u{20ac}\" | \"0\"))".to_string()),
                ("alphabet-wide:range", "A ::= UniversalString (FROM (\"a\"..\"\u{ffee}\"))".to_string()),
                ("alphabet-wide:long-string", format!("A ::= BMPString (FROM (\"{long}\"))")),
                ("alphabet-wide:long-string-universal", format!("A ::= SEQUENCE {{ f UniversalString (FROM (\"{long}\" | \"0\"..\"9\")) }}")),
            ] {
                push("graph", lab.to_string(), module(&body), "both");
            }
        }
        // ---- family 5a'': string value / permitted-alphabet constraints with degenerate operands (empty strings, reversed
        //      and half-empty ranges) in every two-operand combination and every way of writing them
        {
            let opnds = ["\"\"", "\"a\"", "\"abc\"", "\"a\"..\"z\"", "\"z\"..\"a\"", "\"\"..\"z\"", "\"a\"..\"\"", "MIN..\"m\"", "\"m\"..MAX", "\"0\"..\"9\"", "\"\u{e9}\"..\"\u{20ac}\""];
            let mut exprs: Vec<(String, String)> = opnds.iter().map(|o| (o.to_string(), String::new())).collect();
            for a in opnds {
                for b in opnds {
                    for (op, on) in [(" | ", "U"), (" ^ ", "I"), (" EXCEPT ", "E")] {
                        exprs.push((format!("{a}{op}{b}"), on.to_string()));
                    }
                }
            }
            for ty in ["IA5String", "PrintableString", "NumericString", "VisibleString", "BMPString", "UniversalString", "UTF8String"] {
                for (e, on) in &exprs {
                    for (form, text) in [("value", format!("({e})")), ("from", format!("(FROM ({e}))")), ("size-from", format!("(SIZE (1..5) ^ FROM ({e}))")), ("from-size", format!("(FROM ({e}) ^ SIZE (1..5))"))] {
                        push("graph", format!("strcons:{form}:{on}"), module(&format!("A ::= {ty} {text}\nS ::= SEQUENCE {{ f {ty} {text} OPTIONAL }}")), "both");
                    }
                }
            }
        }
        // ---- family 5b: nesting depth
        let dmax: usize = if tier.thorough() { 65536 } else { 1024 };
        let mut d = 1usize;
        while d <= dmax {
            let rec: Vec<(&str, String)> = vec![
                ("SEQUENCE{", module(&format!("A ::= {}", nest("SEQUENCE { a ", " }", "BOOLEAN", d)))),
                ("SET{", module(&format!("A ::= {}", nest("SET { a ", " }", "BOOLEAN", d)))),
                ("CHOICE{", module(&format!("A ::= {}", nest("CHOICE { a ", " }", "BOOLEAN", d)))),
                ("SEQUENCE-OF", module(&format!("A ::= {}", nest("SEQUENCE OF ", "", "BOOLEAN", d)))),
                ("SET-OF", module(&format!("A ::= {}", nest("SET OF ", "", "BOOLEAN", d)))),
                ("paren-constraint", module(&format!("A ::= INTEGER {}", nest("(", ")", "1", d)))),
                ("size-constraint", module(&format!("A ::= OCTET STRING {}", nest("(SIZE ", ")", "(1)", d)))),
                ("block-comment", module(&format!("A ::= BOOLEAN {}", nest("/* ", " */", "x", d)))),
                ("version-brackets", module(&format!("A ::= SEQUENCE {{ a BOOLEAN, ..., {} }}", nest("[[ ", " ]]", "b NULL", d)))),
                ("value-braces", module(&format!("A ::= SEQUENCE OF A\nv A ::= {}", nest("{ ", " }", "", d)))),
                ("tags", module(&format!("A ::= {} BOOLEAN", nest("[1] ", "", "", d)))),
                ("serial-constraints", module(&format!("A ::= INTEGER {}", nest("(0..5)", "", "", d)))),
                ("union-chain", module(&format!("A ::= INTEGER ({}1)", nest("0 | ", "", "", d)))),
                ("with-components", module(&format!("A ::= SEQUENCE {{ a A OPTIONAL }}\nB ::= A {}", nest("(WITH COMPONENTS { a ", " })", "", d)))),
                ("alias-chain", {
                    let mut b = String::from("T0 ::= BOOLEAN\n");
                    for i in 1..=d.min(2048) {
                        b += &format!("T{i} ::= T{}\n", i - 1);
                    }
                    b += &format!("v T{} ::= TRUE", d.min(2048));
                    module(&b)
                }),
            ];
            for (lab, text) in rec {
                // parse time of nested SIZE(...) / WITH COMPONENTS grows exponentially with depth (known finding):
                // beyond the first depth that exceeds the watchdog more cases add nothing but wall time
                if (lab == "size-constraint" || lab == "with-components") && d > if tier.thorough() { 64 } else { 32 } {
                    continue;
                }
                push("nesting", format!("nesting:{lab}:depth={d}"), text, "both");
            }
            d *= 2;
        }
        // ---- family 5b': flat repetition (no nesting): a long list is not a reason to run out of stack or time
        let nmax: usize = if tier.thorough() { 1 << 20 } else { 1 << 16 };
        let mut n = 16usize;
        while n <= nmax {
            let list = |f: &dyn Fn(usize) -> String, sep: &str| -> String { (0..n).map(|i| f(i)).collect::<Vec<_>>().join(sep) };
            let rep: Vec<(&str, String)> = vec![
                ("doubled-quotes", module(&format!("v UTF8String ::= \"{}\"", "\"\"".repeat(n)))),
                ("cstring-chars", module(&format!("v UTF8String ::= \"{}\"", "ab ".repeat(n)))),
                ("bstring-digits", module(&format!("v BIT STRING ::= '{}'B", "01".repeat(n)))),
                ("hstring-digits", module(&format!("v OCTET STRING ::= '{}'H", "A5".repeat(n)))),
                ("enumerals", module(&format!("A ::= ENUMERATED {{ {} }}", list(&|i| format!("e{i}"), ", ")))),
                ("components", module(&format!("A ::= SEQUENCE {{ {} }}", list(&|i| format!("c{i} BOOLEAN"), ", ")))),
                ("alternatives", module(&format!("A ::= CHOICE {{ {} }}", list(&|i| format!("c{i} NULL"), ", ")))),
                ("named-numbers", module(&format!("A ::= INTEGER {{ {} }}", list(&|i| format!("n{i}({i})"), ", ")))),
                ("oid-arcs", module(&format!("v OBJECT IDENTIFIER ::= {{ 1 3 {} }}", list(&|i| format!("{}", i % 100), " ")))),
                ("list-value", module(&format!("L ::= SEQUENCE OF INTEGER\nv L ::= {{ {} }}", list(&|i| format!("{}", i % 10), ", ")))),
                ("assignments", module(&list(&|i| format!("T{i} ::= BOOLEAN"), "\n"))),
                ("line-comments", module(&format!("{}\nA ::= BOOLEAN", list(&|i| format!("-- comment {i}"), "\n")))),
                ("block-comment-length", module(&format!("/* {} */ A ::= BOOLEAN", "x y ".repeat(n)))),
                ("blank-lines", module(&format!("A ::={}BOOLEAN", "\n".repeat(n)))),
                ("import-symbols", format!("M DEFINITIONS AUTOMATIC TAGS ::= BEGIN\nIMPORTS {} FROM N;\nA ::= S0\nEND\nN DEFINITIONS AUTOMATIC TAGS ::= BEGIN\n{}\nEND\n", list(&|i| format!("S{i}"), ", "), list(&|i| format!("S{i} ::= NULL"), "\n"))),
            ];
            for (lab, text) in rep {
                // (quadratic or worse run time in the number of items is a hang only beyond what real specifications contain)
                if n > 4096 && (matches!(lab, "enumerals" | "components" | "alternatives" | "named-numbers" | "assignments" | "import-symbols" | "list-value") || (!tier.thorough() && !matches!(lab, "doubled-quotes" | "block-comment-length" | "line-comments" | "blank-lines" | "cstring-chars"))) {
                    continue;
                }
                push("repetition", format!("repetition:{lab}:depth={n}"), text, "both");
            }
            n *= 16;
        }
        // ---- family 5c: parsed-but-unsupported notation in every position
        let unsupported = ["REAL", "TIME", "VideotexString", "EMBEDDED PDV", "EXTERNAL", "CHARACTER STRING", "ANY DEFINED BY x", "INSTANCE OF C", "ObjectDescriptor", "DATE", "TIME-OF-DAY", "DURATION", "OID-IRI", "RELATIVE-OID-IRI", "DATE-TIME", "ISO646String"];
        for u in unsupported {
            let pre = "C ::= CLASS { &id INTEGER UNIQUE, &T }\n";
            for (pos, body) in [
                ("assign", format!("A ::= {u}")),
                ("component", format!("A ::= SEQUENCE {{ x INTEGER, f {u} OPTIONAL }}")),
                ("element", format!("A ::= SEQUENCE OF {u}")),
                ("alternative", format!("A ::= CHOICE {{ f {u}, g NULL }}")),
                ("value", format!("v {u} ::= 1")),
                ("value-braces", format!("v {u} ::= {{ a 1, b \"x\" }}")),
                ("default", format!("A ::= SEQUENCE {{ f {u} DEFAULT 1 }}")),
                ("constrained", format!("A ::= {u} (1..2)")),
                ("tagged", format!("A ::= [3] {u}")),
                ("set-of-in-set", format!("A ::= SET {{ f SET OF {u} }}")),
            ] {
                push("unsupported", format!("unsupported:{u}:{pos}"), module(&format!("{pre}{body}")), "both");
            }
        }
        for (lab, body) in [
            ("macro", "OPERATION MACRO ::= BEGIN TYPE NOTATION ::= \"ARG\" type VALUE NOTATION ::= value (VALUE INTEGER) END\nop OPERATION ARG BOOLEAN ::= 1"),
            ("macro-empty", "X MACRO ::= BEGIN END"),
            ("all-value", "A ::= SEQUENCE { f INTEGER DEFAULT ALL }"),
            ("all-value-assignment", "v INTEGER ::= ALL"),
            ("time-value-assignment", "t TIME ::= \"2020\""),
            ("named-bits-untyped", "B ::= BIT STRING\nv B ::= { a }"),
            ("choice-value-untyped", "v INTEGER ::= a : 5"),
            ("empty-choice", "A ::= CHOICE { }"),
            ("empty-enum", "A ::= ENUMERATED { }"),
            ("ext-group-componentsof", "B ::= SEQUENCE { x NULL }\nA ::= SEQUENCE { a BOOLEAN, ..., [[ COMPONENTS OF B ]] }"),
            ("componentsof-choice", "B ::= CHOICE { x NULL }\nA ::= SEQUENCE { COMPONENTS OF B }"),
            ("componentsof-undefined", "A ::= SEQUENCE { COMPONENTS OF Nope }"),
            ("selection-missing", "C ::= CHOICE { a NULL }\nA ::= zz < C"),
            ("selection-nonchoice", "C ::= INTEGER\nA ::= a < C"),
            ("inverted-range", "A ::= INTEGER (5..1)"),
            ("inverted-size", "A ::= OCTET STRING (SIZE (5..1))"),
            ("huge-number", "A ::= INTEGER (0..999999999999999999999999999999999999999999)"),
            ("huge-negative", "a INTEGER ::= -999999999999999999999999999999999999999999"),
            ("huge-enum", "A ::= ENUMERATED { a(99999999999999999999999999999999999999999) }"),
            ("huge-tag", "A ::= [99999999999999999999999] INTEGER"),
            ("huge-size", "A ::= OCTET STRING (SIZE (99999999999999999999))"),
            ("huge-oid-arc", "a OBJECT IDENTIFIER ::= { 1 2 99999999999999999999999 }"),
            ("huge-named-bit", "B ::= BIT STRING { a(4000000000) }\nv B ::= { a }"),
            ("big-named-bit", "B ::= BIT STRING { a(100000) }\nv B ::= { a }"),
            ("odd-hstring-octets", "a OCTET STRING ::= 'ABC'H"),
            ("bad-hstring", "a OCTET STRING ::= 'XYZ'H"),
            ("bad-bstring", "a BIT STRING ::= '012'B"),
            ("empty-module-name", " DEFINITIONS ::= BEGIN END"),
            ("empty", ""),
            ("only-ws", " \n\t "),
            ("end-comment", "A ::= BOOLEAN\nEND /*"),
            ("dup-def", "A ::= BOOLEAN\nA ::= INTEGER"),
            ("dup-member", "A ::= SEQUENCE { a BOOLEAN, a INTEGER }"),
            ("undefined-ref", "A ::= SEQUENCE { a Nope }"),
            ("undefined-value", "A ::= INTEGER (0..nope)"),
            ("undefined-default", "A ::= SEQUENCE { a INTEGER DEFAULT nope }"),
            ("default-type-mismatch", "A ::= SEQUENCE { a INTEGER DEFAULT \"x\", b BOOLEAN DEFAULT 5, c OCTET STRING DEFAULT TRUE }"),
            ("value-type-mismatch", "a BOOLEAN ::= 5\nb INTEGER ::= TRUE\nc NULL ::= \"x\"\nd BIT STRING ::= 7"),
            ("from-on-integer", "A ::= INTEGER (FROM (\"a\"))"),
            ("size-on-integer", "A ::= INTEGER (SIZE (1))"),
            ("string-range-on-int", "A ::= INTEGER (\"a\"..\"z\")"),
            ("from-empty", "A ::= IA5String (FROM (\"\"))"),
            ("from-empty-range", "A ::= IA5String (FROM (\"\"..\"z\"))"),
            ("from-empty-range-hi", "A ::= IA5String (FROM (\"a\"..\"\"))"),
            ("from-range-component", "S ::= SEQUENCE { f PrintableString (FROM (\"z\"..\"a\")) }"),
            ("size-table", "C ::= CLASS { &id INTEGER UNIQUE }\nS C ::= { }\nA ::= OCTET STRING (SIZE ({S}))"),
            ("size-containing", "A ::= OCTET STRING (SIZE (CONTAINING INTEGER))"),
            ("from-reversed", "A ::= IA5String (FROM (\"z\"..\"a\"))"),
            ("from-nonmember", "A ::= NumericString (FROM (\"abc\"))"),
            ("from-long-range-ends", "A ::= IA5String (FROM (\"ab\"..\"yz\"))"),
            ("table-constraint-undefined", "A ::= SEQUENCE { id C.&id ({Nope}), v C.&T ({Nope}{@id}) }\nC ::= CLASS { &id INTEGER UNIQUE, &T }"),
            ("class-field-missing", "C ::= CLASS { &id INTEGER UNIQUE }\nA ::= C.&nope"),
            ("object-bad-syntax", "C ::= CLASS { &id INTEGER UNIQUE } WITH SYNTAX { ID &id }\no C ::= { NOPE 1 }"),
            ("objset-of-undefined", "C ::= CLASS { &id INTEGER UNIQUE }\nS C ::= { nope | other }"),
            ("param-arity", "P { T, U } ::= SEQUENCE { a T, b U }\nA ::= P { INTEGER }"),
            ("param-undefined", "A ::= Nope { INTEGER }"),
            ("imports-undefined-module", "IMPORTS X FROM Nowhere;\nA ::= X"),
            ("time-value", "t UTCTime ::= \"not a time\"\ng GeneralizedTime ::= \"\""),
            ("oid-bad-root", "a OBJECT IDENTIFIER ::= { nope 1 }\nb OBJECT IDENTIFIER ::= { 7 1 }\nc OBJECT IDENTIFIER ::= { }"),
            ("seq-value-extra", "S ::= SEQUENCE { a INTEGER }\ns S ::= { a 1, b 2 }"),
            ("seq-value-missing", "S ::= SEQUENCE { a INTEGER, b BOOLEAN }\ns S ::= { }"),
            ("choice-value-bad-alt", "C ::= CHOICE { a INTEGER }\nc C ::= zz : 1"),
            ("enum-value-missing", "E ::= ENUMERATED { a }\ne E ::= zz"),
            ("seqof-value-mixed", "L ::= SEQUENCE OF INTEGER\nl L ::= { 1, TRUE, \"x\" }"),
        ] {
            push("unsupported", format!("hostile:{lab}"), module(body), "both");
            push("unsupported", format!("hostile-bare:{lab}"), body.to_string(), "both");
            // one-letter type names are lexically object class references too (`s S ::= { .. }` reads like an
            // information object assignment): the same input with type names that contain a lower-case letter
            if !body.contains("CLASS") {
                let mixed = mixed_case_type_names(body);
                if mixed != *body {
                    push("unsupported", format!("hostile-mixed:{lab}"), module(&mixed), "both");
                }
            }
        }
        // (7) generator options: every feature module (thorough: and real-world module) under each non-default
        // option of the rasn backend and under all of them together
        for (n, t) in feature_modules() {
            push("config", format!("config:feature:{n}"), t.clone(), "rasn-allcfg");
        }
        if tier.thorough() {
            for (n, t) in real_world_modules(40, 400_000) {
                push("config", format!("config:real:{n}"), t.clone(), "rasn-allcfg");
            }
        }
        // (6) boundary numbers: every position of the grammar that holds a number x every machine-word boundary
        let boundaries: [(&str, String); 19] = [
            // beyond every machine word, beyond f64, and the real-number spellings of the same
            ("i128max+1", "170141183460469231731687303715884105728".to_string()),
            ("i128min-1", "-170141183460469231731687303715884105729".to_string()),
            ("huge", format!("1{}", "0".repeat(400))),
            ("minus-huge", format!("-1{}", "0".repeat(400))),
            ("real-huge-exp", "1.0E400".to_string()),
            ("real-tiny-exp", "-1.5e-400".to_string()),
            ("real-plain", "12.5".to_string()),
            ("i128max", i128::MAX.to_string()),
            ("i128max-1", (i128::MAX - 1).to_string()),
            ("i128min", i128::MIN.to_string()),
            ("i128min+1", (i128::MIN + 1).to_string()),
            ("u64max", u64::MAX.to_string()),
            ("u64max+1", (u64::MAX as u128 + 1).to_string()),
            ("i64min", i64::MIN.to_string()),
            ("i64min-1", (i64::MIN as i128 - 1).to_string()),
            ("u32max", u32::MAX.to_string()),
            ("u32max+1", (u32::MAX as u64 + 1).to_string()),
            ("minus1", "-1".to_string()),
            ("zero", "0".to_string()),
        ];
        let positions: [(&str, &str); 23] = [
            ("real-default", "Sx ::= SEQUENCE { a REAL DEFAULT # }"),
            ("real-value", "a REAL ::= #"),
            ("real-range", "Ax ::= REAL (0..#)"),
            ("real-mbe-default", "Sx ::= SEQUENCE { a REAL DEFAULT { mantissa #, base 10, exponent # } }"),
            ("real-in-seq-value", "Sx ::= SEQUENCE { a REAL }\nv Sx ::= { a # }"),
            ("enum-item", "Ax ::= ENUMERATED { a(#), b }"),
            ("enum-item-last", "Ax ::= ENUMERATED { a, b(#), c }"),
            ("enum-addition", "Ax ::= ENUMERATED { a, ..., b(#) }"),
            ("enum-addition-then-plain", "Ax ::= ENUMERATED { a, ..., b(#), c }"),
            ("named-number", "Ax ::= INTEGER { a(#) } (0..a)"),
            ("named-bit", "Bx ::= BIT STRING { a(#) }\nv Bx ::= { a }"),
            ("range-lo", "Ax ::= INTEGER (#..MAX)"),
            ("range-hi", "Ax ::= INTEGER (MIN..#)"),
            ("range-both", "Ax ::= INTEGER (#..#)"),
            ("range-ext", "Ax ::= INTEGER (0..1, ..., #)"),
            ("size", "Ax ::= OCTET STRING (SIZE (#))"),
            ("size-range", "Ax ::= SEQUENCE (SIZE (0..#)) OF NULL"),
            ("tag", "Ax ::= [#] INTEGER"),
            ("oid-arc", "a OBJECT IDENTIFIER ::= { 1 2 # }"),
            ("oid-named-arc", "a OBJECT IDENTIFIER ::= { iso x(#) }"),
            ("value", "a INTEGER ::= #\nAx ::= INTEGER (0..a)"),
            ("default", "Sx ::= SEQUENCE { a INTEGER DEFAULT #, b INTEGER (-1..#) DEFAULT # }"),
            ("version", "Sx ::= SEQUENCE { a NULL, ..., [[ #: b NULL ]] }"),
        ];
        for (pl, ptext) in positions.iter() {
            for (bl, b) in boundaries.iter() {
                push("unsupported", format!("boundary:{pl}:{bl}"), module(&ptext.replace('#', b)), "both");
            }
        }
        // (6b) time values: every character of a UTCTime / GeneralizedTime string replaced by / preceded by a multi-byte
        // character, a letter, a sign; every prefix of the string; as value and as DEFAULT (the generator slices these strings)
        let times: [(&str, &str); 6] = [("GeneralizedTime", "2020010112+0130"), ("GeneralizedTime", "20200101120000.5-0530"), ("GeneralizedTime", "202001011200Z"), ("UTCTime", "200101011200Z"), ("UTCTime", "2001010112+0100"), ("UTCTime", "200101011200-0545")];
        for (ti, (ty, base)) in times.iter().enumerate() {
            if !tier.thorough() && ti % 3 != 0 {
                continue; // quick: one string per shape (offset with minutes, fraction + offset, UTCTime Z)
            }
            let chars: Vec<char> = base.chars().collect();
            let mut variants: Vec<(String, String)> = vec![];
            for i in 0..=chars.len() {
                variants.push((format!("prefix{i}"), chars[..i].iter().collect()));
                for ins in if tier.thorough() { vec!['é', '€', 'x', '+', '-', ':'] } else { vec!['é', 'x', '+'] } {
                    let mut v: Vec<char> = chars.clone();
                    v.insert(i, ins);
                    variants.push((format!("insert{i}:{ins}"), v.iter().collect()));
                    if i < chars.len() {
                        let mut r = chars.clone();
                        r[i] = ins;
                        variants.push((format!("replace{i}:{ins}"), r.iter().collect()));
                    }
                }
            }
            for (vl, v) in variants {
                push("unsupported", format!("time:{ty}:{base}:{vl}:value"), module(&format!("t {ty} ::= \"{v}\"")), "both");
                push("unsupported", format!("time:{ty}:{base}:{vl}:default"), module(&format!("Sx ::= SEQUENCE {{ t {ty} DEFAULT \"{v}\" }}")), "both");
            }
        }
        out
    }
    fn check(&self, c: &Case) -> CaseResult {
        let secs: u64 = std::env::var("VERIF_C08_WATCHDOG_S").ok().and_then(|v| v.parse().ok()).unwrap_or(10);
        // a change that makes a whole class of inputs hang would cost (inputs x watchdog) of wall time: once 64 inputs have
        // run into the watchdog the verdict is settled (each is reported), the remaining inputs are counted as skipped
        // (inputs that did hang are always run again: their verdict is confirmed by re-execution)
        static HUNG: std::sync::OnceLock<std::sync::Mutex<std::collections::HashSet<u64>>> = std::sync::OnceLock::new();
        let hung = HUNG.get_or_init(|| std::sync::Mutex::new(std::collections::HashSet::new()));
        let me = crate::common::fnv(&format!("{}|{}", c.backend, c.text));
        {
            let h = hung.lock().unwrap();
            if h.len() >= 64 && !h.contains(&me) {
                return CaseResult::skip("not-run:64-inputs-already-ran-into-the-watchdog");
            }
        }
        let v = run_isolated(&c.text, &c.backend, Duration::from_secs(secs));
        if matches!(v, Verdict::Hang) {
            hung.lock().unwrap().insert(me);
        }
        let short = |t: &str| -> String {
            if t.len() > 600 {
                let mut e = 300;
                while !t.is_char_boundary(e) {
                    e -= 1;
                }
                let mut s = t.len() - 200;
                while !t.is_char_boundary(s) {
                    s += 1;
                }
                format!("{} … [{} bytes] … {}", &t[..e], t.len(), &t[s..])
            } else {
                t.to_string()
            }
        };
        // shape label without instance-specific parts (module names, depth) for crash/hang keys
        let shape = {
            let mut l = c.label.clone();
            if let Some(i) = l.find(":feature:") {
                l.truncate(i);
            }
            if let Some(i) = l.find(":real:") {
                l.truncate(i);
            }
            let suffix = if l.ends_with("+value") { "+value" } else if l.ends_with("+ts") { "+ts" } else { "" };
            if let Some(i) = l.find(":full=") {
                l.truncate(i);
                l += suffix;
            }
            if let Some(i) = l.find(":depth=") {
                l.truncate(i);
            }
            l
        };
        match v {
            Verdict::Done(r) if r.class != "panic" => CaseResult { discs: vec![], nontrivial: true, outcome: format!("{}:{}", c.family, r.class), skipped: None },
            Verdict::Done(r) => {
                let loc = r.panic_location.clone().unwrap_or_default();
                let key = format!("panic|{}|{}", enclosing_fn(&loc), message_class(r.panic_message.as_deref().unwrap_or("")));
                CaseResult { discs: vec![Disc::new(key, format!("backend {} panicked at {loc}: {}\nlabel: {}\n--- input ---\n{}", r.which, r.panic_message.unwrap_or_default(), c.label, short(&c.text)))], nontrivial: true, outcome: format!("{}:panic", c.family), skipped: None }
            }
            Verdict::Crashed(status) => {
                let kind = if status.contains("SIGSEGV") || status.contains("signal: 11") || status.contains("SIGABRT") || status.contains("signal: 6") { "stack-overflow-or-abort" } else { "process-died" };
                CaseResult { discs: vec![Disc::new(format!("crash|{kind}|{shape}"), format!("worker died ({status})\nlabel: {}\n--- input ---\n{}", c.label, short(&c.text)))], nontrivial: true, outcome: format!("{}:crash", c.family), skipped: None }
            }
            Verdict::Hang => CaseResult { discs: vec![Disc::new(format!("hang|{shape}"), format!("no answer within {secs} s\nlabel: {}\n--- input ---\n{}", c.label, short(&c.text)))], nontrivial: true, outcome: format!("{}:hang", c.family), skipped: None },
        }
    }
}
