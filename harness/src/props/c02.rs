//! C02 — constructed types keep every component, in order, with the right shape.
use crate::common::*;
use crate::driver::*;
use crate::model::*;
use crate::proj::*;
use serde::{Deserialize, Serialize};

pub struct C02;

#[derive(Clone, Serialize, Deserialize)]
pub struct Case {
    pub ty: Ty,
    pub tagdef: String,
    pub implied: bool,
    /// further top-level assignments (mutual recursion topologies); `ty` is then named "A"
    #[serde(default)]
    pub others: Vec<(String, Ty)>,
    /// further top-level assignments that are references to another type: (name, ASN.1 text of the type, referenced type)
    #[serde(default)]
    pub aliases: Vec<(String, String, String)>,
}

pub fn sigma2() -> Vec<Ty> {
    let x = Comp { name: "x".into(), ty: Ty::Bool, opt: Opt::Req };
    let y = Comp { name: "y".into(), ty: Ty::Null, opt: Opt::Req };
    vec![
        Ty::Bool,
        Ty::Int,
        Ty::U8,
        Ty::Null,
        Ty::Octets,
        Ty::Utf8,
        Ty::Enum,
        Ty::Ref,
        Ty::SelfRef,
        Ty::Seq(Body::of(vec![x.clone()])),
        Ty::Choice(Body::of(vec![x.clone(), y.clone()])),
        Ty::SeqOf(Box::new(Ty::Int)),
        Ty::SeqOf(Box::new(Ty::SelfRef)),
        Ty::SetOf(Box::new(Ty::Ref)),
    ]
}

/// all (type, optionality) component choices that are well-formed inside a SEQUENCE/SET
pub fn comp_choices(alpha: &[Ty]) -> Vec<(Ty, Opt)> {
    let mut v = vec![];
    for t in alpha {
        if matches!(t, Ty::SelfRef) {
            v.push((t.clone(), Opt::Optional)); // a required self reference has no finite value
            continue;
        }
        v.push((t.clone(), Opt::Req));
        v.push((t.clone(), Opt::Optional));
        if t.default_text().is_some() {
            v.push((t.clone(), Opt::Default));
        }
    }
    v
}

/// documented mangling of type names: hyphens removed, the following character upper-cased
fn rust_type_name(asn: &str) -> String {
    let mut out = String::new();
    let mut up = false;
    for c in asn.chars() {
        if c == '-' {
            up = true;
        } else if up {
            out.push(c.to_ascii_uppercase());
            up = false;
        } else {
            out.push(c);
        }
    }
    out
}

fn name(i: usize) -> String {
    format!("c{i}")
}

fn with_marker(comps: Vec<Comp>, marker: Option<usize>) -> Body {
    let mut items: Vec<BItem> = vec![];
    for (i, c) in comps.into_iter().enumerate() {
        if marker == Some(i) {
            items.push(BItem::Marker);
        }
        items.push(BItem::C(c));
    }
    if let Some(m) = marker {
        if m >= items.iter().filter(|i| matches!(i, BItem::C(_))).count() {
            items.push(BItem::Marker);
        }
    }
    Body { items, marker_trailing_comma: false }
}

fn finite_choice(alts: &[Ty]) -> bool {
    // at least one alternative that does not require the enclosing type by value
    alts.iter().any(|t| !matches!(t, Ty::SelfRef))
}

/// OF towers inside a component / alternative: X { c0 BOOLEAN, c1 (SEQUENCE|SET OF)^k <anonymous or constrained type> }
/// (hoisting of the innermost anonymous type has to see through every OF level)
pub fn of_towers(kmax: u32) -> Vec<Ty> {
    let mut tys = vec![];
    let inner: Vec<Ty> = vec![
        Ty::Seq(Body::of(vec![Comp { name: "x".into(), ty: Ty::Int, opt: Opt::Req }, Comp { name: "y".into(), ty: Ty::Bool, opt: Opt::Optional }])),
        Ty::Set(Body::of(vec![Comp { name: "x".into(), ty: Ty::Bool, opt: Opt::Req }])),
        Ty::Choice(Body::of(vec![Comp { name: "x".into(), ty: Ty::Null, opt: Opt::Req }, Comp { name: "y".into(), ty: Ty::Int, opt: Opt::Req }])),
        Ty::Enum,
        Ty::U8,
        Ty::Ref,
    ];
    for k in 1..=kmax {
        for mask in 0..(1u32 << k) {
            for leaf in &inner {
                let mut t = leaf.clone();
                for lvl in 0..k {
                    t = if mask & (1 << lvl) != 0 { Ty::SetOf(Box::new(t)) } else { Ty::SeqOf(Box::new(t)) };
                }
                for opt in [Opt::Req, Opt::Optional] {
                    let comps = vec![Comp { name: "c0".into(), ty: Ty::Bool, opt: Opt::Req }, Comp { name: "c1".into(), ty: t.clone(), opt: opt.clone() }];
                    tys.push(Ty::Seq(Body::of(comps.clone())));
                    tys.push(Ty::Set(Body::of(comps.clone())));
                    if opt == Opt::Req {
                        tys.push(Ty::Choice(Body::of(comps)));
                    }
                }
            }
        }
    }
    tys
}

impl Prop for C02 {
    type Case = Case;
    fn id(&self) -> &'static str {
        "C02"
    }
    fn rule(&self) -> String {
        "every SEQUENCE/SET with n components (quick n<=2, thorough n<=3 full + n=4 over a 6-type alphabet) and CHOICE with 1..n alternatives over the 14-type component alphabet {BOOLEAN, INTEGER, INTEGER(0..255), NULL, OCTET STRING, UTF8String, anonymous ENUMERATED, reference, self reference, anonymous SEQUENCE, anonymous CHOICE, SEQUENCE OF INTEGER, SEQUENCE OF self, SET OF reference} × {required, OPTIONAL, DEFAULT} × extension marker at every position or absent; long lists n=5..12 with one deviating position; container chains {SEQUENCE,SET,CHOICE,SEQUENCE OF,SET OF}^d, d<=4; SEQUENCE OF/SET OF and primitives as assignments; all under 4 tagging defaults × EXTENSIBILITY IMPLIED on/off. Oracle: structural comparison of the syn projection with the model (one field/variant per component in order, Rust type class, Option/default/Box, set markers, hoisted items exactly once, nothing extra, Box exactly on reference cycles). Non-trivial: compiled cleanly and compared.".into()
    }
    fn enumerate(&self, tier: Tier, _seed: u64) -> Vec<Case> {
        let alpha = sigma2();
        let cc = comp_choices(&alpha);
        let mut tys: Vec<Ty> = vec![];
        // --- top-level primitives and OF
        for t in &alpha {
            if !matches!(t, Ty::SelfRef) {
                tys.push(t.clone());
                tys.push(Ty::SeqOf(Box::new(t.clone())));
                tys.push(Ty::SetOf(Box::new(t.clone())));
            }
        }
        // --- SEQUENCE / SET, n <= nmax
        let nmax = if tier.thorough() { 3 } else { 2 };
        let mut lists: Vec<Vec<(Ty, Opt)>> = vec![vec![]];
        let mut all_lists: Vec<Vec<(Ty, Opt)>> = vec![vec![]];
        for _ in 0..nmax {
            let mut next = vec![];
            for l in &lists {
                for c in &cc {
                    let mut l2 = l.clone();
                    l2.push(c.clone());
                    next.push(l2);
                }
            }
            all_lists.extend(next.iter().cloned());
            lists = next;
        }
        if tier.thorough() {
            // n = 4 over a reduced alphabet
            let small = comp_choices(&[Ty::Bool, Ty::U8, Ty::Ref, Ty::SelfRef, Ty::Seq(Body::of(vec![Comp { name: "x".into(), ty: Ty::Bool, opt: Opt::Req }])), Ty::SeqOf(Box::new(Ty::Int))]);
            let mut l4: Vec<Vec<(Ty, Opt)>> = vec![vec![]];
            for _ in 0..4 {
                let mut next = vec![];
                for l in &l4 {
                    for c in &small {
                        let mut l2 = l.clone();
                        l2.push(c.clone());
                        next.push(l2);
                    }
                }
                l4 = next;
            }
            all_lists.extend(l4);
        }
        for l in &all_lists {
            let n = l.len();
            let comps: Vec<Comp> = l.iter().enumerate().map(|(i, (t, o))| Comp { name: name(i), ty: t.clone(), opt: o.clone() }).collect();
            let mut markers: Vec<Option<usize>> = vec![None];
            markers.extend((0..=n).map(Some));
            for mk in markers {
                tys.push(Ty::Seq(with_marker(comps.clone(), mk)));
                tys.push(Ty::Set(with_marker(comps.clone(), mk)));
            }
        }
        // --- CHOICE, 1..nmax alternatives
        let mut alts: Vec<Vec<Ty>> = vec![vec![]];
        for _ in 0..nmax {
            let mut next = vec![];
            for l in &alts {
                for t in &alpha {
                    let mut l2 = l.clone();
                    l2.push(t.clone());
                    next.push(l2);
                }
            }
            for l in &next {
                if finite_choice(l) {
                    let comps: Vec<Comp> = l.iter().enumerate().map(|(i, t)| Comp { name: name(i), ty: t.clone(), opt: Opt::Req }).collect();
                    let n = l.len();
                    let mut markers: Vec<Option<usize>> = vec![None];
                    markers.extend((1..=n).map(Some)); // a CHOICE needs at least one root alternative in G
                    for mk in markers {
                        tys.push(Ty::Choice(with_marker(comps.clone(), mk)));
                    }
                }
            }
            alts = next;
        }
        // --- long lists, one deviating position
        for n in 5..=12usize {
            for pos in 0..n {
                for (t, o) in &cc {
                    let comps: Vec<Comp> = (0..n).map(|i| if i == pos { Comp { name: name(i), ty: t.clone(), opt: o.clone() } } else { Comp { name: name(i), ty: Ty::Bool, opt: Opt::Req } }).collect();
                    for mk in [None, Some(0), Some(pos), Some(pos + 1), Some(n)] {
                        tys.push(Ty::Seq(with_marker(comps.clone(), mk)));
                        if n % 3 == 0 {
                            tys.push(Ty::Set(with_marker(comps.clone(), mk)));
                        }
                    }
                }
                if n % 2 == 0 {
                    for t in &alpha {
                        let comps: Vec<Comp> = (0..n).map(|i| if i == pos { Comp { name: name(i), ty: t.clone(), opt: Opt::Req } } else { Comp { name: name(i), ty: Ty::Bool, opt: Opt::Req } }).collect();
                        tys.push(Ty::Choice(with_marker(comps.clone(), Some(pos.max(1)))));
                    }
                }
            }
        }
        // --- container chains to depth 4
        let conts = ["seq", "set", "choice", "seqof", "setof"];
        let leaves: Vec<(Ty, Opt)> = vec![(Ty::Bool, Opt::Req), (Ty::Ref, Opt::Optional), (Ty::SelfRef, Opt::Optional), (Ty::U8, Opt::Default)];
        fn build(chain: &[&str], leaf: &(Ty, Opt)) -> Option<Ty> {
            if chain.is_empty() {
                return Some(leaf.0.clone());
            }
            let last_container = chain.len() == 1;
            let inner = build(&chain[1..], leaf)?;
            let opt = if last_container { leaf.1.clone() } else { Opt::Req };
            Some(match chain[0] {
                "seq" => Ty::Seq(Body::of(vec![Comp { name: "c0".into(), ty: inner, opt }])),
                "set" => Ty::Set(Body::of(vec![Comp { name: "c0".into(), ty: inner, opt }])),
                "choice" => {
                    // a second, non-recursive alternative keeps the type finite
                    Ty::Choice(Body::of(vec![Comp { name: "c0".into(), ty: inner, opt: Opt::Req }, Comp { name: "c1".into(), ty: Ty::Null, opt: Opt::Req }]))
                }
                "seqof" => {
                    if last_container && leaf.1 != Opt::Req {
                        return None;
                    }
                    Ty::SeqOf(Box::new(inner))
                }
                _ => {
                    if last_container && leaf.1 != Opt::Req {
                        return None;
                    }
                    Ty::SetOf(Box::new(inner))
                }
            })
        }
        let dmax = if tier.thorough() { 4 } else { 3 };
        let mut chains: Vec<Vec<&str>> = vec![vec![]];
        for _ in 0..dmax {
            let mut next = vec![];
            for c in &chains {
                for k in conts {
                    let mut c2 = c.clone();
                    c2.push(k);
                    next.push(c2);
                }
            }
            for c in &next {
                for leaf in &leaves {
                    // optionality of the leaf is only meaningful when the innermost container is SEQUENCE/SET
                    let last = *c.last().unwrap();
                    if leaf.1 != Opt::Req && !(last == "seq" || last == "set") {
                        if !(matches!(leaf.0, Ty::SelfRef) && last != "seq" && last != "set") {
                            continue;
                        }
                    }
                    let mut leaf2 = leaf.clone();
                    if matches!(leaf.0, Ty::SelfRef) && !(last == "seq" || last == "set") {
                        leaf2.1 = Opt::Req;
                        // self reference directly under CHOICE / OF is finite (other alternative / empty list)
                    }
                    if let Some(t) = build(c, &leaf2) {
                        tys.push(t);
                    }
                }
            }
            chains = next;
        }
        tys.extend(of_towers(if tier.thorough() { 4 } else { 3 }));
        // --- every other built-in type in every kind of position (the type mapping is one match arm per type)
        for (asn, _, _, _) in BUILTINS.iter() {
            let b = Ty::Builtin(asn.to_string());
            tys.push(b.clone());
            tys.push(Ty::SeqOf(Box::new(b.clone())));
            tys.push(Ty::SetOf(Box::new(b.clone())));
            for opt in [Opt::Req, Opt::Optional] {
                let comps = vec![Comp { name: "c0".into(), ty: Ty::Bool, opt: Opt::Req }, Comp { name: "c1".into(), ty: b.clone(), opt: opt.clone() }, Comp { name: "c2".into(), ty: Ty::SeqOf(Box::new(b.clone())), opt: opt.clone() }];
                tys.push(Ty::Seq(Body::of(comps.clone())));
                tys.push(Ty::Set(Body::of(comps)));
            }
            tys.push(Ty::Choice(Body::of(vec![Comp { name: "c0".into(), ty: b.clone(), opt: Opt::Req }, Comp { name: "c1".into(), ty: Ty::SetOf(Box::new(b.clone())), opt: Opt::Req }, Comp { name: "c2".into(), ty: Ty::Null, opt: Opt::Req }])));
        }
        // environments
        let mut out = vec![];
        let envs: Vec<(&str, bool)> = vec![("AUTOMATIC", false), ("EXPLICIT", false), ("IMPLICIT", false), ("", false), ("AUTOMATIC", true), ("EXPLICIT", true), ("IMPLICIT", true), ("", true)];
        for (k, t) in tys.iter().enumerate() {
            if tier.thorough() || t.depth() <= 1 {
                for (d, i) in &envs {
                    // quick: full environment product only for small shapes, one rotating environment otherwise
                    out.push(Case { ty: t.clone(), tagdef: d.to_string(), implied: *i, others: vec![], aliases: vec![] });
                }
            } else {
                let (d, i) = envs[k % envs.len()];
                out.push(Case { ty: t.clone(), tagdef: "AUTOMATIC".into(), implied: false, others: vec![], aliases: vec![] });
                out.push(Case { ty: t.clone(), tagdef: d.to_string(), implied: i, others: vec![], aliases: vec![] });
            }
        }
        // --- mutual recursion between top-level types: every 2-cycle A->B->A over node kinds × edge kinds,
        //     3-cycles over a reduced edge alphabet
        let node = |kind: &str, edge: &str, target: &str| -> Ty {
            let t = Ty::Named(target.to_string());
            let (ety, opt) = match edge {
                "req" => (t, Opt::Req),
                "opt" => (t, Opt::Optional),
                "anon-seq" => (Ty::Seq(Body::of(vec![Comp { name: "d0".into(), ty: t, opt: Opt::Req }, Comp { name: "d1".into(), ty: Ty::Int, opt: Opt::Req }])), Opt::Req),
                "anon-set" => (Ty::Set(Body::of(vec![Comp { name: "d0".into(), ty: t, opt: Opt::Req }, Comp { name: "d1".into(), ty: Ty::Int, opt: Opt::Req }])), Opt::Req),
                "anon-set-opt" => (Ty::Set(Body::of(vec![Comp { name: "d0".into(), ty: t, opt: Opt::Optional }])), Opt::Req),
                "anon-choice" => (Ty::Choice(Body::of(vec![Comp { name: "d0".into(), ty: t, opt: Opt::Req }, Comp { name: "d1".into(), ty: Ty::Null, opt: Opt::Req }])), Opt::Req),
                "seqof" => (Ty::SeqOf(Box::new(t)), Opt::Req),
                _ => (Ty::SetOf(Box::new(t)), Opt::Req),
            };
            let comps = vec![Comp { name: "c0".into(), ty: Ty::U8, opt: Opt::Req }, Comp { name: "c1".into(), ty: ety, opt: if kind == "choice" { Opt::Req } else { opt } }, Comp { name: "c2".into(), ty: Ty::Bool, opt: Opt::Req }];
            match kind {
                "seq" => Ty::Seq(Body::of(comps)),
                "set" => Ty::Set(Body::of(comps)),
                _ => Ty::Choice(Body::of(comps)),
            }
        };
        let finite = |kind: &str, edge: &str| kind == "choice" || matches!(edge, "opt" | "anon-set-opt" | "anon-choice" | "seqof" | "setof");
        let kinds = ["seq", "set", "choice"];
        let edges = ["req", "opt", "anon-seq", "anon-set", "anon-set-opt", "anon-choice", "seqof", "setof"];
        for ka in kinds {
            for ea in edges {
                for kb in kinds {
                    for eb in edges {
                        if !(finite(ka, ea) || finite(kb, eb)) {
                            continue;
                        }
                        out.push(Case { ty: node(ka, ea, "B"), tagdef: "AUTOMATIC".into(), implied: false, others: vec![("B".into(), node(kb, eb, "A"))], aliases: vec![] });
                    }
                }
            }
        }
        // --- cycles that pass through a type assignment which is only a reference (plain, tagged, two hops): A -> B ::= A
        for ka in kinds {
            for ea in edges {
                if !finite(ka, ea) {
                    continue;
                }
                for (td, alias) in [("AUTOMATIC", "A"), ("AUTOMATIC", "[0] A"), ("EXPLICIT", "[APPLICATION 3] A"), ("IMPLICIT", "[7] EXPLICIT A")] {
                    out.push(Case { ty: node(ka, ea, "B"), tagdef: td.into(), implied: false, others: vec![], aliases: vec![("B".into(), alias.into(), "A".into())] });
                    out.push(Case { ty: node(ka, ea, "B"), tagdef: td.into(), implied: false, others: vec![], aliases: vec![("B".into(), "Cc".into(), "Cc".into()), ("Cc".into(), alias.into(), "A".into())] });
                }
                // ... and through an alias plus a second constructed type: A -> B ::= C, C -> A
                for kc in kinds {
                    out.push(Case { ty: node(ka, ea, "B"), tagdef: "AUTOMATIC".into(), implied: false, others: vec![("Cc".into(), node(kc, "opt", "A"))], aliases: vec![("B".into(), "[1] Cc".into(), "Cc".into())] });
                }
            }
        }
        // --- type names whose Rust form is not the snake-case inverse of the ASN.1 name (acronyms, one-letter words, digits):
        // items derived from the name (default functions, hoisted types) must still be found under the names the
        // annotations use.  Every 1..2-component SEQUENCE / SET over the alphabet without references.
        fn refers(t: &Ty) -> bool {
            match t {
                Ty::Ref | Ty::SelfRef => true,
                Ty::SeqOf(e) | Ty::SetOf(e) => refers(e),
                other => other.uses_ref(),
            }
        }
        let plain: Vec<(Ty, Opt)> = cc.iter().filter(|(t, _)| !refers(t)).cloned().collect();
        let a_stub = Ty::Seq(Body::of(vec![Comp { name: "c0".into(), ty: Ty::Bool, opt: Opt::Req }]));
        for tn in ["PDU-Header", "X-Y", "Ab-CD-e", "UE-Cap2", "Ty-1", "NGAP-PDU"] {
            let mut lists: Vec<Vec<(Ty, Opt)>> = plain.iter().map(|c| vec![c.clone()]).collect();
            if tier.thorough() || tn == "PDU-Header" {
                for a in &plain {
                    for b in &plain {
                        lists.push(vec![a.clone(), b.clone()]);
                    }
                }
            }
            for l in lists {
                let comps: Vec<Comp> = l.iter().enumerate().map(|(i, (t, o))| Comp { name: name(i), ty: t.clone(), opt: o.clone() }).collect();
                for set in [false, true] {
                    let t = if set { Ty::Set(Body::of(comps.clone())) } else { Ty::Seq(Body::of(comps.clone())) };
                    out.push(Case { ty: a_stub.clone(), tagdef: "AUTOMATIC".into(), implied: false, others: vec![(tn.into(), t)], aliases: vec![] });
                }
            }
        }
        let edges3 = ["req", "opt", "anon-seq", "anon-set", "anon-choice"];
        for ka in kinds {
            for ea in edges3 {
                for kb in kinds {
                    for eb in edges3 {
                        for kc in kinds {
                            for ec in ["opt", "anon-set-opt", "anon-choice"] {
                                if !tier.thorough() && (ka == "choice" || kb == "choice") && kc == "choice" {
                                    continue;
                                }
                                out.push(Case { ty: node(ka, ea, "B"), tagdef: "AUTOMATIC".into(), implied: false, others: vec![("B".into(), node(kb, eb, "C")), ("C".into(), node(kc, ec, "A"))], aliases: vec![] });
                            }
                        }
                    }
                }
            }
        }
        out
    }
    fn check(&self, c: &Case) -> CaseResult {
        let src = if c.others.is_empty() && c.aliases.is_empty() {
            module_text(&c.ty, &c.tagdef, c.implied)
        } else {
            let mut body = format!("A ::= {}\n", ty_text(&c.ty, "A"));
            for (n, t) in &c.others {
                body += &format!("{n} ::= {}\n", ty_text(t, n));
            }
            for (n, text, _) in &c.aliases {
                body += &format!("{n} ::= {text}\n");
            }
            module("M", &c.tagdef, c.implied, &body)
        };
        let o = compile1(&src);
        let gen = match &o {
            Outcome::Ok { generated, warnings } if warnings.is_empty() => generated.clone(),
            Outcome::Panic { message, location } => return CaseResult { discs: vec![Disc::new(format!("panic|{location}"), format!("{message}\n{src}"))], nontrivial: false, outcome: "panic".into(), skipped: None },
            other => {
                return CaseResult { discs: vec![Disc::new(format!("shape|rejected|top={}|{}", c.ty.kind(), other.class()), format!("supported type not compiled cleanly: {}\n{src}", other.brief()))], nontrivial: false, outcome: other.class().into(), skipped: None };
            }
        };
        let p = match project(&gen) {
            Ok(p) => p,
            Err(e) => return CaseResult { discs: vec![Disc::new("shape|unparsable", format!("{e}\n{src}\n{gen}"))], nontrivial: false, outcome: "unparsable".into(), skipped: None },
        };
        let m = match p.only() {
            Some(m) => m,
            None => return CaseResult { discs: vec![Disc::new("shape|module-count", format!("{} modules\n{src}", p.modules.len()))], nontrivial: false, outcome: "modules".into(), skipped: None },
        };
        let full = format!("{src}\n--- generated ---\n{gen}");
        let mut cmp = Cmp { m, discs: vec![], visited: Default::default(), implied: c.implied, prefix: "shape", src: &full, check_ext: false, check_shape: true };
        cmp.top(&c.ty);
        for (n, t) in &c.others {
            cmp.top_named(&rust_type_name(n), t);
        }
        if c.ty.uses_ref() {
            cmp.visited.insert("T".into());
        }
        for (n, _, target) in &c.aliases {
            // a reference assignment is a delegate newtype over the referenced type (boxed or not: finish() judges the cycles)
            cmp.visited.insert(n.clone());
            match m.find(n) {
                Some(Item::Struct { tuple: Some(tu), .. }) if tu.len() == 1 && (tu[0] == *target || tu[0] == format!("Box<{target}>")) => {}
                other => cmp.discs.push(Disc::new("shape|container=top|comp=alias|kind=type".to_string(), format!("{n} ::= <reference to {target}> rendered as {other:?}\n{full}"))),
            }
        }
        cmp.finish(&[]);
        CaseResult { discs: cmp.discs, nontrivial: true, outcome: format!("ok:{}", c.ty.kind()), skipped: None }
    }
}
