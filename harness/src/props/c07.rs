//! C07 — value assignments and DEFAULTs denote the source abstract value.
use crate::common::*;
use crate::driver::*;
use crate::wire::{apply_tag, der_int, from_hex, parse_tlv, run_wire, tlv, to_hex, WireCase, WireOutcome};
use serde::{Deserialize, Serialize};
use std::collections::{BTreeMap, HashMap};
use std::sync::atomic::{AtomicBool, Ordering};
use std::sync::{Mutex, OnceLock};

pub struct C07;

#[derive(Clone, Serialize, Deserialize, PartialEq, Debug)]
pub enum Val {
    /// decimal string (i128 range)
    Int(String),
    Bool(bool),
    Null,
    Str(String),
    Bits(Vec<bool>),
    /// bit string given by named bits: compared modulo trailing zero bits (X.680 §22.7)
    NamedBits(Vec<bool>),
    Octets(Vec<u8>),
    Oid(Vec<u32>),
    Enum(String),
    Choice(String, Box<Val>),
    Seq(Vec<Val>),
    List(Vec<Val>),
    /// value of an OPTIONAL component: absent / present
    Opt(Option<Box<Val>>),
}

/// type trees of the composite-value family (AUTOMATIC TAGS; members m0.., alternatives a0..)
#[derive(Clone, Serialize, Deserialize, PartialEq, Debug)]
pub enum VT {
    Int,
    Bool,
    Null,
    /// reference to `Enu ::= ENUMERATED { x, y(7), z-z }`
    Enum,
    /// reference to `Nn ::= INTEGER { one(1), two(2) }`
    Named,
    /// reference to `Bs ::= BIT STRING { f0(0), f2(2) }`
    Bits,
    /// `ENUMERATED { p, q-r }` written in place (an anonymous type)
    IEnum,
    /// (member type, OPTIONAL)
    Seq(Vec<(VT, bool)>),
    Cho(Vec<VT>),
    Of(Box<VT>),
    /// SET OF
    SetOf(Box<VT>),
}

impl VT {
    fn label(&self) -> String {
        match self {
            VT::Int => "i".into(),
            VT::Bool => "b".into(),
            VT::Null => "n".into(),
            VT::Enum => "e".into(),
            VT::Named => "N".into(),
            VT::Bits => "B".into(),
            VT::IEnum => "E".into(),
            VT::Seq(ms) => format!("S({})", ms.iter().map(|(t, o)| format!("{}{}", t.label(), if *o { "?" } else { "" })).collect::<Vec<_>>().join(",")),
            VT::Cho(a) => format!("C({})", a.iter().map(|t| t.label()).collect::<Vec<_>>().join(",")),
            VT::Of(e) => format!("O({})", e.label()),
            VT::SetOf(e) => format!("o({})", e.label()),
        }
    }
    /// ASN.1 text; with `named`, every constructed type below the top is a type assignment of its own (pushed to `defs`)
    fn text(&self, named: bool, defs: &mut Vec<String>, top: bool) -> String {
        let t = match self {
            VT::Int => return "INTEGER".into(),
            VT::Bool => return "BOOLEAN".into(),
            VT::Null => return "NULL".into(),
            VT::Enum => return "Enu".into(),
            VT::Named => return "Nn".into(),
            VT::Bits => return "Bs".into(),
            VT::IEnum => return "ENUMERATED { p, q-r }".into(),
            VT::Seq(ms) => format!("SEQUENCE {{ {} }}", ms.iter().enumerate().map(|(i, (t, o))| format!("m{i} {}{}", t.text(named, defs, false), if *o { " OPTIONAL" } else { "" })).collect::<Vec<_>>().join(", ")),
            VT::Cho(a) => format!("CHOICE {{ {} }}", a.iter().enumerate().map(|(i, t)| format!("a{i} {}", t.text(named, defs, false))).collect::<Vec<_>>().join(", ")),
            VT::Of(e) => format!("SEQUENCE OF {}", e.text(named, defs, false)),
            VT::SetOf(e) => format!("SET OF {}", e.text(named, defs, false)),
        };
        if named && !top {
            let n = format!("Nd{}", defs.len());
            defs.push(format!("{n} ::= {t}"));
            n
        } else {
            t
        }
    }
    /// (value notation, abstract value): every alternative / presence / length 0..2, one component varied at a time
    fn values(&self) -> Vec<(String, Val)> {
        match self {
            VT::Int => vec![("5".into(), Val::Int("5".into())), ("-300".into(), Val::Int("-300".into())), ("six".into(), Val::Int("6".into()))],
            VT::Enum => vec![("y".into(), Val::Enum("Enu::y".into())), ("z-z".into(), Val::Enum("Enu::z_z".into()))],
            VT::Named => vec![("two".into(), Val::Int("2".into())), ("9".into(), Val::Int("9".into()))],
            // (the name of the hoisted type depends on the position: `*` stands for it)
            VT::IEnum => vec![("q-r".into(), Val::Enum("*::q_r".into())), ("p".into(), Val::Enum("*::p".into()))],
            VT::Bits => vec![("{ f2 }".into(), Val::NamedBits(vec![false, false, true])), ("'11'B".into(), Val::Bits(vec![true, true]))],
            VT::Bool => vec![("TRUE".into(), Val::Bool(true)), ("FALSE".into(), Val::Bool(false))],
            VT::Null => vec![("NULL".into(), Val::Null)],
            VT::Seq(ms) => {
                // per member: its values, plus absence when OPTIONAL
                let per: Vec<Vec<Option<(String, Val)>>> = ms.iter().map(|(t, o)| {
                    let mut v: Vec<Option<(String, Val)>> = t.values().into_iter().map(Some).collect();
                    if *o {
                        v.push(None);
                    }
                    v
                }).collect();
                let mut combos: Vec<Vec<usize>> = vec![vec![0; ms.len()]];
                for (i, p) in per.iter().enumerate() {
                    for k in 1..p.len() {
                        let mut c = vec![0; ms.len()];
                        c[i] = k;
                        combos.push(c);
                    }
                }
                combos.into_iter().map(|c| {
                    let mut texts = vec![];
                    let mut vals = vec![];
                    for (i, k) in c.iter().enumerate() {
                        match &per[i][*k] {
                            Some((t, v)) => {
                                texts.push(format!("m{i} {t}"));
                                vals.push(if ms[i].1 { Val::Opt(Some(Box::new(v.clone()))) } else { v.clone() });
                            }
                            None => vals.push(Val::Opt(None)),
                        }
                    }
                    (format!("{{ {} }}", texts.join(", ")), Val::Seq(vals))
                }).collect()
            }
            VT::Cho(a) => a.iter().enumerate().flat_map(|(i, t)| t.values().into_iter().map(move |(tx, v)| (format!("a{i}:{tx}"), Val::Choice(format!("a{i}"), Box::new(v))))).collect(),
            VT::Of(e) | VT::SetOf(e) => {
                let ev = e.values();
                let mut out = vec![("{ }".to_string(), Val::List(vec![])), (format!("{{ {} }}", ev[0].0), Val::List(vec![ev[0].1.clone()]))];
                let second = ev.get(1).unwrap_or(&ev[0]);
                out.push((format!("{{ {}, {} }}", ev[0].0, second.0), Val::List(vec![ev[0].1.clone(), second.1.clone()])));
                out
            }
        }
    }
}

impl VT {
    pub fn first_value_text(&self) -> String {
        self.values().into_iter().next().map(|x| x.0).unwrap_or_default()
    }
    pub fn depth(&self) -> usize {
        match self {
            VT::Seq(ms) => 1 + ms.iter().map(|(t, _)| t.depth()).max().unwrap_or(0),
            VT::Cho(a) => 1 + a.iter().map(|t| t.depth()).max().unwrap_or(0),
            VT::Of(e) | VT::SetOf(e) => 1 + e.depth(),
            _ => 0,
        }
    }
}

/// structural features of a composite value that the bindings' type-checking is known to depend on
/// (P: a present OPTIONAL component, L: a non-empty list, E: a list whose elements are of an inline CHOICE / SEQUENCE type)
pub fn value_class(c: &Case) -> String {
    fn has_opt(v: &Val) -> bool {
        match v {
            Val::Opt(Some(_)) => true,
            Val::Opt(None) => false,
            Val::Choice(_, x) => has_opt(x),
            Val::Seq(ms) | Val::List(ms) => ms.iter().any(has_opt),
            _ => false,
        }
    }
    fn has_list(v: &Val) -> bool {
        match v {
            Val::List(ms) => !ms.is_empty(),
            Val::Opt(Some(x)) | Val::Choice(_, x) => has_list(x),
            Val::Seq(ms) => ms.iter().any(has_list),
            _ => false,
        }
    }
    fn of_constructed(t: &VT) -> bool {
        match t {
            VT::Of(e) | VT::SetOf(e) => matches!(**e, VT::Cho(_) | VT::Seq(_) | VT::Of(_) | VT::SetOf(_)) || of_constructed(e),
            VT::Seq(ms) => ms.iter().any(|(t, _)| of_constructed(t)),
            VT::Cho(a) => a.iter().any(of_constructed),
            _ => false,
        }
    }
    let mut s = String::new();
    if has_opt(&c.expected) {
        s.push('P');
    }
    if has_list(&c.expected) {
        s.push('L');
    }
    if c.vt.as_ref().map_or(false, of_constructed) && has_list(&c.expected) && c.feature.ends_with("inline-types") {
        s.push('E');
    }
    if s.is_empty() {
        s.push('-');
    }
    s
}

/// X.690 DER of `v` as a value of `t` (module with AUTOMATIC TAGS)
pub fn der_vt(v: &Val, t: &VT) -> Option<Vec<u8>> {
    Some(match (t, v) {
        (VT::Int, Val::Int(_)) => der_value(v, "INTEGER")?,
        (VT::Bool, Val::Bool(_)) => der_value(v, "BOOLEAN")?,
        (VT::Null, Val::Null) => der_value(v, "NULL")?,
        (VT::Enum, Val::Enum(_)) => der_value(v, "Enu")?,
        (VT::Named, Val::Int(_)) => der_value(v, "INTEGER")?,
        (VT::IEnum, Val::Enum(e)) => tlv(0, false, 10, &[if e.ends_with("::p") { 0 } else { 1 }]),
        (VT::Bits, Val::NamedBits(_)) | (VT::Bits, Val::Bits(_)) => der_value(v, "BIT STRING")?,
        (VT::Seq(ms), Val::Seq(vs)) if ms.len() == vs.len() => {
            let mut c = vec![];
            for (i, ((mt, opt), mv)) in ms.iter().zip(vs.iter()).enumerate() {
                let inner = match (opt, mv) {
                    (true, Val::Opt(None)) => continue,
                    (true, Val::Opt(Some(x))) => der_vt(x, mt)?,
                    (false, x) => der_vt(x, mt)?,
                    _ => return None,
                };
                c.extend(apply_tag(&inner, 2, i as u32, matches!(mt, VT::Cho(_))));
            }
            tlv(0, true, 16, &c)
        }
        (VT::Cho(alts), Val::Choice(a, inner)) => {
            let i: usize = a.strip_prefix('a')?.parse().ok()?;
            let at = alts.get(i)?;
            apply_tag(&der_vt(inner, at)?, 2, i as u32, matches!(at, VT::Cho(_)))
        }
        (VT::Of(e), Val::List(es)) => {
            let mut c = vec![];
            for x in es {
                c.extend(der_vt(x, e)?);
            }
            tlv(0, true, 16, &c)
        }
        // DER: the encodings of the elements of a SET OF in ascending order
        (VT::SetOf(e), Val::List(es)) => {
            let mut encs: Vec<Vec<u8>> = es.iter().map(|x| der_vt(x, e)).collect::<Option<Vec<_>>>()?;
            encs.sort();
            tlv(0, true, 17, &encs.concat())
        }
        _ => return None,
    })
}

fn reference_der(c: &Case) -> Option<Vec<u8>> {
    match &c.vt {
        Some(t) => der_vt(&c.expected, t),
        None => der_value(&c.expected, &c.ty),
    }
}

/// the type trees: leaves, every constructor over leaves (depth 1), every constructor over leaves and 8 depth-1 representatives (depth 2)
pub fn value_trees(thorough: bool) -> Vec<VT> {
    let leaves = vec![VT::Int, VT::Bool, VT::Null];
    let build = |kids: &Vec<VT>, second: &Vec<VT>| -> Vec<VT> {
        let mut v = vec![];
        for a in kids {
            v.push(VT::Seq(vec![(a.clone(), false)]));
            v.push(VT::Seq(vec![(a.clone(), true)]));
            v.push(VT::Of(Box::new(a.clone())));
            if matches!(a, VT::Int | VT::Bool) || matches!(a, VT::Seq(ms) if ms.len() == 1 && !ms[0].1) {
                v.push(VT::SetOf(Box::new(a.clone())));
            }
            for b in second {
                v.push(VT::Seq(vec![(a.clone(), false), (b.clone(), false)]));
                v.push(VT::Seq(vec![(a.clone(), false), (b.clone(), true)]));
                v.push(VT::Seq(vec![(a.clone(), true), (b.clone(), false)]));
                v.push(VT::Cho(vec![a.clone(), b.clone()]));
            }
        }
        v
    };
    let mut out = build(&leaves, &leaves);
    // leaves whose values are names (enumeral, named number, named bits): first member / alternative / element
    out.extend(build(&vec![VT::Enum, VT::Named, VT::Bits, VT::IEnum], &vec![VT::Int]));
    let reps = vec![
        VT::Seq(vec![(VT::Int, false)]),
        VT::Seq(vec![(VT::Int, false), (VT::Bool, true)]),
        VT::Seq(vec![(VT::Bool, true)]),
        VT::Cho(vec![VT::Int, VT::Null]),
        VT::Cho(vec![VT::Bool, VT::Bool]),
        VT::Of(Box::new(VT::Int)),
        VT::Of(Box::new(VT::Bool)),
        VT::Seq(vec![(VT::Null, false), (VT::Int, false)]),
        VT::SetOf(Box::new(VT::Int)),
    ];
    let mut kids = leaves.clone();
    kids.extend(reps.clone());
    // depth 2: at least one constructed child
    let second: Vec<VT> = if thorough { kids.clone() } else { vec![VT::Int, VT::Bool, reps[0].clone(), reps[3].clone(), reps[5].clone()] };
    for t in build(&kids, &second) {
        if !out.contains(&t) {
            out.push(t);
        }
    }
    out
}

#[derive(Clone, Serialize, Deserialize)]
pub struct Case {
    /// notation label, e.g. "int", "cstring:IA5String", "hstring:bits", "oid"
    pub notation: String,
    /// ASN.1 type text of the value (may reference helper definitions in `prelude`)
    pub ty: String,
    /// helper definitions the type / value needs
    pub prelude: String,
    /// value notation
    pub value: String,
    pub expected: Val,
    /// assign | typeref | valref | default | default-valref
    pub route: String,
    /// feature tag for the discrepancy key
    pub feature: String,
    /// composite-value family: the type tree of `ty` (reference encoder)
    #[serde(default)]
    pub vt: Option<VT>,
}

pub fn text(c: &Case) -> String {
    let body = match c.route.as_str() {
        "assign" => format!("{}\nval {} ::= {}", c.prelude, c.ty, c.value),
        // the same assignment between neighbours whose notation contains quotes, doubled quotes, braces and comment markers
        "neighbours" => format!("{}\naa UTF8String ::= \"p\"\"p\"\nab BIT STRING ::= '01'B -- '' \"\" --\nval {} ::= {}\nzy OCTET STRING ::= 'AF'H\nzz UTF8String ::= \"q\"\"q -- {{\"", c.prelude, c.ty, c.value),
        "typeref" => format!("{}\nTy1 ::= {}\nTy2 ::= Ty1\nval Ty2 ::= {}", c.prelude, c.ty, c.value),
        "valref" => format!("{}\nbase {} ::= {}\nval {} ::= base", c.prelude, c.ty, c.value, c.ty),
        "default" => format!("{}\nHolder ::= SEQUENCE {{ f {} DEFAULT {} }}", c.prelude, c.ty, c.value),
        // DEFAULT of a component of the (anonymous) element type of a SEQUENCE OF
        "default-of-element" => format!("{}\nHolder ::= SEQUENCE OF SEQUENCE {{ f {} DEFAULT {} }}", c.prelude, c.ty, c.value),
        // DEFAULT of a component whose type is written inline (composite-value family, inline mode)
        "default-inline" => {
            let (defs, top) = c.prelude.rsplit_once("Top ::= ").unwrap_or(("", "NULL"));
            format!("{defs}\nHolder ::= SEQUENCE {{ f {top} DEFAULT {} }}", c.value)
        }
        "default-valref" => format!("{}\nbase {} ::= {}\nHolder ::= SEQUENCE {{ f {} DEFAULT base }}", c.prelude, c.ty, c.value, c.ty),
        _ => unreachable!(),
    };
    module("M", "AUTOMATIC", false, &body)
}

// ------------------------------------------------------------------ symbolic evaluation of initialisers
struct Env<'a> {
    file: &'a syn::File,
    depth: usize,
}

fn items_of(file: &syn::File) -> Vec<&syn::Item> {
    let mut v = vec![];
    for it in &file.items {
        if let syn::Item::Mod(m) = it {
            if let Some((_, items)) = &m.content {
                v.extend(items.iter());
            }
        }
    }
    v
}

/// initialiser expression of const / static / lazy_static `name`
fn find_value_expr(file: &syn::File, name: &str) -> Option<syn::Expr> {
    for it in items_of(file) {
        match it {
            syn::Item::Const(c) if c.ident == name => return Some((*c.expr).clone()),
            syn::Item::Static(s) if s.ident == name => {
                // LazyLock::new(|| expr)
                if let syn::Expr::Call(call) = &*s.expr {
                    if let Some(syn::Expr::Closure(cl)) = call.args.first() {
                        return Some((*cl.body).clone());
                    }
                }
                return Some((*s.expr).clone());
            }
            _ => {}
        }
    }
    None
}
fn find_fn_body(file: &syn::File, name: &str) -> Option<syn::Expr> {
    for it in items_of(file) {
        if let syn::Item::Fn(f) = it {
            if f.sig.ident == name {
                if let Some(syn::Stmt::Expr(e, None)) = f.block.stmts.last() {
                    return Some(e.clone());
                }
            }
        }
    }
    None
}

fn path_segs(p: &syn::Path) -> Vec<String> {
    p.segments.iter().map(|s| s.ident.to_string()).collect()
}

fn eval(e: &syn::Expr, env: &Env) -> Result<Val, String> {
    use syn::Expr;
    if env.depth > 12 {
        return Err("reference chain too deep".into());
    }
    match e {
        Expr::Paren(p) => eval(&p.expr, env),
        Expr::Group(g) => eval(&g.expr, env),
        Expr::Reference(r) => eval(&r.expr, env),
        Expr::Unary(u) => match u.op {
            syn::UnOp::Neg(_) => match eval(&u.expr, env)? {
                Val::Int(s) => Ok(Val::Int(if let Some(p) = s.strip_prefix('-') { p.to_string() } else { format!("-{s}") })),
                other => Err(format!("negation of {other:?}")),
            },
            syn::UnOp::Deref(_) => eval(&u.expr, env),
            _ => Err("unary op".into()),
        },
        Expr::Lit(l) => match &l.lit {
            syn::Lit::Int(i) => Ok(Val::Int(i.base10_digits().to_string())),
            syn::Lit::Bool(b) => Ok(Val::Bool(b.value)),
            syn::Lit::Str(s) => Ok(Val::Str(s.value())),
            _ => Err("literal kind".into()),
        },
        Expr::Tuple(t) if t.elems.is_empty() => Ok(Val::Null),
        Expr::Array(a) => Ok(Val::List(a.elems.iter().map(|x| eval(x, env)).collect::<Result<Vec<_>, _>>()?)),
        Expr::Macro(m) => {
            let segs = path_segs(&m.mac.path);
            if segs.last().map(|s| s.as_str()) == Some("vec") {
                let parser = syn::punctuated::Punctuated::<syn::Expr, syn::Token![,]>::parse_terminated;
                let elems = syn::parse::Parser::parse2(parser, m.mac.tokens.clone()).map_err(|e| e.to_string())?;
                Ok(Val::List(elems.iter().map(|x| eval(x, env)).collect::<Result<Vec<_>, _>>()?))
            } else {
                Err(format!("macro {segs:?}"))
            }
        }
        Expr::Path(p) => {
            let segs = path_segs(&p.path);
            if p.qself.is_some() {
                return Err("qualified path value".into());
            }
            match segs.len() {
                1 if segs[0] == "None" => Ok(Val::Opt(None)),
                1 => {
                    // reference to another constant
                    let inner = find_value_expr(env.file, &segs[0]).ok_or(format!("unknown constant {}", segs[0]))?;
                    eval(&inner, &Env { file: env.file, depth: env.depth + 1 })
                }
                2 => Ok(Val::Enum(format!("{}::{}", segs[0], segs[1]))),
                _ => Err(format!("path {segs:?}")),
            }
        }
        Expr::MethodCall(m) => {
            let name = m.method.to_string();
            match name.as_str() {
                "unwrap" | "to_owned" | "clone" | "into" | "try_into" | "to_string" => eval(&m.receiver, env),
                "collect" => {
                    // [bools].into_iter().collect()
                    if let Expr::MethodCall(inner) = &*m.receiver {
                        if inner.method == "into_iter" {
                            if let Val::List(l) = eval(&inner.receiver, env)? {
                                let mut bits = vec![];
                                for x in l {
                                    match x {
                                        Val::Bool(b) => bits.push(b),
                                        o => return Err(format!("non-bool in bit list: {o:?}")),
                                    }
                                }
                                return Ok(Val::Bits(bits));
                            }
                        }
                    }
                    Err("collect form".into())
                }
                "concat" => {
                    // [&***O1, &[7u32, 8u32]].concat()
                    if let Val::List(parts) = eval(&m.receiver, env)? {
                        let mut arcs = vec![];
                        for p in parts {
                            match p {
                                Val::Oid(a) => arcs.extend(a),
                                Val::List(l) => {
                                    for x in l {
                                        match x {
                                            Val::Int(s) => arcs.push(s.parse::<u32>().map_err(|e| e.to_string())?),
                                            o => return Err(format!("arc {o:?}")),
                                        }
                                    }
                                }
                                o => return Err(format!("oid part {o:?}")),
                            }
                        }
                        Ok(Val::Oid(arcs))
                    } else {
                        Err("concat receiver".into())
                    }
                }
                "parse" => eval(&m.receiver, env),
                other => Err(format!("method {other}")),
            }
        }
        Expr::Call(c) => {
            let (segs, qself) = match &*c.func {
                Expr::Path(p) => (path_segs(&p.path), p.qself.is_some()),
                _ => return Err("call target".into()),
            };
            let args: Vec<&syn::Expr> = c.args.iter().collect();
            if qself {
                // <OctetString as From<&'static [u8]>>::from(&[..])
                if args.len() == 1 {
                    if let Val::List(l) = eval(args[0], env)? {
                        let mut bytes = vec![];
                        for x in l {
                            match x {
                                Val::Int(s) => bytes.push(s.parse::<u8>().map_err(|e| e.to_string())?),
                                o => return Err(format!("byte {o:?}")),
                            }
                        }
                        return Ok(Val::Octets(bytes));
                    }
                }
                return Err("qualified call".into());
            }
            let last = segs.last().cloned().unwrap_or_default();
            let first = segs.first().cloned().unwrap_or_default();
            match (segs.len(), first.as_str(), last.as_str()) {
                (2, "Integer", "from") | (2, "String", "from") | (2, "Utf8String", "from") | (2, "UniversalString", "new") => eval(args[0], env),
                (2, _, "try_from") => eval(args[0], env),
                (2, "SetOf", "from_vec") if args.len() == 1 => eval(args[0], env),
                (2, "Oid", "const_new") | (2, "Oid", "new") => match eval(args[0], env)? {
                    Val::List(l) => {
                        let mut arcs = vec![];
                        for x in l {
                            match x {
                                Val::Int(s) => arcs.push(s.parse::<u32>().map_err(|e| e.to_string())?),
                                o => return Err(format!("arc {o:?}")),
                            }
                        }
                        Ok(Val::Oid(arcs))
                    }
                    Val::Oid(a) => Ok(Val::Oid(a)),
                    o => Err(format!("oid arg {o:?}")),
                },
                (2, "BitString", "new") if args.is_empty() => Ok(Val::Bits(vec![])),
                (2, _, "new") => Ok(Val::Seq(args.iter().map(|a| eval(a, env)).collect::<Result<Vec<_>, _>>()?)),
                (2, _, alt) if args.len() == 1 => Ok(Val::Choice(alt.to_string(), Box::new(eval(args[0], env)?))),
                (1, "Some", _) if args.len() == 1 => Ok(Val::Opt(Some(Box::new(eval(args[0], env)?)))),
                (1, _, _) if args.len() == 1 => eval(args[0], env), // newtype wrapper
                _ => Err(format!("call {segs:?} with {} args", args.len())),
            }
        }
        other => Err(format!("expression form {}", quote::ToTokens::to_token_stream(other).to_string().chars().take(40).collect::<String>())),
    }
}

fn norm_int(s: &str) -> String {
    let neg = s.starts_with('-');
    let d = s.trim_start_matches('-').trim_start_matches('0');
    if d.is_empty() {
        "0".into()
    } else if neg {
        format!("-{d}")
    } else {
        d.into()
    }
}

fn same(exp: &Val, got: &Val) -> bool {
    match (exp, got) {
        (Val::Int(a), Val::Int(b)) => norm_int(a) == norm_int(b),
        (Val::NamedBits(a), Val::Bits(b)) => {
            let t = |v: &Vec<bool>| {
                let mut v = v.clone();
                while v.last() == Some(&false) {
                    v.pop();
                }
                v
            };
            t(a) == t(b)
        }
        (Val::Bits(a), Val::Bits(b)) => a == b,
        (Val::Choice(a, x), Val::Choice(b, y)) => a == b && same(x, y),
        (Val::Opt(Some(x)), Val::Opt(Some(y))) => same(x, y),
        (Val::Enum(a), Val::Enum(b)) if a.starts_with("*::") => b.rsplit("::").next() == a.rsplit("::").next(),
        (Val::Seq(a), Val::Seq(b)) | (Val::List(a), Val::List(b)) => a.len() == b.len() && a.iter().zip(b.iter()).all(|(x, y)| same(x, y)),
        // an enumerated / named-number constant may be rendered through its path
        (a, b) => a == b,
    }
}

// ---- time values: an independent reading of both notations as (seconds since 1970-01-01T00:00:00Z, fraction digits)
fn days_from_civil(y: i64, m: i64, d: i64) -> i64 {
    let y = if m <= 2 { y - 1 } else { y };
    let era = if y >= 0 { y } else { y - 399 } / 400;
    let yoe = y - era * 400;
    let doy = (153 * (if m > 2 { m - 3 } else { m + 9 }) + 2) / 5 + d - 1;
    let doe = yoe * 365 + yoe / 4 - yoe / 100 + doy;
    era * 146097 + doe - 719468
}
fn civil_from_days(z: i64) -> (i64, i64, i64) {
    let z = z + 719468;
    let era = if z >= 0 { z } else { z - 146096 } / 146097;
    let doe = z - era * 146097;
    let yoe = (doe - doe / 1460 + doe / 36524 - doe / 146096) / 365;
    let y = yoe + era * 400;
    let doy = doe - (365 * yoe + yoe / 4 - yoe / 100);
    let mp = (5 * doy + 2) / 153;
    let d = doy - (153 * mp + 2) / 5 + 1;
    let m = if mp < 10 { mp + 3 } else { mp - 9 };
    (if m <= 2 { y + 1 } else { y }, m, d)
}
fn instant(y: i64, mo: i64, d: i64, h: i64, mi: i64, s: i64, offset_min: i64) -> i64 {
    days_from_civil(y, mo, d) * 86400 + h * 3600 + mi * 60 + s - offset_min * 60
}
fn num(s: &str) -> Option<i64> {
    if !s.is_empty() && s.bytes().all(|b| b.is_ascii_digit()) { s.parse().ok() } else { None }
}
/// X.680 46 / 47 value notation -> instant; None for local times and fractions of minutes / hours
pub fn asn_time(v: &str, utc: bool) -> Option<(i64, String)> {
    let zi = v.find(|c| c == 'Z' || c == '+' || c == '-')?;
    let (dt, off) = v.split_at(zi);
    let offset_min = match off {
        "Z" => 0,
        o => {
            let sign = if o.starts_with('-') { -1 } else { 1 };
            let hh = num(o.get(1..3)?)?;
            let mm = if o.len() == 5 { num(&o[3..5])? } else if o.len() == 3 { 0 } else { return None };
            sign * (hh * 60 + mm)
        }
    };
    let (digits, frac) = match dt.find(|c| c == '.' || c == ',') {
        Some(i) => (&dt[..i], dt[i + 1..].to_string()),
        None => (dt, String::new()),
    };
    let (y, rest) = if utc {
        let yy = num(digits.get(..2)?)?;
        (if yy >= 50 { 1900 + yy } else { 2000 + yy }, digits.get(2..)?)
    } else {
        (num(digits.get(..4)?)?, digits.get(4..)?)
    };
    let (mo, d, h) = (num(rest.get(..2)?)?, num(rest.get(2..4)?)?, num(rest.get(4..6)?)?);
    let (mi, sec) = match rest.len() {
        6 => (0, 0),
        8 => (num(&rest[6..8])?, 0),
        10 => (num(&rest[6..8])?, num(&rest[8..10])?),
        _ => return None,
    };
    if !frac.is_empty() && rest.len() != 10 {
        return None;
    }
    Some((instant(y, mo, d, h, mi, sec, offset_min), frac.trim_end_matches('0').to_string()))
}
/// RFC 3339 date-time -> instant
pub fn rfc_time(v: &str) -> Option<(i64, String)> {
    let (date, time) = v.split_once('T')?;
    let dp: Vec<&str> = date.split('-').collect();
    if dp.len() != 3 {
        return None;
    }
    let zi = time.find(|c| c == 'Z' || c == '+' || c == '-')?;
    let (t, off) = time.split_at(zi);
    let offset_min = match off {
        "Z" => 0,
        o => {
            let sign = if o.starts_with('-') { -1 } else { 1 };
            let (hh, mm) = o[1..].split_once(':')?;
            sign * (num(hh)? * 60 + num(mm)?)
        }
    };
    let (hms, frac) = match t.split_once('.') {
        Some((a, b)) => (a, b.to_string()),
        None => (t, String::new()),
    };
    let tp: Vec<&str> = hms.split(':').collect();
    if tp.len() != 3 {
        return None;
    }
    Some((instant(num(dp[0])?, num(dp[1])?, num(dp[2])?, num(tp[0])?, num(tp[1])?, num(tp[2])?, offset_min), frac.trim_end_matches('0').to_string()))
}
/// the DER content of an instant
fn der_time(i: i64, frac: &str, utc: bool) -> String {
    let days = i.div_euclid(86400);
    let secs = i.rem_euclid(86400);
    let (y, m, d) = civil_from_days(days);
    let hms = format!("{:02}{:02}{:02}", secs / 3600, secs % 3600 / 60, secs % 60);
    if utc {
        format!("{:02}{m:02}{d:02}{hms}Z", y % 100)
    } else if frac.is_empty() {
        format!("{y:04}{m:02}{d:02}{hms}Z")
    } else {
        format!("{y:04}{m:02}{d:02}{hms}.{frac}Z")
    }
}

/// the value with every present OPTIONAL component unwrapped
fn strip_opt(v: &Val) -> Val {
    match v {
        Val::Opt(Some(x)) => strip_opt(x),
        Val::Choice(a, x) => Val::Choice(a.clone(), Box::new(strip_opt(x))),
        Val::Seq(ms) => Val::Seq(ms.iter().map(strip_opt).collect()),
        Val::List(ms) => Val::List(ms.iter().map(strip_opt).collect()),
        other => other.clone(),
    }
}

// ------------------------------------------------------------------ enumeration helpers
fn hex_bits(h: &str) -> Vec<bool> {
    let mut v = vec![];
    for c in h.chars() {
        let d = c.to_digit(16).unwrap();
        for k in (0..4).rev() {
            v.push(d & (1 << k) != 0);
        }
    }
    v
}
fn bits_to_octets(b: &[bool]) -> Vec<u8> {
    b.chunks(8).map(|c| c.iter().enumerate().fold(0u8, |acc, (i, x)| acc | ((*x as u8) << (7 - i)))).collect()
}

// ------------------------------------------------------------------------------------------------ wire level
// The generated constant (or the default of the generated Holder) is encoded by rasn's DER codec; the bytes
// must equal the X.690 encoding of the abstract value the ASN.1 source denotes (all helper types live in an
// AUTOMATIC TAGS module: components / alternatives carry context tags by position, explicit around CHOICE).

fn string_tag(ty: &str) -> Option<u32> {
    Some(match ty {
        "UTF8String" => 12,
        "NumericString" => 18,
        "PrintableString" => 19,
        "TeletexString" | "T61String" => 20,
        "IA5String" => 22,
        "GraphicString" => 25,
        "VisibleString" => 26,
        "GeneralString" => 27,
        "UniversalString" => 28,
        "BMPString" => 30,
        _ => return None,
    })
}

fn der_bits(bits: &[bool]) -> Vec<u8> {
    let mut content = vec![((8 - bits.len() % 8) % 8) as u8];
    content.extend(bits_to_octets(bits));
    tlv(0, false, 3, &content)
}

fn der_oid(arcs: &[u32]) -> Option<Vec<u8>> {
    if arcs.len() < 2 {
        return None;
    }
    let mut content = vec![];
    let mut push = |mut n: u64| {
        let mut stack = vec![(n & 0x7f) as u8];
        n >>= 7;
        while n > 0 {
            stack.push(((n & 0x7f) as u8) | 0x80);
            n >>= 7;
        }
        stack.reverse();
        content.extend(stack);
    };
    push(arcs[0] as u64 * 40 + arcs[1] as u64);
    for a in &arcs[2..] {
        push(*a as u64);
    }
    Some(tlv(0, false, 6, &content))
}

/// X.690 encoding of `v` as a value of the (helper) type named `ty`
pub fn der_value(v: &Val, ty: &str) -> Option<Vec<u8>> {
    let base = ty.split(" (").next().unwrap_or(ty).trim();
    Some(match (v, base) {
        (Val::Int(s), _) => tlv(0, false, 2, &der_int(s.parse::<i128>().ok()?)),
        (Val::Bool(b), _) => vec![1, 1, if *b { 0xff } else { 0 }],
        (Val::Null, _) => vec![5, 0],
        (Val::Enum(e), "Enu") => {
            let n = match e.rsplit("::").next()? {
                // X.680 20.3: identifier-only items take 0, 1, ... skipping the numbers used explicitly
                "x" => 0,
                "y" => 7,
                "z_z" => 1,
                _ => return None,
            };
            tlv(0, false, 10, &der_int(n))
        }
        // time values: DER writes the instant in canonical form (UTC, seconds present, fraction without trailing zeros)
        (Val::Str(st), "UTCTime") => {
            let (i, f) = asn_time(st, true)?;
            tlv(0, false, 23, der_time(i, &f, true).as_bytes())
        }
        (Val::Str(st), "GeneralizedTime") => {
            let (i, f) = asn_time(st, false)?;
            tlv(0, false, 24, der_time(i, &f, false).as_bytes())
        }
        (Val::Str(st), t) => {
            let tag = string_tag(t)?;
            let content: Vec<u8> = match t {
                "BMPString" => st.encode_utf16().flat_map(|u| u.to_be_bytes()).collect(),
                "UniversalString" => st.chars().flat_map(|c| (c as u32).to_be_bytes()).collect(),
                _ => st.as_bytes().to_vec(),
            };
            tlv(0, false, tag, &content)
        }
        (Val::Bits(b), _) => der_bits(b),
        (Val::NamedBits(b), _) => {
            let mut t = b.clone();
            while t.last() == Some(&false) {
                t.pop();
            }
            der_bits(&t)
        }
        (Val::Octets(o), _) => tlv(0, false, 4, o),
        (Val::Oid(a), _) => der_oid(a)?,
        (Val::Choice(alt, inner), "Cho") => match alt.as_str() {
            "n" => apply_tag(&der_value(inner, "INTEGER")?, 2, 0, false),
            "b" => apply_tag(&der_value(inner, "BOOLEAN")?, 2, 1, false),
            "c" => apply_tag(&der_value(inner, "Cho2")?, 2, 2, true),
            _ => return None,
        },
        (Val::Choice(alt, inner), "Cho2") => match alt.as_str() {
            "z" => apply_tag(&der_value(inner, "NULL")?, 2, 0, false),
            "m" => apply_tag(&der_value(inner, "INTEGER")?, 2, 1, false),
            _ => return None,
        },
        (Val::Seq(ms), "Sq") if ms.len() == 3 => {
            let mut c = apply_tag(&der_value(&ms[0], "INTEGER")?, 2, 0, false);
            c.extend(apply_tag(&der_value(&ms[1], "BOOLEAN")?, 2, 1, false));
            c.extend(apply_tag(&der_value(&ms[2], "Cho2")?, 2, 2, true));
            tlv(0, true, 16, &c)
        }
        (Val::Seq(ms), "Sq1") if ms.len() == 1 => tlv(0, true, 16, &apply_tag(&der_value(&ms[0], "INTEGER")?, 2, 0, false)),
        (Val::Seq(ms), "SqN") if ms.len() == 2 => {
            let mut c = apply_tag(&der_value(&ms[0], "Sq1")?, 2, 0, false);
            c.extend(apply_tag(&der_value(&ms[1], "BOOLEAN")?, 2, 1, false));
            tlv(0, true, 16, &c)
        }
        (Val::Choice(alt, inner), "Cho3") => match alt.as_str() {
            "s" => apply_tag(&der_value(inner, "Sq1")?, 2, 0, false),
            "n" => apply_tag(&der_value(inner, "NULL")?, 2, 1, false),
            _ => return None,
        },
        (Val::Seq(ms), "SqD") if ms.len() == 4 => {
            // DER: a component equal to its DEFAULT is absent
            let mut c = vec![];
            if ms[0] != Val::Int("5".into()) {
                c.extend(apply_tag(&der_value(&ms[0], "INTEGER")?, 2, 0, false));
            }
            if ms[1] != Val::Bool(true) {
                c.extend(apply_tag(&der_value(&ms[1], "BOOLEAN")?, 2, 1, false));
            }
            if ms[2] != Val::Int("7".into()) {
                c.extend(apply_tag(&der_value(&ms[2], "INTEGER")?, 2, 2, false));
            }
            c.extend(apply_tag(&der_value(&ms[3], "BOOLEAN")?, 2, 3, false));
            tlv(0, true, 16, &c)
        }
        (Val::List(es), t) => {
            let et = match t {
                "Lst" => "INTEGER",
                "LstB" | "SEQUENCE OF BOOLEAN" => "BOOLEAN",
                "LstS" => "Sq1",
                _ => return None,
            };
            let mut c = vec![];
            for e in es {
                c.extend(der_value(e, et)?);
            }
            tlv(0, true, 16, &c)
        }
        _ => return None,
    })
}

/// do the bytes produced by the bindings denote the expected value?
fn wire_same(exp: &Val, reference: &[u8], got: &[u8]) -> bool {
    if reference == got {
        return true;
    }
    if let Val::NamedBits(_) = exp {
        // trailing zero bits of a named-bit value are not significant (X.680 22.7); rasn does not trim them
        let bits = |b: &[u8]| -> Option<Vec<bool>> {
            let (class, _, num, content, total) = parse_tlv(b)?;
            if class != 0 || num != 3 || total != b.len() || content.is_empty() {
                return None;
            }
            let unused = content[0] as usize;
            let mut v: Vec<bool> = content[1..].iter().flat_map(|o| (0..8).rev().map(move |k| o & (1 << k) != 0)).collect();
            v.truncate(v.len().saturating_sub(unused));
            while v.last() == Some(&false) {
                v.pop();
            }
            Some(v)
        };
        return bits(reference).is_some() && bits(reference) == bits(got);
    }
    false
}

fn wire_results() -> &'static Mutex<HashMap<u64, Result<String, String>>> {
    static R: OnceLock<Mutex<HashMap<u64, Result<String, String>>>> = OnceLock::new();
    R.get_or_init(|| Mutex::new(HashMap::new()))
}
static WIRE_BATCH_DONE: AtomicBool = AtomicBool::new(false);

fn wire_batch(cases: &[Case]) -> Result<(), String> {
    use rayon::prelude::*;
    let gens: Vec<(u64, Option<(String, String)>)> = cases
        .par_iter()
        .map(|c| {
            let src = text(c);
            let h = fnv(&src);
            if reference_der(c).is_none() {
                return (h, None);
            }
            let g = match compile1(&src) {
                Outcome::Ok { generated, warnings } if warnings.is_empty() => generated,
                _ => return (h, None),
            };
            let file: syn::File = match syn::parse_file(&g) {
                Ok(f) => f,
                Err(_) => return (h, None),
            };
            // how the value is reached from the test function
            let expr = if c.route.starts_with("default") {
                if c.route == "default-of-element" {
                    if find_fn_body(&file, "anonymous_holder_f_default").is_none() {
                        return (h, None);
                    }
                    "&m::AnonymousHolder::default().f".to_string()
                } else {
                    if find_fn_body(&file, "holder_f_default").is_none() {
                        return (h, None);
                    }
                    "&m::Holder::default().f".to_string()
                }
            } else {
                let mut e = None;
                for it in items_of(&file) {
                    match it {
                        syn::Item::Const(k) if k.ident == "VAL" => e = Some("&m::VAL".to_string()),
                        syn::Item::Static(k) if k.ident == "VAL" => e = Some("&*m::VAL".to_string()),
                        _ => {}
                    }
                }
                match e {
                    Some(e) => e,
                    None => return (h, None),
                }
            };
            (h, Some((g, format!("    wsupport::enc({expr})"))))
        })
        .collect();
    let mut wcs = vec![];
    let mut idx_of: HashMap<usize, u64> = HashMap::new();
    let mut seen = std::collections::HashSet::new();
    for (i, (h, g)) in gens.into_iter().enumerate() {
        if let Some((g, body)) = g {
            if wire_results().lock().unwrap().contains_key(&h) || !seen.insert(h) {
                continue;
            }
            wcs.push(WireCase { idx: i, generated: g, test_body: body });
            idx_of.insert(i, h);
        }
    }
    if wcs.is_empty() {
        return Ok(());
    }
    let res = run_wire(&wcs)?;
    let mut map = wire_results().lock().unwrap();
    for (i, h) in idx_of {
        match res.get(&i) {
            Some(WireOutcome::Ran(s)) => {
                map.insert(h, Ok(s.clone()));
            }
            Some(WireOutcome::CompileError(e)) => {
                map.insert(h, Err(e.clone()));
            }
            None => return Err(format!("no wire result for case {i}")),
        }
    }
    Ok(())
}

/// wire subset: every notation and value on the direct route; one representative per (notation, feature) on the others
fn wire_subset(cases: &[Case], thorough: bool) -> Vec<Case> {
    let mut seen = std::collections::BTreeSet::new();
    cases.iter().filter(|c| thorough || c.route == "assign" || seen.insert((c.notation.clone(), c.feature.clone(), c.route.clone()))).cloned().collect()
}

impl Prop for C07 {
    type Case = Case;
    fn id(&self) -> &'static str {
        "C07"
    }
    fn rule(&self) -> String {
        "(symbolic level + wire level: every value on the direct route and one representative per notation x feature on the other routes (thorough: all) is compiled into the wirecheck workspace, the generated constant / Holder default is encoded by rasn's DER codec and the bytes are compared with the X.690 encoding of the source value computed by a 100-line reference encoder) per value notation, complete inside: integers = the 53-point boundary set ∪ {±2^127 ends} (typed INTEGER, a fitting constrained INTEGER, a named-number type); TRUE/FALSE; NULL; cstrings = all strings of length <=2 over {a, space, \"\" (escaped quote), é, €} restricted to each of the 11 string types' alphabets plus a 40-character string, strings that are lexically time values and strings that span lines; bstrings = all of length 0..8 (BIT STRING) and all byte-multiples and a third of the partial-octet ones, zero-padded per X.680 23.5 / 23.6 (OCTET STRING); hstrings = all of 0..2 digits, every digit at every position of a 4-digit string, the 64 walking-one patterns; named-bit lists = all 32 subsets of {b0,b1,b3,b7,b15}; named numbers, enumerals; UTCTime / GeneralizedTime values in every form of the notation (with / without seconds, fractions with . and , , Z / offset / local, leap day) judged by an independent reading of both the ASN.1 and the RFC 3339 notation as instants and by the DER canonical form on the wire; OIDs of 2..4 arcs with every arc form (number, every X.660 well-known name under its root, name(number), leading value reference), OIDs of 3..10 arcs with one position at a time (first free, inner, last) given as name(number) or as one of the base-128 boundaries {0, 127, 128, 16383, 16384, 2^21, 2^32-1}, an arc given by an INTEGER value reference; CHOICE / SEQUENCE / SEQUENCE OF values to depth 2 (hand-picked, incl. one-member SEQUENCE values that read like OBJECT IDENTIFIER values) and systematically: every type tree of depth <= 2 over {INTEGER, BOOLEAN, NULL} with constructors SEQUENCE of 1..2 members (each required or OPTIONAL), CHOICE of 2 alternatives, SEQUENCE OF (depth 2 over the leaves and 8 depth-1 representatives; 1.3 k trees, thorough 2.4 k), nested types once as type assignments of their own and once inline, × every value with one component varied at a time (each alternative, OPTIONAL present / absent, lists of length 0..2), judged by a reference DER encoder that is generic in the type tree; values the compiler declines with a warning are counted as skipped by warning class; each × route {value assignment, through two type references, via a value reference, DEFAULT, DEFAULT via value reference, between lexical neighbours, DEFAULT of a component of the element type of a SEQUENCE OF; trees written inline also as DEFAULT of a component of that inline type}. Oracle: a symbolic evaluator of the expression forms the templates emit reduces the initialiser (const, LazyLock static, default fn body) to an abstract value compared with the model's (bit strings from named bits modulo trailing zeros). Non-trivial: compiled cleanly and the initialiser was evaluated.".into()
    }
    fn selftest(&self) -> Result<u64, String> {
        let f: syn::File = syn::parse_str("pub mod m { pub const A: u8 = 5; pub static O1: LazyLock<ObjectIdentifier> = LazyLock::new(|| Oid::const_new(&[1u32, 2u32]).to_owned()); pub static O3: LazyLock<ObjectIdentifier> = LazyLock::new(|| Oid::new(&[&***O1, &[7u32]].concat()).unwrap().to_owned()); pub static B: LazyLock<BitString> = LazyLock::new(|| [true, false].into_iter().collect()); pub static X: LazyLock<OctetString> = LazyLock::new(|| <OctetString as From<&'static [u8]>>::from(&[175, 9])); pub const C3: C = C::c(C2::z(())); pub static I: LazyLock<T2> = LazyLock::new(|| T2(T1(Integer::from(-2i128)))); }").map_err(|e| e.to_string())?;
        let env = Env { file: &f, depth: 0 };
        let t = |n: &str, want: Val| -> Result<(), String> {
            let e = find_value_expr(&f, n).ok_or(format!("no {n}"))?;
            let got = eval(&e, &env)?;
            if same(&want, &got) { Ok(()) } else { Err(format!("{n}: {got:?} != {want:?}")) }
        };
        t("A", Val::Int("5".into()))?;
        t("O3", Val::Oid(vec![1, 2, 7]))?;
        t("B", Val::Bits(vec![true, false]))?;
        t("X", Val::Octets(vec![175, 9]))?;
        t("C3", Val::Choice("c".into(), Box::new(Val::Choice("z".into(), Box::new(Val::Null)))))?;
        t("I", Val::Int("-2".into()))?;
        if hex_bits("A5") != vec![true, false, true, false, false, true, false, true] || bits_to_octets(&hex_bits("AF09")) != vec![0xAF, 0x09] {
            return Err("hex tables".into());
        }
        // reference DER of hand-computed values (X.690 8.3, 8.6, 8.19, 8.23; AUTOMATIC TAGS for the helper types)
        crate::wire::selftest()?;
        let d = |v: Val, t: &str| der_value(&v, t).map(|b| to_hex(&b)).unwrap_or_default();
        if d(Val::Int("-129".into()), "INTEGER") != "0202ff7f"
            || d(Val::Oid(vec![1, 2, 840, 113549]), "OBJECT IDENTIFIER") != "06062a864886f70d"
            || d(Val::Oid(vec![2, 999, 3]), "OBJECT IDENTIFIER") != "0603883703"
            || d(Val::Bits(vec![true, false, true]), "BIT STRING") != "030205a0"
            || d(Val::Str("a\u{e9}".into()), "BMPString") != "1e04006100e9"
            || d(Val::Choice("c".into(), Box::new(Val::Choice("m".into(), Box::new(Val::Int("7".into()))))), "Cho") != "a203810107"
            || d(Val::Seq(vec![Val::Int("1".into()), Val::Bool(true), Val::Choice("z".into(), Box::new(Val::Null))]), "Sq") != "300a8001018101ffa2028000"
            || d(Val::Enum("Enu::z_z".into()), "Enu") != "0a0101"
        {
            return Err("reference DER".into());
        }
        Ok(16)
    }
    fn enumerate(&self, tier: Tier, _seed: u64) -> Vec<Case> {
        let out = cases(tier);
        let mut batch = wire_subset(&out, tier.thorough());
        if !tier.thorough() {
            use rayon::prelude::*;
            let in_batch: std::collections::BTreeSet<u64> = batch.iter().map(|c| fnv(&text(c))).collect();
            let extra: Vec<Case> = out.par_iter().filter(|c| !in_batch.contains(&fnv(&text(c))) && symbolically_unevaluated(c)).cloned().collect();
            // (capped: a generator change that defeats the evaluator everywhere must not turn the quick tier into the thorough one)
            batch.extend(extra.into_iter().take(4000));
        }
        if let Err(e) = wire_batch(&batch) {
            eprintln!("MACHINERY: {e}");
            std::process::exit(2);
        }
        WIRE_BATCH_DONE.store(true, Ordering::SeqCst);
        out
    }
    fn check(&self, c: &Case) -> CaseResult {
        check_case(c)
    }
}

/// the value space (without the wire batch; also used by C01 for its rustc judge)
pub fn cases(tier: Tier) -> Vec<Case> {
    {
        let mut base: Vec<Case> = vec![];
        let mut add = |notation: &str, ty: &str, prelude: &str, value: String, expected: Val, feature: String| {
            base.push(Case { notation: notation.into(), ty: ty.into(), prelude: prelude.into(), value, expected, route: "assign".into(), feature, vt: None });
        };
        // ---- integers
        let mut ints: Vec<i128> = crate::props::c06::boundary_set();
        ints.push(i128::MIN);
        ints.push(i128::MAX);
        for v in &ints {
            add("int", "INTEGER", "", v.to_string(), Val::Int(v.to_string()), "unconstrained".into());
            if *v >= -(1i128 << 63) && *v < (1i128 << 63) {
                add("int", "INTEGER (-9223372036854775808..9223372036854775807)", "", v.to_string(), Val::Int(v.to_string()), "i64-constrained".into());
            }
            if *v >= 0 && *v <= 255 {
                add("int", "INTEGER (0..255)", "", v.to_string(), Val::Int(v.to_string()), "u8-constrained".into());
            }
        }
        add("named-number", "Nn", "Nn ::= INTEGER { one(1), minus(-7), big(70000) }", "one".into(), Val::Int("1".into()), "named-number".into());
        add("named-number", "Nn", "Nn ::= INTEGER { one(1), minus(-7), big(70000) }", "minus".into(), Val::Int("-7".into()), "named-number-negative".into());
        add("named-number", "Nn", "Nn ::= INTEGER { one(1), minus(-7), big(70000) }", "big".into(), Val::Int("70000".into()), "named-number-big".into());
        add("int", "Nn", "Nn ::= INTEGER { one(1), minus(-7), big(70000) }", "42".into(), Val::Int("42".into()), "literal-of-named-number-type".into());
        // a plain INTEGER given by a reference to a value that is itself given by a named number of its own type
        for (n, v) in [("one", "1"), ("minus", "-7"), ("big", "70000")] {
            add("named-number", "INTEGER", &format!("Nn ::= INTEGER {{ one(1), minus(-7), big(70000) }}\nnnv Nn ::= {n}"), "nnv".into(), Val::Int(v.into()), "reference-to-value-given-by-named-number".into());
            // (name sorting before / after: the referenced value may or may not be linked yet)
            add("named-number", "INTEGER", &format!("Nn ::= INTEGER {{ one(1), minus(-7), big(70000) }}\naav Nn ::= {n}"), "aav".into(), Val::Int(v.into()), "reference-to-value-given-by-named-number".into());
        }
        // ... while the module also defines a value with the name of that named number (X.680 19.10: inside the
        // value notation of Nn the identifier is the named number; the other value must not capture it)
        for (n, v) in [("one", "1"), ("big", "70000")] {
            for holder in ["aav", "zzv"] {
                add("named-number", "INTEGER", &format!("Nn ::= INTEGER {{ one(1), minus(-7), big(70000) }}\n{n} INTEGER ::= 99\n{holder} Nn ::= {n}"), holder.into(), Val::Int(v.into()), "reference-to-value-given-by-named-number|decoy-value".into());
                add("named-number", "Nn", &format!("Nn ::= INTEGER {{ one(1), minus(-7), big(70000) }}\n{n} INTEGER ::= 99"), n.into(), Val::Int(v.into()), "named-number|decoy-value".into());
            }
        }
        // ---- booleans / null
        add("bool", "BOOLEAN", "", "TRUE".into(), Val::Bool(true), "true".into());
        add("bool", "BOOLEAN", "", "FALSE".into(), Val::Bool(false), "false".into());
        add("null", "NULL", "", "NULL".into(), Val::Null, "null".into());
        // ---- time values (every X.680 47 / 46 form of the string)
        for v in ["990102030405Z", "9901020304Z", "990102030405+0100", "9901020304-0530", "000229235959Z", "500101000000Z", "491231235959Z", "5001010000Z"] {
            add("time", "UTCTime", "", format!("\"{v}\""), Val::Str(v.to_string()), format!("utc:{}", if v.len() == 13 && v.ends_with('Z') { "canonical" } else if v.ends_with('Z') { "no-seconds" } else { "offset" }));
        }
        for v in ["19990102030405Z", "19990102030405.5Z", "19990102030405.125Z", "199901020304Z", "1999010203Z", "19990102030405", "19990102030405+0100", "19990102030405,5Z", "20000229235959.999Z", "19990102030405+01", "1999010203-0530", "19990102030405.50Z"] {
            add("time", "GeneralizedTime", "", format!("\"{v}\""), Val::Str(v.to_string()), format!("generalized:{}", if !v.ends_with('Z') && !v.contains('+') { "local" } else if v.contains('+') { "offset" } else if v.contains(',') { "comma-fraction" } else if v.contains('.') { "fraction" } else if v.len() == 15 { "canonical" } else { "short" }));
        }
        // ---- enumerals
        for (name, _) in [("x", 0), ("y", 7), ("z-z", 8)] {
            add("enumeral", "Enu", "Enu ::= ENUMERATED { x, y(7), z-z }", name.to_string(), Val::Enum(format!("Enu::{}", name.replace('-', "_"))), "enumeral".into());
            // other ENUMERATED types with items of the same names, sorting before and after the governing type
            add("enumeral", "Enu", "Aaa ::= ENUMERATED { z-z, y, x }\nEnu ::= ENUMERATED { x, y(7), z-z }\nZzz ::= ENUMERATED { y(1), x(2), z-z(3) }", name.to_string(), Val::Enum(format!("Enu::{}", name.replace('-', "_"))), "enumeral-shared-names".into());
        }
        // ---- character strings
        let types: Vec<(&str, Vec<&str>)> = vec![
            ("UTF8String", vec!["a", " ", "\"\"", "é", "€"]),
            ("BMPString", vec!["a", " ", "\"\"", "é", "€"]),
            ("UniversalString", vec!["a", " ", "\"\"", "é", "€"]),
            ("GeneralString", vec!["a", " ", "\"\""]),
            ("GraphicString", vec!["a", " ", "\"\""]),
            ("TeletexString", vec!["a", " ", "\"\""]),
            ("T61String", vec!["a", " "]),
            ("IA5String", vec!["a", " ", "\"\""]),
            ("VisibleString", vec!["a", " ", "\"\""]),
            ("PrintableString", vec!["a", " ", "Z"]),
            ("NumericString", vec!["1", " ", "0"]),
        ];
        for (ty, atoms) in &types {
            let mut strs: Vec<Vec<&str>> = vec![vec![]];
            for a in atoms {
                strs.push(vec![a]);
            }
            for a in atoms {
                for b in atoms {
                    strs.push(vec![a, b]);
                }
            }
            let long: Vec<&str> = (0..40).map(|i| atoms[i % atoms.len().min(2)]).collect();
            strs.push(long);
            for s in strs {
                let src: String = s.concat();
                let want: String = s.iter().map(|a| if *a == "\"\"" { "\"" } else { a }).collect();
                let feat = format!("len={}{}{}", s.len().min(3), if s.contains(&"\"\"") { "+quote" } else { "" }, if s.iter().any(|a| !a.is_ascii()) { "+multibyte" } else { "" });
                add(&format!("cstring:{ty}"), ty, "", format!("\"{src}\""), Val::Str(want), feat);
            }
        }
        // character strings that span lines: the end of line and the spacing next to it are not part of the string (X.680 12.14.1)
        for (ty, _) in &types {
            if *ty == "NumericString" {
                continue;
            }
            for (src, want) in [("abc   \n       def", "abcdef"), ("a\nb", "ab"), ("a \r\n\tb", "ab"), ("a b\n\n  c d", "a bc d")] {
                add(&format!("cstring:{ty}"), ty, "", format!("\"{src}\""), Val::Str(want.to_string()), "multi-line".into());
            }
            // ... with doubled quotes on the first, the last and a middle line (NumericString / PrintableString have no quote)
            if !matches!(*ty, "PrintableString") {
                for (src, want) in [("\"\"yes\"\",\n  she said", "\"yes\",she said"), ("she said\n \"\"yes\"\"", "she said\"yes\""), ("a\n b\"\"c\n d", "ab\"cd"), ("\"\"\n\"\"", "\"\"")] {
                    add(&format!("cstring:{ty}"), ty, "", format!("\"{src}\""), Val::Str(want.to_string()), "multi-line-with-doubled-quotes".into());
                }
            }
        }
        // OCTET STRING types of fixed size (FixedOctetString in the bindings), directly and through a reference
        for (v, bytes) in [("'ABCD'H", vec![0xABu8, 0xCD]), ("'0000'H", vec![0, 0]), ("'0000000110000000'B", vec![1, 0x80])] {
            add("hstring:octets-fixed", "Fx", "Fx ::= OCTET STRING (SIZE (2))", v.to_string(), Val::Octets(bytes.clone()), "fixed-size-type".into());
            add("hstring:octets-fixed", "Fy", "Fx ::= OCTET STRING (SIZE (2))\nFy ::= Fx", v.to_string(), Val::Octets(bytes.clone()), "fixed-size-type-via-reference".into());
            add("hstring:octets-fixed", "OCTET STRING (SIZE (2))", "", v.to_string(), Val::Octets(bytes), "fixed-size-inline".into());
        }
        // character strings that consist of tstring characters only (digits and + - : . , / C D H M R P S T W Y Z with
        // at least one of each kind): lexically they are also time values
        for (ty, _) in &types {
            if *ty == "NumericString" {
                continue;
            }
            for v in ["1.0", "12:30", "2024-01-01", "MD5", "P1Y", "1,5", "+1", "T0", "Z9", "990102030405Z"] {
                add(&format!("cstring:{ty}"), ty, "", format!("\"{v}\""), Val::Str(v.to_string()), "tstring-lookalike".into());
            }
        }
        // ---- bstrings
        for len in 0..=8usize {
            for v in 0u32..(1 << len) {
                let bits: Vec<bool> = (0..len).map(|i| v & (1 << (len - 1 - i)) != 0).collect();
                let s: String = bits.iter().map(|b| if *b { '1' } else { '0' }).collect();
                add("bstring:bits", "BIT STRING", "", format!("'{s}'B"), Val::Bits(bits.clone()), format!("len={len}"));
                // X.680 23.5: a bstring that does not fill its last octet is read with trailing zero bits
                if len == 8 || len == 0 || v % 3 == 1 {
                    add("bstring:octets", "OCTET STRING", "", format!("'{s}'B"), Val::Octets(bits_to_octets(&bits)), if len % 8 == 0 { format!("len={len}") } else { "partial-octet".to_string() });
                }
            }
        }
        add("bstring:octets", "OCTET STRING", "", "'0000000111111110'B".into(), Val::Octets(vec![1, 254]), "len=16".into());
        // ---- hstrings
        let hexd = "0123456789ABCDEF";
        let mut hs: Vec<String> = vec![String::new()];
        for a in hexd.chars() {
            hs.push(a.to_string());
            for b in hexd.chars() {
                hs.push(format!("{a}{b}"));
            }
        }
        for pos in 0..4 {
            for d in hexd.chars() {
                let mut s: Vec<char> = "0000".chars().collect();
                s[pos] = d;
                hs.push(s.into_iter().collect());
            }
        }
        for k in 0..64 {
            let v: u64 = 1 << (63 - k);
            hs.push(format!("{v:016X}"));
        }
        hs.sort();
        hs.dedup();
        for h in &hs {
            let bits = hex_bits(h);
            add("hstring:bits", "BIT STRING", "", format!("'{h}'H"), Val::Bits(bits.clone()), format!("digits={}", h.len().min(5)));
            // X.680 23.6: an hstring with an odd number of digits is read with one trailing zero digit
            add("hstring:octets", "OCTET STRING", "", format!("'{h}'H"), Val::Octets(bits_to_octets(&bits)), if h.len() % 2 == 0 { format!("digits={}", h.len().min(5)) } else { "odd-digits".to_string() });
        }
        // ---- named bits
        let nb = [("b0", 0usize), ("b1", 1), ("b3", 3), ("b7", 7), ("b15", 15)];
        let nb_prelude = "Bts ::= BIT STRING { b0(0), b1(1), b3(3), b7(7), b15(15) }";
        for mask in 0u32..32 {
            let chosen: Vec<&(&str, usize)> = nb.iter().enumerate().filter(|(i, _)| mask & (1 << i) != 0).map(|(_, x)| x).collect();
            let mut bits = vec![false; 16];
            for (_, p) in &chosen {
                bits[*p] = true;
            }
            let names: Vec<&str> = chosen.iter().map(|(n, _)| *n).collect();
            add("named-bits", "Bts", nb_prelude, format!("{{ {} }}", names.join(", ")), Val::NamedBits(bits), format!("n={}", chosen.len().min(3)));
        }
        add("bstring:bits", "Bts", nb_prelude, "'101'B".into(), Val::Bits(vec![true, false, true]), "bstring-of-named-bit-type".into());
        // the same bits declared in a non-ascending order (the highest bit is neither first nor last)
        let nb_prelude2 = "Bts ::= BIT STRING { b7(7), b1(1), b15(15), b0(0), b3(3) }";
        for mask in 0u32..32 {
            let chosen: Vec<&(&str, usize)> = nb.iter().enumerate().filter(|(i, _)| mask & (1 << i) != 0).map(|(_, x)| x).collect();
            let mut bits = vec![false; 16];
            for (_, p) in &chosen {
                bits[*p] = true;
            }
            let names: Vec<&str> = chosen.iter().rev().map(|(n, _)| *n).collect();
            add("named-bits", "Bts", nb_prelude2, format!("{{ {} }}", names.join(", ")), Val::NamedBits(bits), format!("unordered-declaration:n={}", chosen.len().min(3)));
        }
        // ---- OIDs
        let roots: Vec<(&str, u32)> = vec![("itu-t", 0), ("ccitt", 0), ("iso", 1), ("joint-iso-itu-t", 2), ("joint-iso-ccitt", 2), ("0", 0), ("1", 1), ("2", 2), ("iso(1)", 1), ("itu-t(0)", 0), ("joint-iso-itu-t(2)", 2)];
        let second_itu: Vec<(&str, u32)> = vec![("recommendation", 0), ("question", 1), ("administration", 2), ("network-operator", 3), ("identified-organization", 4), ("r-recommendation", 5)];
        let second_iso: Vec<(&str, u32)> = vec![("standard", 0), ("registration-authority", 1), ("member-body", 2), ("identified-organization", 3)];
        for (r, rn) in &roots {
            let mut seconds: Vec<(String, u32)> = vec![("3".into(), 3), ("abc(6)".into(), 6), ("0".into(), 0)];
            if *rn == 0 {
                seconds.extend(second_itu.iter().map(|(n, v)| (n.to_string(), *v)));
                seconds.extend(second_itu.iter().take(2).map(|(n, v)| (format!("{n}({v})"), *v)));
            }
            if *rn == 1 {
                seconds.extend(second_iso.iter().map(|(n, v)| (n.to_string(), *v)));
                seconds.extend(second_iso.iter().skip(2).map(|(n, v)| (format!("{n}({v})"), *v)));
            }
            for (s2, n2) in &seconds {
                add("oid", "OBJECT IDENTIFIER", "", format!("{{ {r} {s2} }}"), Val::Oid(vec![*rn, *n2]), format!("arcs=2:{}", if s2.chars().all(|c| c.is_ascii_digit()) { "number" } else if s2.contains('(') { "name(number)" } else { "well-known-name" }));
                add("oid", "OBJECT IDENTIFIER", "", format!("{{ {r} {s2} 840 sub(113549) }}"), Val::Oid(vec![*rn, *n2, 840, 113549]), "arcs=4".into());
            }
        }
        add("oid", "OBJECT IDENTIFIER", "root OBJECT IDENTIFIER ::= { iso 3 6 }", "{ root 1 }".into(), Val::Oid(vec![1, 3, 6, 1]), "leading-value-reference".into());
        add("oid", "OBJECT IDENTIFIER", "root OBJECT IDENTIFIER ::= { iso 3 6 }\nmid OBJECT IDENTIFIER ::= { root 1 4 }", "{ mid 1 311 }".into(), Val::Oid(vec![1, 3, 6, 1, 4, 1, 311]), "chained-value-reference".into());
        add("oid", "OBJECT IDENTIFIER", "", "{ 2 999 4294967295 }".into(), Val::Oid(vec![2, 999, 4294967295]), "max-arc".into());
        // the referenced value is declared with a type reference to OBJECT IDENTIFIER
        add("oid", "OBJECT IDENTIFIER", "Oid2 ::= OBJECT IDENTIFIER\nroot Oid2 ::= { iso 3 6 }", "{ root 1 }".into(), Val::Oid(vec![1, 3, 6, 1]), "reference-to-value-of-named-oid-type".into());
        add("oid", "Oid2", "Oid2 ::= OBJECT IDENTIFIER\nroot Oid2 ::= { iso 3 6 }\nmid Oid2 ::= { root 1 4 }", "{ mid 1 311 }".into(), Val::Oid(vec![1, 3, 6, 1, 4, 1, 311]), "chained-reference-named-oid-type".into());
        // OIDs of 3..10 arcs: every length x every position >= 2 x {name(number), each boundary of the base-128 encoding}
        // (one position deviates at a time from the plain arc `7`)
        let arc_bounds: [u32; 7] = [0, 127, 128, 16383, 16384, 2097152, 4294967295];
        for n in 3usize..=10 {
            for pos in 2..n {
                let mut forms: Vec<(String, u32, String)> = vec![("sub(9)".into(), 9, "name(number)".into())];
                for b in arc_bounds {
                    forms.push((b.to_string(), b, format!("bound:{b}")));
                }
                if !tier.thorough() && pos != 2 && pos != n - 1 {
                    forms.truncate(2);
                }
                for (txt, v, lab) in forms {
                    let mut toks: Vec<String> = vec!["1".into(), "3".into()];
                    let mut arcs: Vec<u32> = vec![1, 3];
                    for i in 2..n {
                        if i == pos {
                            toks.push(txt.clone());
                            arcs.push(v);
                        } else {
                            toks.push("7".into());
                            arcs.push(7);
                        }
                    }
                    add("oid", "OBJECT IDENTIFIER", "", format!("{{ {} }}", toks.join(" ")), Val::Oid(arcs), format!("arcs={n}|pos={}|{lab}", if pos == 2 { "first-free" } else if pos == n - 1 { "last" } else { "inner" }));
                }
            }
        }
        // an INTEGER value reference as a non-leading arc (X.680 32.3: DefinedValue as ObjIdComponent)
        add("oid", "OBJECT IDENTIFIER", "six INTEGER ::= 6", "{ 1 3 six 1 }".into(), Val::Oid(vec![1, 3, 6, 1]), "integer-value-reference-arc".into());
        // the referenced value is declared with a type reached through two references, and sorts before / after `val`
        for root in ["a-root", "z-root"] {
            add("oid", "OBJECT IDENTIFIER", &format!("Oid2 ::= OBJECT IDENTIFIER\nOid3 ::= Oid2\n{root} Oid3 ::= {{ 1 2 }}"), format!("{{ {root} 3 }}"), Val::Oid(vec![1, 2, 3]), format!("reference-to-value-of-twice-named-oid-type|referenced-sorts-{}", if root.starts_with('a') { "first" } else { "last" }));
            add("oid", "Oid3", &format!("Oid2 ::= OBJECT IDENTIFIER\nOid3 ::= Oid2\n{root} Oid3 ::= {{ 1 2 }}"), format!("{{ {root} 3 }}"), Val::Oid(vec![1, 2, 3]), format!("reference-to-value-of-twice-named-oid-type|same-type|referenced-sorts-{}", if root.starts_with('a') { "first" } else { "last" }));
        }
        // a leading reference to a value that itself has an arc given by an INTEGER value reference (both resolutions meet:
        // the copied arcs and the reference among them), plain and through a type reference, referenced value sorting first / last
        for root in ["a-root", "z-root"] {
            for (ty, tl) in [("OBJECT IDENTIFIER", "plain"), ("Oid2", "typeref")] {
                add("oid", ty, &format!("Oid2 ::= OBJECT IDENTIFIER\nsix INTEGER ::= 6\n{root} {ty} ::= {{ iso 3 six 1 }}"), format!("{{ {root} 4 }}"), Val::Oid(vec![1, 3, 6, 1, 4]), format!("leading-reference-to-value-with-integer-reference-arc|{tl}|referenced-sorts-{}", if root.starts_with('a') { "first" } else { "last" }));
            }
        }
        // name(number) arcs keep their number whatever values of that name exist (the name is only a label)
        add("oid", "OBJECT IDENTIFIER", "sub INTEGER ::= 1\nversion INTEGER ::= 9", "{ iso standard 8571 sub(0) version(2) }".into(), Val::Oid(vec![1, 0, 8571, 0, 2]), "name(number)-with-value-of-that-name".into());
        add("oid", "OBJECT IDENTIFIER", "sub OBJECT IDENTIFIER ::= { 2 5 }", "{ 1 3 sub(7) 4 }".into(), Val::Oid(vec![1, 3, 7, 4]), "name(number)-with-oid-value-of-that-name".into());
        // ---- CHOICE / SEQUENCE / SEQUENCE OF
        let cp = "Cho ::= CHOICE { n INTEGER, b BOOLEAN, c Cho2 }\nCho2 ::= CHOICE { z NULL, m INTEGER (0..9) }\nSq ::= SEQUENCE { p INTEGER, q BOOLEAN, r Cho2 }\nLst ::= SEQUENCE OF INTEGER\nLstB ::= SEQUENCE OF BOOLEAN";
        add("choice", "Cho", cp, "n:5".into(), Val::Choice("n".into(), Box::new(Val::Int("5".into()))), "depth=1".into());
        add("choice", "Cho", cp, "n:-70000".into(), Val::Choice("n".into(), Box::new(Val::Int("-70000".into()))), "depth=1-negative".into());
        add("choice", "Cho", cp, "b:TRUE".into(), Val::Choice("b".into(), Box::new(Val::Bool(true))), "depth=1-bool".into());
        add("choice", "Cho", cp, "c:z:NULL".into(), Val::Choice("c".into(), Box::new(Val::Choice("z".into(), Box::new(Val::Null)))), "depth=2".into());
        add("choice", "Cho", cp, "c:m:7".into(), Val::Choice("c".into(), Box::new(Val::Choice("m".into(), Box::new(Val::Int("7".into()))))), "depth=2-int".into());
        add("sequence", "Sq", cp, "{ p 1, q TRUE, r z:NULL }".into(), Val::Seq(vec![Val::Int("1".into()), Val::Bool(true), Val::Choice("z".into(), Box::new(Val::Null))]), "3-members".into());
        // SET values may give the components in any order (X.680 27.? / 25.18: named values); the value is the same
        {
            let sp = "St ::= SET { count INTEGER, enabled BOOLEAN, mode Cho2 }\nCho2 ::= CHOICE { z NULL, m INTEGER (0..9) }";
            let want = Val::Seq(vec![Val::Int("5".into()), Val::Bool(true), Val::Choice("m".into(), Box::new(Val::Int("2".into())))]);
            for (lab, txt) in [("declared-order", "{ count 5, enabled TRUE, mode m:2 }"), ("rotated", "{ enabled TRUE, mode m:2, count 5 }"), ("reversed", "{ mode m:2, enabled TRUE, count 5 }"), ("swapped", "{ enabled TRUE, count 5, mode m:2 }")] {
                add("set-value", "St", sp, txt.into(), want.clone(), format!("set-value:{lab}"));
            }
        }
        add("sequence", "Sq", cp, "{ p -3, q FALSE, r m:2 }".into(), Val::Seq(vec![Val::Int("-3".into()), Val::Bool(false), Val::Choice("m".into(), Box::new(Val::Int("2".into())))]), "3-members-b".into());
        // SEQUENCE values over components with DEFAULTs: given explicitly (equal to and different from the default) and omitted
        let dp = "SqD ::= SEQUENCE { a INTEGER DEFAULT 5, b BOOLEAN DEFAULT TRUE, c INTEGER (0..255) DEFAULT 7, d BOOLEAN }";
        let sqd = |a: i64, b: bool, c: i64, d: bool| Val::Seq(vec![Val::Int(a.to_string()), Val::Bool(b), Val::Int(c.to_string()), Val::Bool(d)]);
        add("sequence", "SqD", dp, "{ d TRUE }".into(), sqd(5, true, 7, true), "defaults-omitted".into());
        add("sequence", "SqD", dp, "{ b FALSE, c 9, d TRUE }".into(), sqd(5, false, 9, true), "defaults-overridden".into());
        add("sequence", "SqD", dp, "{ a 1, b FALSE, c 2, d FALSE }".into(), sqd(1, false, 2, false), "defaults-all-given".into());
        add("sequence", "SqD", dp, "{ a 5, b TRUE, c 7, d FALSE }".into(), sqd(5, true, 7, false), "defaults-given-equal".into());
        add("sequence", "SqD", dp, "{ c 0, d TRUE }".into(), sqd(5, true, 0, true), "defaults-mixed".into());
        // one-member SEQUENCE values read like OBJECT IDENTIFIER values ("{ x 1 }"): alone and nested in CHOICE / SEQUENCE / SEQUENCE OF values
        let op = "Sq1 ::= SEQUENCE { x INTEGER }\nSqN ::= SEQUENCE { i Sq1, k BOOLEAN }\nCho3 ::= CHOICE { s Sq1, n NULL }\nLstS ::= SEQUENCE OF Sq1";
        let sq1 = |n: i64| Val::Seq(vec![Val::Int(n.to_string())]);
        add("sequence", "Sq1", op, "{ x 1 }".into(), sq1(1), "1-member-oid-lookalike".into());
        add("sequence", "Sq1", op, "{ x -1 }".into(), sq1(-1), "1-member-negative".into());
        add("sequence", "SqN", op, "{ i { x 1 }, k TRUE }".into(), Val::Seq(vec![sq1(1), Val::Bool(true)]), "nested-1-member".into());
        add("choice", "Cho3", op, "s:{ x 1 }".into(), Val::Choice("s".into(), Box::new(sq1(1))), "inner-1-member-sequence".into());
        add("choice", "Cho3", op, "n:NULL".into(), Val::Choice("n".into(), Box::new(Val::Null)), "null-alternative".into());
        add("sequence-of", "LstS", op, "{ { x 1 }, { x 2 } }".into(), Val::List(vec![sq1(1), sq1(2)]), "of-1-member-sequences".into());
        add("sequence-of", "Lst", cp, "{ 1, 2, 3 }".into(), Val::List(vec![Val::Int("1".into()), Val::Int("2".into()), Val::Int("3".into())]), "n=3".into());
        add("sequence-of", "Lst", cp, "{ -1 }".into(), Val::List(vec![Val::Int("-1".into())]), "n=1".into());
        add("sequence-of", "Lst", cp, "{ }".into(), Val::List(vec![]), "n=0".into());
        add("sequence-of", "LstB", cp, "{ TRUE, FALSE }".into(), Val::List(vec![Val::Bool(true), Val::Bool(false)]), "bools".into());
        add("sequence-of", "SEQUENCE OF BOOLEAN", "", "{ TRUE, FALSE }".into(), Val::List(vec![Val::Bool(true), Val::Bool(false)]), "anonymous-type".into());
        // ---- composite values over type trees (named and inline nested types)
        for t in value_trees(tier.thorough()) {
            for named in [true, false] {
                let mut defs = vec![];
                let top = t.text(named, &mut defs, true);
                defs.insert(0, "six INTEGER ::= 6\nEnu ::= ENUMERATED { x, y(7), z-z }\nNn ::= INTEGER { one(1), two(2) }\nBs ::= BIT STRING { f0(0), f2(2) }".to_string());
                defs.push(format!("Top ::= {top}"));
                let prelude = defs.join("\n");
                for (i, (text, val)) in t.values().into_iter().enumerate() {
                    base.push(Case { notation: "tree".into(), ty: "Top".into(), prelude: prelude.clone(), value: text, expected: val, route: "assign".into(), feature: format!("{}|{}", match &t { VT::Seq(_) => "top=SEQUENCE", VT::Cho(_) => "top=CHOICE", VT::SetOf(_) => "top=SET-OF", _ => "top=SEQUENCE-OF" }, if named { "named-types" } else { "inline-types" }), vt: Some(t.clone()) });
                    let _ = i;
                }
            }
        }
        // ---- routes
        let mut out = vec![];
        for c in &base {
            out.push(c.clone());
            let heavy = c.notation.starts_with("bstring") || c.notation.starts_with("hstring") || c.notation.starts_with("cstring") || c.notation == "oid" || c.notation == "int";
            let routes: Vec<&str> = if c.vt.is_some() && c.feature.ends_with("inline-types") { vec!["typeref", "valref", "default", "default-valref", "neighbours", "default-inline"] } else if c.vt.is_some() { vec!["typeref", "valref", "default", "default-valref", "neighbours"] } else { vec!["typeref", "valref", "default", "default-valref", "neighbours", "default-of-element"] };
            for r in routes {
                // (a value of one referenced type given by a value of another referenced type is declined with a warning: not
                // among the values in the bindings)
                if c.feature == "reference-to-value-given-by-named-number" && r == "typeref" {
                    continue;
                }
                // every route for every notation; for the big literal families the non-direct routes use a slice in quick
                if false && heavy && !tier.thorough() {
                    continue;
                }
                if c.ty.starts_with("SEQUENCE OF") && r == "typeref" {
                    // anonymous type has no reference form different from the direct one
                }
                let mut c2 = c.clone();
                c2.route = r.into();
                out.push(c2);
            }
        }
        out
    }
}

fn check_case(c: &Case) -> CaseResult {
    {
        let src = text(c);
        let o = compile1(&src);
        let kb = format!("value|notation={}|route={}|feature={}", c.notation, c.route, c.feature);
        let gen = match &o {
            Outcome::Ok { generated, warnings } if warnings.is_empty() => generated.clone(),
            Outcome::Panic { message, location } => return CaseResult { discs: vec![Disc::new(format!("panic|{location}"), format!("{message}\n{src}"))], nontrivial: false, outcome: "panic".into(), skipped: None },
            // composite values: the statement is about the values *in the generated bindings*; a value the compiler declines
            // with a warning is not among them (counted as skipped, by warning class); a silently missing one is reported below
            Outcome::Ok { warnings, .. } if c.vt.is_some() || c.notation == "time" => {
                let w = warnings.join(" ");
                let class = if w.contains("Time values like") && c.feature == "generalized:local" {
                    "declined:local-time"
                } else if w.contains("A type name is needed") {
                    "declined:value-of-inline-anonymous-type"
                } else if w.contains("values are currently unsupported") {
                    "declined:default-of-inline-constructed-type"
                } else if w.contains("No value for field") {
                    "declined:optional-component-omitted"
                } else {
                    "declined:other"
                };
                if class == "declined:other" {
                    return CaseResult { discs: vec![Disc::new(format!("{kb}|kind=rejected:ok+warn"), format!("composite value declined for a reason the check does not know: {w}\n{src}"))], nontrivial: false, outcome: "ok+warn".into(), skipped: None };
                }
                return CaseResult::skip(class);
            }
            other => return CaseResult { discs: vec![Disc::new(format!("{kb}|kind=rejected:{}", other.class()), format!("value notation of the grammar not compiled cleanly: {}\n{src}", other.brief()))], nontrivial: false, outcome: other.class().into(), skipped: None },
        };
        let file: syn::File = match syn::parse_file(&gen) {
            Ok(f) => f,
            Err(e) => return CaseResult { discs: vec![Disc::new(format!("{kb}|kind=unparsable"), format!("{e}\n{src}\n{gen}"))], nontrivial: false, outcome: "unparsable".into(), skipped: None },
        };
        let expr = if c.route == "default-of-element" { find_fn_body(&file, "anonymous_holder_f_default") } else if c.route.starts_with("default") { find_fn_body(&file, "holder_f_default") } else { find_value_expr(&file, "VAL") };
        let expr = match expr {
            Some(e) => e,
            None => return CaseResult { discs: vec![Disc::new(format!("{kb}|kind=missing"), format!("no constant / default function generated for the value\n{src}\n{gen}"))], nontrivial: false, outcome: "missing".into(), skipped: None },
        };
        let env = Env { file: &file, depth: 0 };
        let mut discs = vec![];
        let mut unevaluated: Option<Disc> = None;
        match eval(&expr, &env) {
            // a form the evaluator does not know is decided by execution (wire level below); only if the value cannot be
            // executed either is it reported
            Err(e) => unevaluated = Some(Disc::new(format!("{kb}|kind=unevaluated"), format!("initialiser not understood by the evaluator, and the value could not be executed: {e}\n{}\n{src}\n{gen}", quote::ToTokens::to_token_stream(&expr)))),
            Ok(got) => {
                let time_ok = c.notation == "time" && match (&c.expected, &got) {
                    (Val::Str(a), Val::Str(b)) => asn_time(a, c.ty == "UTCTime").is_some() && asn_time(a, c.ty == "UTCTime") == rfc_time(b),
                    _ => false,
                };
                if time_ok {
                } else if c.notation == "time" {
                    discs.push(Disc::new(format!("{kb}|kind=wrong-value"), format!("a time value must be rendered as an RFC 3339 date-time of the same instant handed to chrono's parser\nexpected {:?}\ngot {:?}\ninitialiser: {}\n{src}", c.expected, got, quote::ToTokens::to_token_stream(&expr))));
                } else if !same(&c.expected, &got) && same(&strip_opt(&c.expected), &got) {
                    discs.push(Disc::new(format!("{kb}|kind=optional-component-without-Some"), format!("a present OPTIONAL component is rendered as the bare value\nexpected {:?}\ngot {:?}\ninitialiser: {}\n{src}", c.expected, got, quote::ToTokens::to_token_stream(&expr))));
                } else if !same(&c.expected, &got) {
                    discs.push(Disc::new(format!("{kb}|kind=wrong-value"), format!("expected {:?}\ngot {:?}\ninitialiser: {}\n{src}", c.expected, got, quote::ToTokens::to_token_stream(&expr))));
                }
            }
        }
        let _ = BTreeMap::<u8, u8>::new();
        // ---- wire level
        let h = fnv(&src);
        let mut wr = wire_results().lock().unwrap().get(&h).cloned();
        if wr.is_none() && !WIRE_BATCH_DONE.load(Ordering::SeqCst) {
            if let Err(e) = wire_batch(std::slice::from_ref(c)) {
                return CaseResult { discs: vec![Disc::new("value|wire|machinery".to_string(), e)], nontrivial: false, outcome: "machinery".into(), skipped: None };
            }
            wr = wire_results().lock().unwrap().get(&h).cloned();
        }
        let mut wired = String::new();
        if let (Some(wr), Some(reference)) = (wr, reference_der(c)) {
            match wr {
                // bindings that do not type-check are C01's subject (listed there); nothing can be run
                Err(e) => {
                    wired = format!("+wire:not-compilable:{}", e.split(':').next().unwrap_or("?"));
                    if let Ok(f) = std::env::var("VERIF_C07_DUMP") {
                        use std::io::Write;
                        if let Ok(mut fh) = std::fs::OpenOptions::new().create(true).append(true).open(f) {
                            let _ = writeln!(fh, "{}\t{}\t{}\t{}\t{}", c.route, c.vt.as_ref().map(|t| t.label()).unwrap_or_default(), c.value, e, c.prelude.replace('\n', " ; "));
                        }
                    }
                }
                Ok(line) => {
                    wired = if unevaluated.take().is_some() { "+decided-by-execution".to_string() } else { "+wire".to_string() };
                    let got = line.strip_prefix("hex:").and_then(from_hex);
                    match got {
                        Some(g) if wire_same(&c.expected, &reference, &g) => {}
                        Some(g) => discs.push(Disc::new(format!("{kb}|kind=wire-value"), format!("rasn DER of the generated value: {}\nX.690 encoding of the source value: {}\n{src}\n{gen}", to_hex(&g), to_hex(&reference)))),
                        None => discs.push(Disc::new(format!("{kb}|kind=wire-{}", line.split(':').next().unwrap_or("error")), format!("{line}\n{src}\n{gen}"))),
                    }
                }
            }
        }
        discs.extend(unevaluated);
        CaseResult { discs, nontrivial: true, outcome: format!("ok:{}:{}{wired}", c.notation.split(':').next().unwrap_or(""), c.route), skipped: None }
    }
}

/// does the symbolic evaluator understand the initialiser of this case? (pre-pass of `enumerate`: what it does not
/// understand goes into the wire batch, so that execution decides)
fn symbolically_unevaluated(c: &Case) -> bool {
    let src = text(c);
    let gen = match compile1(&src) {
        Outcome::Ok { generated, warnings } if warnings.is_empty() => generated,
        _ => return false,
    };
    let Ok(file) = syn::parse_file(&gen) else { return false };
    let expr = if c.route == "default-of-element" { find_fn_body(&file, "anonymous_holder_f_default") } else if c.route.starts_with("default") { find_fn_body(&file, "holder_f_default") } else { find_value_expr(&file, "VAL") };
    match expr {
        Some(e) => eval(&e, &Env { file: &file, depth: 0 }).is_err(),
        None => false,
    }
}
