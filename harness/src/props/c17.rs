//! C17 — syntax errors are reported at the malformed definition, consistently.
use crate::common::*;
use crate::driver::*;
use crate::tokens::*;
use rasn_compiler::prelude::*;
use serde::{Deserialize, Serialize};

pub struct C17;

#[derive(Clone, Serialize, Deserialize)]
pub struct Case {
    /// units of the base: module headers, assignments, END lines; each a token list source text
    pub units: Vec<String>,
    /// indices of units that are assignments or headers (corruptible)
    pub unit: usize,
    pub tok: usize,
    /// delete | replace | insert
    pub edit: String,
    pub with: String,
    pub crlf: bool,
    pub comments: bool,
    pub as_path: bool,
    /// "" | indented (the module indented as a whole) | indented-end (only END indented) | long-comment (a block
    /// comment of 8 full lines before the corrupted unit, END indented)
    #[serde(default)]
    pub layout: String,
}

const ASSIGNMENTS: [&str; 14] = [
    "A0 ::= INTEGER (0..5)",
    "A1 ::= SEQUENCE {\n  a BOOLEAN,\n  b INTEGER OPTIONAL,\n  c UTF8String DEFAULT \"x\"\n}",
    "A2 ::= ENUMERATED { x, y(5), ..., z }",
    "A3 ::= CHOICE {\n  p [0] NULL,\n  q [1] SEQUENCE OF A0\n}",
    "a4 INTEGER ::= 17",
    "A5 ::= SET { m OCTET STRING (SIZE (2..4)), n BIT STRING { f(0) } }",
    "A6 ::= SEQUENCE (SIZE (1..3)) OF IA5String (FROM (\"a\"..\"f\"))",
    "a7 OBJECT IDENTIFIER ::= { iso 3 6 }",
    "A8 ::= [APPLICATION 2] IMPLICIT A1",
    "A9 ::= SEQUENCE { r BOOLEAN, ..., [[ s NULL ]] }",
    "A10 ::= INTEGER { lo(1), hi(9) } (1..9)",
    "a11 A2 ::= y",
    "A12 ::= A0 (1 | 3..5)",
    "a13 BIT STRING ::= '0110'B",
];

fn header(name: &str, k: usize) -> String {
    match k % 3 {
        0 => format!("{name} DEFINITIONS AUTOMATIC TAGS ::= BEGIN"),
        1 => format!("{name} {{ iso 9 {k} }} DEFINITIONS EXPLICIT TAGS EXTENSIBILITY IMPLIED ::=\nBEGIN"),
        _ => format!("{name} DEFINITIONS ::= BEGIN"),
    }
}

pub struct Built {
    pub text: String,
    /// start offset of each unit's first token
    pub unit_start: Vec<usize>,
    /// offset of the inserted/replacing token (for `§` upper bound)
    pub edit_pos: Option<usize>,
}

pub fn build(c: &Case) -> Option<Built> {
    let nl = if c.crlf { "\r\n" } else { "\n" };
    let mut text = String::new();
    let mut unit_start = vec![];
    let mut edit_pos = None;
    if c.comments {
        text += "-- generated input /* not a block comment */";
        text += nl;
    }
    for (u, src) in c.units.iter().enumerate() {
        if c.comments && u % 2 == 1 {
            text += "  -- a comment with \"quotes\" and é";
            text += nl;
            text += "/* block";
            text += nl;
            text += "   comment */";
            text += nl;
        }
        let indent = c.layout == "indented" || (src == "END" && !c.layout.is_empty());
        if c.layout == "long-comment" && u == c.unit {
            text += "/* about the next definition";
            text += nl;
            for k in 0..8 {
                text += &format!("   line {k} of a description that is long enough to fill its line  ");
                text += nl;
            }
            text += "*/";
            text += nl;
        }
        if indent {
            text += "  ";
        }
        let toks = tokenize(src)?;
        // keep the unit's own line structure: re-emit tokens with the original inter-token layout
        let mut pieces: Vec<(String, String)> = vec![]; // (leading layout, token)
        let mut prev_end = 0usize;
        for t in &toks {
            let lead = &src[prev_end..t.start];
            pieces.push((lead.replace('\n', &if indent { format!("{nl}  ") } else { nl.to_string() }), t.text.clone()));
            prev_end = t.start + t.text.len();
        }
        if u == c.unit {
            if c.tok >= pieces.len() && !(c.edit == "insert" && c.tok == pieces.len()) {
                return None;
            }
            match c.edit.as_str() {
                "delete" => {
                    let lead = pieces[c.tok].0.clone();
                    pieces.remove(c.tok);
                    if c.tok < pieces.len() {
                        let l2 = pieces[c.tok].0.clone();
                        pieces[c.tok].0 = if lead.len() >= l2.len() { lead } else { l2 };
                    }
                    if pieces.is_empty() && src != "END" {
                        return None;
                    }
                    if pieces.is_empty() {
                        // the final END deleted: the input ends in white-space after the last definition
                        unit_start.push(text.len());
                        edit_pos = Some(text.len());
                    }
                }
                "replace" => pieces[c.tok].1 = format!("\u{0}{}", c.with),
                "insert" => {
                    let lead = if c.tok < pieces.len() { pieces[c.tok].0.clone() } else { " ".to_string() };
                    if c.tok < pieces.len() {
                        pieces[c.tok].0 = " ".to_string();
                    }
                    pieces.insert(c.tok, (lead, format!("\u{0}{}", c.with)));
                }
                _ => return None,
            }
        }
        for (i, (lead, tok)) in pieces.iter().enumerate() {
            text += lead;
            if i == 0 {
                unit_start.push(text.len());
            }
            if let Some(t) = tok.strip_prefix('\u{0}') {
                edit_pos = Some(text.len());
                text += t;
            } else {
                text += tok;
            }
        }
        text += nl;
        if c.comments && u % 3 == 0 {
            // blank lines between definitions
            text += nl;
            text += nl;
        }
    }
    Some(Built { text, unit_start, edit_pos })
}

fn parse_display_line(d: &str, path: Option<&str>) -> Option<usize> {
    // "... while parsing line N, column M." | "... source file <path>:N:M."
    if let Some(p) = path {
        let i = d.find(p)?;
        let rest = &d[i + p.len()..];
        let rest = rest.strip_prefix(':')?;
        rest.split(':').next()?.parse().ok()
    } else {
        let i = d.find("line ")?;
        d[i + 5..].split(',').next()?.trim().parse().ok()
    }
}
/// text of the line that carries the mark (between the frame and the mark)
fn parse_marked_text(ctx: &str) -> Option<String> {
    for l in ctx.lines() {
        if let Some(i) = l.find("FAILED AT THIS LINE") {
            let body = &l[..i];
            // the mark itself: ` ◀▪▪▪▪▪▪▪▪▪▪ FAILED AT THIS LINE`
            let body = body.trim_end_matches(' ').trim_end_matches('\u{25aa}').trim_end_matches('\u{25c0}');
            let start = body.find('\u{2502}').map(|k| k + '\u{2502}'.len_utf8())?;
            return Some(body[start..].trim().to_string());
        }
    }
    None
}
fn parse_marked_line(ctx: &str) -> Option<usize> {
    for l in ctx.lines() {
        if l.contains("FAILED AT THIS LINE") {
            return l.trim_start().split(|c: char| !c.is_ascii_digit()).next()?.parse().ok();
        }
    }
    None
}

impl Prop for C17 {
    type Case = Case;
    fn id(&self) -> &'static str {
        "C17"
    }
    fn rule(&self) -> String {
        "bases: module sets of 1..3 modules × 1..6 assignments (thorough: up to 14) drawn from 14 assignment forms (single- and multi-line) under 3 header forms, in LF and CRLF, with and without interleaved line/block comments, flush left / indented as a whole / with only END indented / with an 8-line block comment before the corrupted unit; every unit (header or assignment) × every token position (and the final END of the input) × {delete, replace by / insert `§` or a no-break space (start no ASN.1 token; the second is white-space to Rust but not to ASN.1), replace by / insert each of ::= { } ( , INTEGER x 1 /* \"}; each corrupted text given as a literal (all) and as a file path (the `§` edits, in every line-ending / comment layout). Only runs returning Err(Lexer(MatchingError)) are judged. Oracle: 0<=offset<=len on a char boundary; line = 1 + #LF before offset; offset >= first token of the corrupted unit (of the preceding unit when its first token is hit); for `§` edits offset <= position of `§`; Display line = contextualize-marked line = ReportData.line, and the marked text is that line of the input; src_file and the Display path present iff the source was a path. Non-trivial: a MatchingError was returned and judged.".into()
    }
    fn enumerate(&self, tier: Tier, _seed: u64) -> Vec<Case> {
        // base unit lists
        let mut bases: Vec<Vec<String>> = vec![];
        let nmax = if tier.thorough() { 14 } else { 6 };
        let mut k = 0usize;
        for nmods in 1..=3usize {
            for nass in [1usize, 2, 3, nmax] {
                let mut units = vec![];
                for m in 0..nmods {
                    units.push(header(&format!("Mod{m}"), k + m));
                    for a in 0..nass {
                        units.push(ASSIGNMENTS[(k + m * 5 + a * 3) % ASSIGNMENTS.len()].to_string());
                    }
                    units.push("END".to_string());
                    k += 1;
                }
                bases.push(units);
            }
        }
        // every assignment form at least once as the only assignment
        for a in ASSIGNMENTS {
            bases.push(vec![header("M", 0), a.to_string(), "END".into()]);
        }
        // (`/*` and `"` open an item that the rest of the input may never close)
        let withs = ["§", "\u{a0}", "::=", "{", "}", "(", ",", "INTEGER", "x", "1", "/*", "\""];
        let mut out = vec![];
        for (bi, units) in bases.iter().enumerate() {
            // the final END deleted: the input ends in white-space behind the last definition
            if let Some(last) = units.iter().rposition(|s| s == "END") {
                for (crlf, comments) in [(false, false), (true, false), (false, true), (true, true)] {
                    for as_path in [false, true] {
                        out.push(Case { units: units.clone(), unit: last, tok: 0, edit: "delete".into(), with: String::new(), crlf, comments, as_path, layout: String::new() });
                    }
                }
            }
            for (u, src) in units.iter().enumerate() {
                if src == "END" {
                    continue;
                }
                let ntok = tokenize(src).map(|t| t.len()).unwrap_or(0);
                for (crlf, comments, layout) in [(false, false, ""), (true, true, ""), (false, true, ""), (true, false, ""), (false, false, "indented"), (false, false, "indented-end"), (false, false, "long-comment"), (true, true, "indented"), (false, true, "indented-end")] {
                    if !tier.thorough() && bi % 2 == 1 && (crlf != comments) {
                        continue;
                    }
                    if !tier.thorough() && !layout.is_empty() && bi % 3 != 0 {
                        continue;
                    }
                    for t in 0..ntok {
                        out.push(Case { units: units.clone(), unit: u, tok: t, edit: "delete".into(), with: String::new(), crlf, comments, as_path: false, layout: layout.into() });
                        for w in withs {
                            for e in ["replace", "insert"] {
                                out.push(Case { units: units.clone(), unit: u, tok: t, edit: e.into(), with: w.into(), crlf, comments, as_path: false, layout: layout.into() });
                                if w == "§" || w == "\u{a0}" || w == "/*" {
                                    out.push(Case { units: units.clone(), unit: u, tok: t, edit: e.into(), with: w.into(), crlf, comments, as_path: true, layout: layout.into() });
                                }
                            }
                        }
                    }
                }
            }
        }
        out
    }
    fn check(&self, c: &Case) -> CaseResult {
        let b = match build(c) {
            Some(b) => b,
            None => return CaseResult::skip("edit-not-applicable"),
        };
        let text = &b.text;
        let mut path: Option<String> = None;
        let r = guarded(|| {
            if c.as_path {
                let dir = format!("{}/.work/c17", std::env::var("VERIF_DIR").unwrap_or_else(|_| "/verif".into()));
                let _ = std::fs::create_dir_all(&dir);
                static SEQ: std::sync::atomic::AtomicU64 = std::sync::atomic::AtomicU64::new(0);
                let p = format!("{dir}/in-{}-{}.asn", std::process::id(), SEQ.fetch_add(1, std::sync::atomic::Ordering::Relaxed));
                std::fs::write(&p, text).ok();
                let r = Compiler::<RasnBackend, _>::new().add_asn_by_path(p.clone()).compile_to_string();
                let _ = std::fs::remove_file(&p);
                (r.map(|_| ()).map_err(|e| err_info(&e, &[text.clone()])), Some(p))
            } else {
                let r = Compiler::<RasnBackend, _>::new().add_asn_literal(text.clone()).compile_to_string();
                (r.map(|_| ()).map_err(|e| err_info(&e, &[text.clone()])), None)
            }
        });
        let e = match r {
            Err((m, l)) => return CaseResult { discs: vec![Disc::new(format!("errpos|panic|{l}"), format!("{m}\n{text}"))], nontrivial: false, outcome: "panic".into(), skipped: None },
            Ok((Ok(()), _)) => return CaseResult::skip("compiled-ok"),
            Ok((Err(e), p)) => {
                path = p;
                e
            }
        };
        let rep = match &e.report {
            Some(r) => r.clone(),
            None => return CaseResult::skip(format!("other-error:{}", e.variant)),
        };
        let toks = tokenize(&c.units[c.unit]).unwrap_or_default();
        let tclass = toks.get(c.tok).map(class_of).unwrap_or("end".into());
        let pos = if c.tok == 0 { "first" } else if c.tok + 1 >= toks.len() { "last" } else { "mid" };
        let kb = format!("errpos|edit={}:{}|tok={}|pos={pos}|crlf={}|comments={}", c.edit, if c.with == "§" { "§" } else if c.with == "\u{a0}" { "nbsp" } else if c.with.is_empty() { "-" } else { "token" }, if tclass.len() > 12 { "word".to_string() } else { tclass }, c.crlf, c.comments);
        let mut discs = vec![];
        let detail = |what: &str| format!("{what}\nreport: {rep:?}\ndisplay: {}\n--- input ---\n{text}", e.display);
        if rep.offset > text.len() || !text.is_char_boundary(rep.offset) {
            discs.push(Disc::new(format!("{kb}|kind=oob"), detail("offset outside the input or inside a character")));
            return CaseResult { discs, nontrivial: true, outcome: "oob".into(), skipped: None };
        }
        let want_line = 1 + text[..rep.offset].matches('\n').count();
        if rep.line != want_line {
            discs.push(Disc::new(format!("{kb}|kind=line"), detail(&format!("line {} but {} line breaks precede offset {}", rep.line, want_line - 1, rep.offset))));
        }
        // lower bound
        let lb_unit = if c.tok == 0 && c.unit > 0 { c.unit - 1 } else { c.unit };
        let lb = b.unit_start.get(lb_unit).copied().unwrap_or(0);
        if rep.offset < lb {
            discs.push(Disc::new(format!("{kb}|kind=before"), detail(&format!("offset {} lies before the first token (offset {lb}) of the malformed unit", rep.offset))));
        }
        // upper bound for characters that cannot continue any notation
        if c.with == "§" || c.with == "\u{a0}" {
            if let Some(p) = b.edit_pos {
                if rep.offset > p {
                    discs.push(Disc::new(format!("{kb}|kind=after"), detail(&format!("offset {} lies after the `§` at {p}", rep.offset))));
                }
            }
        }
        // rendering consistency
        let dl = parse_display_line(&e.display, path.as_deref());
        let ml = parse_marked_line(&e.contextualized[0]);
        if dl != Some(rep.line) {
            discs.push(Disc::new(format!("errpos|render-mismatch|display|path={}", c.as_path), detail(&format!("Display line {dl:?} != report line {}", rep.line))));
        }
        if ml != Some(rep.line) {
            discs.push(Disc::new(format!("errpos|render-mismatch|contextualize|crlf={}|comments={}|path={}|got={}", c.crlf, c.comments, c.as_path, if ml.is_none() { "no-marked-line" } else { "other-line" }), detail(&format!("contextualize marks line {ml:?}, report line {}\n{}", rep.line, e.contextualized[0]))));
        }
        // the marked line is the reported line of the input, not merely a line labelled with its number
        if ml == Some(rep.line) {
            let want = text.lines().nth(rep.line - 1).unwrap_or("").trim().to_string();
            let got = parse_marked_text(&e.contextualized[0]).unwrap_or_default();
            // (the excerpt may begin inside the line: the tail of the reported line is still that line)
            if got.is_empty() != want.is_empty() || !want.ends_with(&got) {
                discs.push(Disc::new(format!("errpos|render-mismatch|contextualize|crlf={}|comments={}|path={}|got=other-text", c.crlf, c.comments, c.as_path), detail(&format!("contextualize marks `{got}` as line {}, which reads `{want}`\n{}", rep.line, e.contextualized[0]))));
            }
        }
        // path reporting
        match (&path, &rep.src_file) {
            (Some(p), Some(s)) if s == p && e.display.contains(p.as_str()) && e.contextualized[0].contains(p.as_str()) => {}
            (None, None) if !e.display.contains("source file") => {}
            _ => discs.push(Disc::new(format!("errpos|path|given={}|reported={}", path.is_some(), rep.src_file.is_some()), detail("source path reporting"))),
        }
        CaseResult { discs, nontrivial: true, outcome: format!("judged:{}", c.edit), skipped: None }
    }
}
