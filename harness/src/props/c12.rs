//! C12 — modules compile independently of their neighbours; IMPORTS become use lines.
use crate::common::*;
use crate::driver::*;
use crate::proj::*;
use serde::{Deserialize, Serialize};

pub struct C12;

#[derive(Clone, Serialize, Deserialize, PartialEq, Debug)]
pub struct Mod {
    pub name: String,
    /// "" | EXPLICIT | IMPLICIT | AUTOMATIC
    pub tagdef: String,
    pub implied: bool,
    /// indices of modules this one imports from
    pub imports: Vec<usize>,
    /// reference style for the first import: false = IMPORTS clause only, true = additionally a module-qualified reference
    pub qualified: bool,
}

#[derive(Clone, Serialize, Deserialize)]
pub struct Case {
    pub mods: Vec<Mod>,
    /// order (with possible repetition) in which module indices are handed to the compiler, one source each
    pub order: Vec<usize>,
    /// all modules concatenated into one literal instead of one literal per module
    pub single_source: bool,
    pub wildcard: bool,
    /// every module additionally defines a type and a value of the same name (`Shared`, `shared`)
    #[serde(default)]
    pub shared: bool,
    /// every module defines `Pct-X ::= INTEGER (0..100)` and `half-x Pct-X ::= 50`; a module with imports also imports
    /// `half-y` (the value only, not its governing type) from its first import and uses it in a constraint
    #[serde(default)]
    pub assoc: bool,
    /// every module constrains an INTEGER by one of its own named numbers and an ENUMERATED by one of its own
    /// enumerals; the last module of the set also defines values of exactly those names (X.680 19.10 and 20.?:
    /// inside the type's own value notation the identifier is the named number, whatever a neighbour defines)
    #[serde(default)]
    pub capture: bool,
    /// family "expansion across modules": `kind|lib-default|user-default|lib-name|source-order`; a notation defined by
    /// expansion (COMPONENTS OF, selection type) applied to an imported type whose components carry tags without a
    /// keyword.  The tags were written in the library module, so they follow *its* tagging default (X.680 31.2.7).
    #[serde(default)]
    pub xexpand: String,
}

fn xexpand_sources(spec: &str) -> (Vec<String>, Vec<String>) {
    let f: Vec<&str> = spec.split('|').collect();
    let (kind, dl, du, lib, order) = (f[0], f[1], f[2], f[3], f[4]);
    let kw = if dl == "EXPLICIT" { "EXPLICIT" } else { "IMPLICIT" };
    let libtext = format!("{lib} DEFINITIONS {dl} TAGS ::= BEGIN\nLib-Seq ::= SEQUENCE {{ a [0] INTEGER, b [1] BOOLEAN OPTIONAL }}\nLib-Cho ::= CHOICE {{ a [3] BOOLEAN, n [4] NULL }}\nEND\n");
    let (sugar, expanded) = match kind {
        "components-of" => ("Mid ::= SEQUENCE { own [7] NULL, COMPONENTS OF Lib-Seq }".to_string(), format!("Mid ::= SEQUENCE {{ own [7] NULL, a [0] {kw} INTEGER, b [1] {kw} BOOLEAN OPTIONAL }}")),
        "components-of-set" => ("Mid ::= SET { own [7] NULL, COMPONENTS OF Lib-Seq }".to_string(), format!("Mid ::= SET {{ own [7] NULL, a [0] {kw} INTEGER, b [1] {kw} BOOLEAN OPTIONAL }}")),
        "selection" => ("Mid ::= a < Lib-Cho".to_string(), format!("Mid ::= [3] {kw} BOOLEAN")),
        _ => ("Mid ::= SEQUENCE { own [7] NULL, s a < Lib-Cho }".to_string(), format!("Mid ::= SEQUENCE {{ own [7] NULL, s [3] {kw} BOOLEAN }}")),
    };
    let user = |body: &str| format!("User DEFINITIONS {du} TAGS ::= BEGIN\nIMPORTS Lib-Seq, Lib-Cho FROM {lib};\n{body}\nEND\n");
    let arrange = |u: String| if order == "lib-first" { vec![libtext.clone(), u] } else { vec![u, libtext.clone()] };
    (arrange(user(&sugar)), arrange(user(&expanded)))
}

fn check_clauses(spec: &str) -> CaseResult {
    let f: Vec<&str> = spec.split('|').collect();
    let (special, pos, order) = (f[1], f[2].parse::<usize>().unwrap_or(0), f[3]);
    let mut clauses = vec!["Gamma, max-g FROM Lib2".to_string(), "Delta, min-d FROM Lib3".to_string()];
    let (sp_clause, sp_use, lib1) = if special == "repeat" {
        // a second clause for a module that another clause imports from already (X.680 13.16 allows it): nothing is lost
        ("Epsilon, eps-v FROM Lib2", "k Epsilon, j INTEGER (0..eps-v)", "Unused ::= NULL")
    } else if special == "class" {
        ("MY-CLASS FROM Lib1", "k MY-CLASS.&id", "MY-CLASS ::= CLASS { &id INTEGER UNIQUE, &Type } WITH SYNTAX { &Type IDENTIFIED BY &id }")
    } else {
        ("Ext{} FROM Lib1", "k Ext {INTEGER}", "Ext {X} ::= SEQUENCE { x X }")
    };
    clauses.insert(pos, sp_clause.to_string());
    let user = format!("User DEFINITIONS AUTOMATIC TAGS ::= BEGIN\nIMPORTS {};\nA ::= SEQUENCE {{ g Gamma, d Delta, i INTEGER (min-d..max-g), {sp_use} }}\nEND\n", clauses.join(" "));
    let libs = vec![
        format!("Lib1 DEFINITIONS AUTOMATIC TAGS ::= BEGIN\n{lib1}\nEND\n"),
        "Lib2 DEFINITIONS AUTOMATIC TAGS ::= BEGIN\nGamma ::= BOOLEAN\nmax-g INTEGER ::= 7\nEpsilon ::= OCTET STRING\neps-v INTEGER ::= 9\nEND\n".to_string(),
        "Lib3 DEFINITIONS AUTOMATIC TAGS ::= BEGIN\nDelta ::= NULL\nmin-d INTEGER ::= 1\nEND\n".to_string(),
    ];
    let mut srcs = libs.clone();
    if order == "user-first" { srcs.insert(0, user.clone()) } else { srcs.push(user.clone()) }
    let key = |k: &str| format!("module|use-line|clauses|special={special}|pos={}|{k}", ["first", "middle", "last"][pos.min(2)]);
    let dump = srcs.join("\n");
    let gen = match compile_rasn(&srcs, &Cfg::default()) {
        Outcome::Ok { generated, .. } => generated,
        other => return CaseResult { discs: vec![Disc::new(key(&format!("rejected:{}", other.class())), format!("{}\n{dump}", other.brief()))], nontrivial: false, outcome: "rejected".into(), skipped: None },
    };
    let mut discs = vec![];
    match project(&gen).ok().and_then(|p| p.module("user").cloned()) {
        Some(m) => {
            let uses: Vec<String> = m.uses().iter().map(|u| u.replace(' ', "")).collect();
            if special == "repeat" {
                // all symbols imported from Lib2, over however many use lines, each exactly once
                let mut syms: Vec<String> = vec![];
                for u in uses.iter().filter(|u| u.contains("super::lib2::")) {
                    let tail = u.rsplit("super::lib2::").next().unwrap_or("");
                    syms.extend(tail.trim_matches(|c| c == '{' || c == '}').split(',').filter(|x| !x.is_empty()).map(|x| x.to_string()));
                }
                syms.sort();
                if syms != ["EPS_V", "Epsilon", "Gamma", "MAX_G"] {
                    discs.push(Disc::new(key("lib=lib2-twice"), format!("symbols imported from Lib2 over all use lines: {syms:?}, expected EPS_V, Epsilon, Gamma, MAX_G\nuse lines: {uses:?}\n{dump}\n--- generated ---\n{gen}")));
                }
            }
            for (lib, want) in [("lib2", "{Gamma,MAX_G}"), ("lib3", "{Delta,MIN_D}")] {
                if special == "repeat" && lib == "lib2" {
                    continue;
                }
                let line = uses.iter().find(|u| u.contains(&format!("super::{lib}::")));
                if line.map_or(true, |l| !l.ends_with(&format!("super::{lib}::{want}"))) {
                    discs.push(Disc::new(key(&format!("lib={lib}")), format!("expected `use super::{lib}::{want}`, use lines: {uses:?}\n{dump}\n--- generated ---\n{gen}")));
                }
            }
        }
        None => discs.push(Disc::new(key("no-module"), format!("{dump}\n{gen}"))),
    }
    CaseResult { discs, nontrivial: true, outcome: "clauses".into(), skipped: None }
}

pub fn check_xexpand(spec: &str) -> CaseResult {
    if spec.starts_with("clauses|") {
        return check_clauses(spec);
    }
    let (sug, exp) = xexpand_sources(spec);
    let f: Vec<&str> = spec.split('|').collect();
    let key = |k: &str| format!("module|expansion-across-modules|kind={}|lib={}|user={}|same-default={}|{k}", f[0], f[1], f[2], f[1] == f[2]);
    let dump = format!("--- sugared ---\n{}\n--- expanded ---\n{}", sug.join("\n"), exp.join("\n"));
    let (gs, ge) = match (compile_rasn(&sug, &Cfg::default()), compile_rasn(&exp, &Cfg::default())) {
        (Outcome::Ok { generated: a, warnings: wa }, Outcome::Ok { generated: b, warnings: wb }) if wa.is_empty() && wb.is_empty() => (a, b),
        (a, b) => return CaseResult { discs: vec![Disc::new(key(&format!("rejected:{}:{}", a.class(), b.class())), format!("{}\n{}\n{dump}", a.brief(), b.brief()))], nontrivial: false, outcome: "rejected".into(), skipped: None },
    };
    let mut discs = vec![];
    match (project(&gs), project(&ge)) {
        (Ok(ps), Ok(pe)) => {
            let (ps, pe) = (ps.without_docs(), pe.without_docs());
            let a = ps.module("user").and_then(|m| m.find("Mid").cloned());
            let b = pe.module("user").and_then(|m| m.find("Mid").cloned());
            if a.is_none() || a != b {
                discs.push(Disc::new(key("differs"), format!("the type using the notation differs from its hand-expanded form\nsugared: {a:?}\nexpanded: {b:?}\n{dump}\n--- generated (sugared) ---\n{gs}")));
            }
        }
        _ => discs.push(Disc::new(key("unparsable"), format!("{dump}\n{gs}"))),
    }
    CaseResult { discs, nontrivial: true, outcome: "xexpand".into(), skipped: None }
}

fn snake(name: &str) -> String {
    name.to_lowercase().replace('-', "_")
}
fn ty_name(m: &str) -> String {
    format!("Ty-{m}")
}
/// documented type-name rule: hyphens removed, the character after a hyphen upper-cased
fn title(s: &str) -> String {
    let mut out = String::new();
    let mut up = false;
    for c in s.chars() {
        if c == '-' {
            up = true;
        } else if up {
            out.push(c.to_ascii_uppercase());
            up = false;
        } else {
            out.push(c);
        }
    }
    out
}
fn ty_rust(m: &str) -> String {
    title(&ty_name(m))
}
fn val_name(m: &str) -> String {
    format!("val-{}", m.to_lowercase())
}
fn val_rust(m: &str) -> String {
    format!("VAL_{}", m.to_uppercase().replace('-', "_"))
}

pub fn module_text_shared(mods: &[Mod], i: usize, shared: bool) -> String {
    let t = module_text(mods, i);
    if shared {
        t.replace("END\n", "Shared ::= SEQUENCE { s [9] INTEGER }\nshared INTEGER ::= 3\nEND\n")
    } else {
        t
    }
}

fn half_name(m: &str) -> String {
    format!("half-{}", m.to_lowercase())
}

/// the `assoc` variant: an imported value whose governing type is not imported (the compiler has to add that
/// type to the importing module's use line, and to no other module's)
pub fn module_text_variant(mods: &[Mod], i: usize, shared: bool, assoc: bool, capture: bool) -> String {
    let mut t = module_text_shared(mods, i, shared);
    if capture {
        let x = &mods[i].name;
        let mut extra = format!("Lim-{x} ::= INTEGER {{ lim(10), top(20) }} (0..lim)\nHue-{x} ::= ENUMERATED {{ red, lim, blue }}\nW{x} ::= SEQUENCE {{ n Lim-{x} (0..top) }}\n");
        if i + 1 == mods.len() {
            extra += "lim INTEGER ::= 99\ntop INTEGER ::= 77\n";
        }
        t = t.replace("END\n", &format!("{extra}END\n"));
    }
    if assoc {
        let x = &mods[i].name;
        let mut extra = format!("Pct-{x} ::= INTEGER (0..100)\n{} Pct-{x} ::= 50\n", half_name(x));
        if let Some(j) = mods[i].imports.first() {
            let y = &mods[*j].name;
            t = t.replacen(&format!(" {} FROM {y}", val_name(y)), &format!(" {}, {} FROM {y}", val_name(y), half_name(y)), 1);
            extra += &format!("I{x} ::= INTEGER (0..{})\n", half_name(y));
        }
        t = t.replace("END\n", &format!("{extra}END\n"));
    }
    t
}

pub fn module_text(mods: &[Mod], i: usize) -> String {
    let m = &mods[i];
    let mut s = format!("{} DEFINITIONS", m.name);
    if !m.tagdef.is_empty() {
        s += &format!(" {} TAGS", m.tagdef);
    }
    if m.implied {
        s += " EXTENSIBILITY IMPLIED";
    }
    s += " ::= BEGIN\n";
    if !m.imports.is_empty() {
        s += "IMPORTS";
        for j in &m.imports {
            let y = &mods[*j].name;
            s += &format!(" {}, {} FROM {}", ty_name(y), val_name(y), y);
        }
        s += ";\n";
    }
    let x = &m.name;
    let mut comps = vec!["a [0] INTEGER".to_string(), "b [1] BOOLEAN OPTIONAL".to_string()];
    for (k, j) in m.imports.iter().enumerate() {
        let y = &mods[*j].name;
        let tref = if m.qualified && k == 0 { format!("{y}.{}", ty_name(y)) } else { ty_name(y) };
        comps.push(format!("f{k} [{}] {tref}", 2 + 2 * k));
        comps.push(format!("g{k} [{}] INTEGER (0..{}) DEFAULT 1", 3 + 2 * k, val_name(y)));
    }
    s += &format!("S{x} ::= SEQUENCE {{ {} }}\n", comps.join(", "));
    s += &format!("C{x} ::= CHOICE {{ p [0] NULL, q [1] S{x} }}\n");
    s += &format!("E{x} ::= ENUMERATED {{ e1, e2 }}\n");
    // observable uses of the backend's per-module state: automatic tagging predicate, tagged top-level CHOICE,
    // extensibility of every constructed kind
    s += &format!("U{x} ::= SEQUENCE {{ u1 BOOLEAN, u2 INTEGER }}\n");
    s += &format!("K{x} ::= [7] CHOICE {{ k NULL, l BOOLEAN }}\n");
    s += &format!("W{x} ::= SET {{ w1 NULL, n CHOICE {{ n1 [1] NULL, n2 [2] BOOLEAN }} }}\n");
    // module-qualified references that may close a type cycle across modules (the reference is then boxed and must
    // keep its module path)
    if m.qualified {
        match m.imports.first() {
            Some(j) => s += &format!("R{x} ::= SEQUENCE {{ back [0] {y}.R{y} OPTIONAL, n [1] NULL }}\n", y = mods[*j].name),
            None => s += &format!("R{x} ::= SEQUENCE {{ n [1] NULL }}\n"),
        }
    }
    s += &format!("{} ::= SEQUENCE {{ t [5] BOOLEAN }}\n", ty_name(x));
    s += &format!("{} INTEGER ::= 7\n", val_name(x));
    s += "END\n";
    s
}

fn closure(mods: &[Mod], i: usize) -> Vec<usize> {
    let mut seen = vec![i];
    let mut stack = vec![i];
    while let Some(x) = stack.pop() {
        for j in &mods[x].imports {
            if !seen.contains(j) {
                seen.push(*j);
                stack.push(*j);
            }
        }
    }
    seen.sort();
    seen
}

fn digraphs(n: usize) -> Vec<Vec<Vec<usize>>> {
    // all digraphs without self loops on n nodes: imports[i] = list of targets
    let pairs: Vec<(usize, usize)> = (0..n).flat_map(|a| (0..n).filter(move |b| *b != a).map(move |b| (a, b))).collect();
    let mut out = vec![];
    for mask in 0u32..(1 << pairs.len()) {
        let mut g = vec![vec![]; n];
        for (k, (a, b)) in pairs.iter().enumerate() {
            if mask & (1 << k) != 0 {
                g[*a].push(*b);
            }
        }
        out.push(g);
    }
    out
}

fn orders(n: usize, mods: &[Mod], with_dups: bool) -> Vec<Vec<usize>> {
    // every non-empty subset closed under imports, in every order; plus (optionally) one duplicated module
    let mut out = vec![];
    for mask in 1u32..(1 << n) {
        let set: Vec<usize> = (0..n).filter(|i| mask & (1 << i) != 0).collect();
        let closed = set.iter().all(|i| closure(mods, *i).iter().all(|j| set.contains(j)));
        if !closed {
            continue;
        }
        let mut perms: Vec<Vec<usize>> = vec![vec![]];
        for _ in 0..set.len() {
            let mut next = vec![];
            for p in &perms {
                for x in &set {
                    if !p.contains(x) {
                        let mut q = p.clone();
                        q.push(*x);
                        next.push(q);
                    }
                }
            }
            perms = next;
        }
        if with_dups && set.len() == n {
            for p in perms.clone() {
                let mut q = p.clone();
                q.push(p[0]);
                out.push(q);
            }
        }
        out.extend(perms);
    }
    out
}

impl Prop for C12 {
    type Case = Case;
    fn id(&self) -> &'static str {
        "C12"
    }
    fn rule(&self) -> String {
        "module sets of 2 modules (all 8×8 tagging×extensibility default assignments × all 4 import digraphs) and of 3 modules (pairwise-distinct defaults from a 4-palette × all 64 import digraphs, cyclic included; thorough also 4 modules on a ring/star/complete graph); every module has a tagged SEQUENCE, CHOICE, ENUMERATED, a type and a value, and uses each imported type as component type and each imported value as constraint endpoint (variants: all modules define the same names; an imported value whose type is not imported; every module constrains an INTEGER by its own named numbers while the last module defines values of exactly those names); for every set: every non-empty subset closed under `imports from`, in every order, handed to one Compiler as one literal per module (and once as a single concatenated literal), with and without default_wildcard_imports, plus one duplicated source. (family clauses: three IMPORTS clauses of which one imports an information object class / a parameterized symbol, at every position: the other clauses become use lines of exactly their symbols) (family expansion across modules: COMPONENTS OF an imported SEQUENCE in a SEQUENCE / SET, a selection type of an imported CHOICE as assignment / component, the imported components carrying tags without keyword, library and user module under every pair of tagging defaults, both name orders, both source orders; the result equals the hand-expanded type whose tags carry the keyword of the *library's* default). Oracle: differential — the `pub mod x` projection of X in the joint run equals that of X compiled with only its import closure; one `use super::<y>::{…}` per IMPORTS clause with exactly the mangled symbols in clause order (`*` iff wildcard); module-qualified references render as super::<y>::<T>, also when they close a type cycle across two modules and are boxed. Non-trivial: joint and stand-alone runs compiled cleanly and every module block was compared.".into()
    }
    fn enumerate(&self, tier: Tier, _seed: u64) -> Vec<Case> {
        let tags = ["", "EXPLICIT", "IMPLICIT", "AUTOMATIC"];
        let all8: Vec<(String, bool)> = tags.iter().flat_map(|t| [false, true].into_iter().map(move |i| (t.to_string(), i))).collect();
        let names = ["Alpha", "Be-ta", "GAMMA", "Delta"];
        let mut out = vec![];
        let mut push_set = |mods: Vec<Mod>, out: &mut Vec<Case>, dups: bool| {
            let n = mods.len();
            for o in orders(n, &mods, dups) {
                out.push(Case { mods: mods.clone(), order: o.clone(), single_source: false, wildcard: false, shared: false, assoc: false, capture: false, xexpand: String::new() });
                if o.len() == n && n == 2 {
                    out.push(Case { mods: mods.clone(), order: o.clone(), single_source: false, wildcard: false, shared: true, assoc: false, capture: false, xexpand: String::new() });
                    out.push(Case { mods: mods.clone(), order: o.clone(), single_source: false, wildcard: false, shared: false, assoc: true, capture: false, xexpand: String::new() });
                    out.push(Case { mods: mods.clone(), order: o.clone(), single_source: false, wildcard: false, shared: false, assoc: false, capture: true, xexpand: String::new() });
                }
                if o.len() == n {
                    out.push(Case { mods: mods.clone(), order: o.clone(), single_source: true, wildcard: false, shared: false, assoc: false, capture: false, xexpand: String::new() });
                    if o[0] == 0 {
                        out.push(Case { mods: mods.clone(), order: o, single_source: false, wildcard: true, shared: false, assoc: false, capture: false, xexpand: String::new() });
                    }
                }
            }
        };
        // two modules
        for (ta, ia) in &all8 {
            for (tb, ib) in &all8 {
                for g in digraphs(2) {
                    for qualified in [false, true] {
                        if qualified && g[0].is_empty() && g[1].is_empty() {
                            continue;
                        }
                        let mods = vec![
                            Mod { name: names[0].into(), tagdef: ta.clone(), implied: *ia, imports: g[0].clone(), qualified },
                            Mod { name: names[1].into(), tagdef: tb.clone(), implied: *ib, imports: g[1].clone(), qualified },
                        ];
                        push_set(mods, &mut out, true);
                    }
                }
            }
        }
        // three modules, pairwise-distinct defaults
        let palette: Vec<(String, bool)> = vec![("EXPLICIT".into(), false), ("IMPLICIT".into(), true), ("AUTOMATIC".into(), false), ("".into(), true)];
        for a in 0..4 {
            for b in 0..4 {
                for c3 in 0..4 {
                    if a == b || b == c3 || a == c3 {
                        continue;
                    }
                    if !tier.thorough() && (a + 2 * b + c3) % 3 != 0 {
                        continue;
                    }
                    for g in digraphs(3) {
                        let mods: Vec<Mod> = [a, b, c3].iter().enumerate().map(|(k, p)| Mod { name: names[k].into(), tagdef: palette[*p].0.clone(), implied: palette[*p].1, imports: g[k].clone(), qualified: false }).collect();
                        push_set(mods, &mut out, false);
                    }
                }
            }
        }
        // notations defined by expansion applied to imported types, library and user with every pair of tagging defaults
        let stub = vec![Mod { name: names[0].into(), tagdef: String::new(), implied: false, imports: vec![], qualified: false }];
        for kind in ["components-of", "components-of-set", "selection", "selection-component"] {
            for dl in ["EXPLICIT", "IMPLICIT", "AUTOMATIC"] {
                for du in ["EXPLICIT", "IMPLICIT", "AUTOMATIC"] {
                    if du == "AUTOMATIC" && kind != "selection" {
                        // (automatic tagging of a type with COMPONENTS OF is decided before and applied after the expansion: C03's subject)
                        continue;
                    }
                    for lib in ["Aa-Lib", "Zz-Lib"] {
                        for order in ["lib-first", "user-first"] {
                            out.push(Case { mods: stub.clone(), order: vec![0], single_source: false, wildcard: false, shared: false, assoc: false, capture: false, xexpand: format!("{kind}|{dl}|{du}|{lib}|{order}") });
                        }
                    }
                }
            }
        }
        // several IMPORTS clauses of which one needs the wildcard (an information object class, a parameterized symbol):
        // the other clauses still name exactly their symbols, wherever the special clause stands
        for special in ["class", "parameterized", "repeat"] {
            for pos in 0..3usize {
                for order in ["user-first", "user-last"] {
                    out.push(Case { mods: stub.clone(), order: vec![0], single_source: false, wildcard: false, shared: false, assoc: false, capture: false, xexpand: format!("clauses|{special}|{pos}|{order}") });
                }
            }
        }
        if tier.thorough() {
            for (gname, g) in [("ring", vec![vec![1], vec![2], vec![3], vec![0]]), ("star", vec![vec![1, 2, 3], vec![], vec![], vec![]]), ("complete", vec![vec![1, 2, 3], vec![0, 2, 3], vec![0, 1, 3], vec![0, 1, 2]])] {
                let _ = gname;
                for rot in 0..4 {
                    let mods: Vec<Mod> = (0..4).map(|k| Mod { name: names[k].into(), tagdef: palette[(k + rot) % 4].0.clone(), implied: palette[(k + rot) % 4].1, imports: g[k].clone(), qualified: false }).collect();
                    push_set(mods, &mut out, false);
                }
            }
        }
        out
    }
    fn check(&self, c: &Case) -> CaseResult {
        if !c.xexpand.is_empty() {
            return check_xexpand(&c.xexpand);
        }
        let cfg = Cfg { wildcard: c.wildcard, ..Default::default() };
        let texts: Vec<String> = (0..c.mods.len()).map(|i| module_text_variant(&c.mods, i, c.shared, c.assoc, c.capture)).collect();
        let sources: Vec<String> = if c.single_source { vec![c.order.iter().map(|i| texts[*i].clone()).collect::<Vec<_>>().join("\n")] } else { c.order.iter().map(|i| texts[*i].clone()).collect() };
        let joint = compile_rasn(&sources, &cfg);
        let dup = {
            let mut o = c.order.clone();
            o.sort();
            o.windows(2).any(|w| w[0] == w[1])
        };
        let envs = |i: usize| format!("{}{}", if c.mods[i].tagdef.is_empty() { "none" } else { &c.mods[i].tagdef }, if c.mods[i].implied { "+implied" } else { "" });
        let src_dump = sources.join("\n=====\n");
        let jg = match &joint {
            // (warnings are not the property's subject: it compares the bindings of each module, which follows)
            Outcome::Ok { generated, .. } => generated.clone(),
            Outcome::Panic { message, location } => return CaseResult { discs: vec![Disc::new(format!("panic|{location}"), format!("{message}\n{src_dump}"))], nontrivial: false, outcome: "panic".into(), skipped: None },
            other => {
                let k = if dup { "module|duplicate-source|rejected".to_string() } else { format!("module|joint-rejected|n={}|single={}|{}", c.order.len(), c.single_source, other.class()) };
                return CaseResult { discs: vec![Disc::new(k, format!("joint compilation: {}\n{src_dump}", other.brief()))], nontrivial: false, outcome: other.class().into(), skipped: None };
            }
        };
        let jp = match project(&jg) {
            Ok(p) => p,
            Err(e) => return CaseResult { discs: vec![Disc::new("module|unparsable", format!("{e}\n{jg}"))], nontrivial: false, outcome: "unparsable".into(), skipped: None },
        };
        let mut discs = vec![];
        let mut present: Vec<usize> = c.order.clone();
        present.sort();
        present.dedup();
        if jp.modules.len() != present.len() {
            discs.push(Disc::new(format!("module|lost-or-extra|expected={}|got={}|dup={dup}|shared-names={}", present.len(), jp.modules.len(), c.shared), format!("modules in output: {:?}\n{src_dump}\n--- generated ---\n{jg}", jp.modules.iter().map(|m| m.name.clone()).collect::<Vec<_>>())));
        }
        for i in &present {
            let m = &c.mods[*i];
            let rust_mod = snake(&m.name);
            let jm = match jp.module(&rust_mod) {
                Some(x) => x,
                None => {
                    discs.push(Disc::new(format!("module|missing-block|dup={dup}|shared-names={}", c.shared), format!("no `pub mod {rust_mod}`\n{src_dump}\n--- generated ---\n{jg}")));
                    continue;
                }
            };
            // stand-alone reference: X with its import closure, closure order ascending
            let cl = closure(&c.mods, *i);
            let alone_src: Vec<String> = cl.iter().map(|j| texts[*j].clone()).collect();
            let alone = compile_rasn(&alone_src, &cfg);
            let ag = match alone.ok_any() {
                Some((g, _)) => g.to_string(),
                None => {
                    discs.push(Disc::new(format!("module|standalone-rejected|{}", alone.class()), format!("{}\n{}", alone.brief(), alone_src.join("\n=====\n"))));
                    continue;
                }
            };
            let am = match project(&ag).ok().and_then(|p| p.module(&rust_mod).cloned()) {
                Some(x) => x,
                None => {
                    discs.push(Disc::new("module|standalone-missing-block".to_string(), ag.clone()));
                    continue;
                }
            };
            if *jm != am {
                // which neighbour is not in the closure?
                let others: Vec<String> = present.iter().filter(|j| !cl.contains(j)).map(|j| envs(*j)).collect();
                let first_diff = jm.items.iter().zip(am.items.iter()).find(|(a, b)| a != b).map(|(a, _)| format!("{}:{}", a.kind(), a.name())).unwrap_or_else(|| "item-count".into());
                let kind = if dup { "duplicate-source" } else { "env-leak" };
                discs.push(Disc::new(
                    format!("module|{kind}|shared-names={}|self={}|neighbours={}|single={}|first-diff-kind={}", c.shared, envs(*i), if others.is_empty() { "closure-only".into() } else { others.join(",") }, c.single_source, first_diff.split(':').next().unwrap_or("")),
                    format!("block of {} differs between joint and stand-alone compilation (first differing item {first_diff})\n--- joint sources ---\n{src_dump}\n--- joint block ---\n{:?}\n--- stand-alone block ---\n{:?}", m.name, jm, am),
                ));
            }
            // use lines
            let uses: Vec<String> = jm.uses().into_iter().filter(|u| u.starts_with("super::")).collect();
            let exp: Vec<String> = m.imports.iter().map(|j| {
                let y = &c.mods[*j].name;
                if c.wildcard {
                    format!("super::{}::{{*}}", snake(y))
                } else if c.assoc && Some(j) == m.imports.first() {
                    // + the value imported alone and, added by the compiler, its governing type
                    format!("super::{}::{{{},{},HALF_{},Pct{}}}", snake(y), ty_rust(y), val_rust(y), y.to_uppercase().replace('-', "_"), title(y))
                } else {
                    format!("super::{}::{{{},{}}}", snake(y), ty_rust(y), val_rust(y))
                }
            }).collect();
            if uses != exp {
                discs.push(Disc::new(format!("module|use-line|wildcard={}|n={}", c.wildcard, m.imports.len().min(2)), format!("module {}: expected {exp:?} got {uses:?}\n{src_dump}\n--- generated ---\n{jg}", m.name)));
            }
            // component types
            if let Some(Item::Struct { fields, .. }) = jm.find(&title(&format!("S{}", m.name))) {
                for (k, j) in m.imports.iter().enumerate() {
                    let y = &c.mods[*j].name;
                    let want = if m.qualified && k == 0 { format!("super::{}::{}", snake(y), ty_rust(y)) } else { ty_rust(y) };
                    let got = fields.iter().find(|f| f.name == format!("f{k}")).map(|f| f.ty.clone());
                    if got.as_deref() != Some(want.as_str()) {
                        discs.push(Disc::new(format!("module|reference-rendering|qualified={}", m.qualified && k == 0), format!("module {} field f{k}: expected type {want} got {got:?}\n{src_dump}", m.name)));
                    }
                    // the imported value must have been resolved as constraint endpoint
                    let g = fields.iter().find(|f| f.name == format!("g{k}"));
                    if g.map(|f| f.attrs.rasn.get("value").map(|v| v.to_string())) != Some(Some("\"0..=7\"".to_string())) {
                        discs.push(Disc::new("module|imported-value-constraint".to_string(), format!("module {} field g{k}: {:?}\n{src_dump}", m.name, g.map(|f| f.attrs.rasn.clone()))));
                    }
                }
            } else {
                discs.push(Disc::new("module|missing-struct".to_string(), format!("S{} not found\n{jg}", m.name)));
            }
            // the qualified, possibly recursive reference
            if m.qualified {
                if let Some(j) = m.imports.first() {
                    let y = &c.mods[*j];
                    let cyclic = y.qualified && y.imports.first() == Some(i);
                    let path = format!("super::{}::{}", snake(&y.name), title(&format!("R{}", y.name)));
                    // on a cycle one of the two references has to be boxed (which one is the compiler's choice); both keep the path
                    let plain = format!("Option<{path}>");
                    let boxed = format!("Option<Box<{path}>>");
                    let back_of = |mp: &ModProj, name: &str| -> Option<String> {
                        match mp.find(&title(&format!("R{name}"))) {
                            Some(Item::Struct { fields, .. }) => fields.iter().find(|f| f.name == "back").map(|f| f.ty.clone()),
                            _ => None,
                        }
                    };
                    let got = back_of(jm, &m.name);
                    let ok = got.as_deref() == Some(plain.as_str()) || (cyclic && got.as_deref() == Some(boxed.as_str()));
                    if !ok {
                        discs.push(Disc::new(format!("module|reference-rendering|qualified=true|recursive={cyclic}"), format!("module {} field back: expected type {plain}{} got {got:?}\n{src_dump}\n--- generated ---\n{jg}", m.name, if cyclic { format!(" or {boxed}") } else { String::new() })));
                    }
                    if cyclic && i < j {
                        let other = jp.module(&snake(&y.name)).and_then(|mp| back_of(mp, &y.name));
                        let any_box = got.as_deref().map_or(false, |t| t.contains("Box<")) || other.as_deref().map_or(false, |t| t.contains("Box<"));
                        if !any_box && other.is_some() {
                            discs.push(Disc::new("module|reference-rendering|qualified=true|cycle-unbroken".to_string(), format!("neither {got:?} nor {other:?} is boxed\n{src_dump}")));
                        }
                    }
                }
            }
        }
        CaseResult { discs, nontrivial: true, outcome: format!("cmp:n{}:{}", c.order.len(), if dup { "dup" } else { "set" }), skipped: None }
    }
}
