//! C14 — ENUMERATED items get the numbers X.680 §20 assigns.
use crate::common::*;
use crate::driver::*;
use crate::proj::*;
use serde::{Deserialize, Serialize};

pub struct C14;

#[derive(Clone, Serialize, Deserialize)]
pub struct Case {
    pub root: Vec<Option<i64>>,
    pub marker: bool,
    pub adds: Vec<Option<i64>>,
    /// EXTENSIBILITY IMPLIED header (must not influence numbering)
    #[serde(default)]
    pub implied: bool,
}

const NUMS: [Option<i64>; 6] = [None, Some(-1), Some(0), Some(1), Some(2), Some(5)];

/// X.680 §20.3-20.6.  None = the notation is not a valid enumeration.
pub fn enumnum(root: &[Option<i64>], adds: &[Option<i64>]) -> Option<Vec<i64>> {
    let mut out = vec![0i64; root.len() + adds.len()];
    let mut used: Vec<i64> = vec![];
    for x in root.iter().flatten() {
        if used.contains(x) {
            return None; // §20.3: distinct
        }
        used.push(*x);
    }
    // §20.4: identifier-only root items get successive integers from 0 skipping the explicitly used ones
    let mut next = 0i64;
    for (i, x) in root.iter().enumerate() {
        match x {
            Some(v) => out[i] = *v,
            None => {
                while used.contains(&next) {
                    next += 1;
                }
                out[i] = next;
                used.push(next);
                next += 1;
            }
        }
    }
    // §20.5/20.6: additions ascending, never reusing
    let mut last_add: Option<i64> = None;
    for (j, x) in adds.iter().enumerate() {
        let v = match x {
            Some(v) => {
                if used.contains(v) {
                    return None;
                }
                if let Some(l) = last_add {
                    if *v <= l {
                        return None; // §20.5: ordered
                    }
                }
                *v
            }
            None => {
                let mut c = match last_add {
                    Some(l) => (l + 1).max(0),
                    None => 0,
                };
                while used.contains(&c) {
                    c += 1;
                }
                c
            }
        };
        used.push(v);
        last_add = Some(v);
        out[root.len() + j] = v;
    }
    Some(out)
}

fn item_name(i: usize) -> String {
    ["a", "b", "c", "d", "e", "f", "g", "h", "i", "j"][i].to_string()
}

pub fn text(c: &Case) -> String {
    let mut items: Vec<String> = vec![];
    let fmt = |i: usize, n: &Option<i64>| match n {
        None => item_name(i),
        Some(v) => format!("{}({})", item_name(i), v),
    };
    for (i, n) in c.root.iter().enumerate() {
        items.push(fmt(i, n));
    }
    if c.marker {
        items.push("...".into());
    }
    for (j, n) in c.adds.iter().enumerate() {
        items.push(fmt(c.root.len() + j, n));
    }
    module("M", "AUTOMATIC", c.implied, &format!("E ::= ENUMERATED {{ {} }}", items.join(", ")))
}

fn pattern(c: &Case) -> String {
    let f = |v: &Vec<Option<i64>>| v.iter().map(|x| if x.is_some() { 'n' } else { 'i' }).collect::<String>();
    format!("{}{}{}", f(&c.root), if c.marker { "." } else { "" }, f(&c.adds))
}

impl Prop for C14 {
    type Case = Case;
    fn id(&self) -> &'static str {
        "C14"
    }
    fn rule(&self) -> String {
        "all ENUMERATED types with r root items and a additions, every item identifier-only or numbered from {-1,0,1,2,5}, marker present/absent; quick r<=3,a<=2, thorough r<=5,a<=3; plus EXTENSIBILITY IMPLIED for r<=2. A case is non-trivial when it is a valid enumeration per X.680 §20 and the compiler produced an enum item for it. Oracle: reference numbering (§20.3-20.6), variant order/names, extension_addition flags, non_exhaustive.".into()
    }
    fn selftest(&self) -> Result<u64, String> {
        // hand-checked examples from X.680 §20 / Annex
        let t = |r: &[Option<i64>], a: &[Option<i64>], e: Option<Vec<i64>>| if enumnum(r, a) == e { Ok(()) } else { Err(format!("enumnum({r:?},{a:?}) = {:?}, expected {e:?}", enumnum(r, a))) };
        t(&[None, None, None], &[], Some(vec![0, 1, 2]))?;
        t(&[None, Some(0), None], &[], Some(vec![1, 0, 2]))?;
        t(&[Some(5), None], &[], Some(vec![5, 0]))?;
        t(&[Some(1), Some(1)], &[], None)?;
        // X.680 §20.7 examples: A ::= ENUMERATED {a, b, ..., c} -> c = 2; B ::= {a, b, c(0), ..., d} invalid? (c(0) collides with a=0? no: a,b get 1,2) -> d = 3
        t(&[None, None], &[None], Some(vec![0, 1, 2]))?;
        t(&[None, None, Some(0)], &[None], Some(vec![1, 2, 0, 3]))?;
        // C ::= {a, b, ..., c(3), d} -> d = 4 ; D ::= {a, b, ..., c(1)} invalid ; E: {a,b,...,c(3), d(2)} invalid (not ascending)
        t(&[None, None], &[Some(3), None], Some(vec![0, 1, 3, 4]))?;
        t(&[None, None], &[Some(1)], None)?;
        t(&[None, None], &[Some(3), Some(2)], None)?;
        // {a(1), ..., b} -> b = 0
        t(&[Some(1)], &[None], Some(vec![1, 0]))?;
        // {a(0), b(2), ..., c, d} -> c=1, d=3
        t(&[Some(0), Some(2)], &[None, None], Some(vec![0, 2, 1, 3]))?;
        Ok(11)
    }
    fn enumerate(&self, tier: Tier, _seed: u64) -> Vec<Case> {
        let (rmax, amax) = if tier.thorough() { (5, 3) } else { (3, 2) };
        let mut out = vec![];
        fn lists(n: usize) -> Vec<Vec<Option<i64>>> {
            let mut v: Vec<Vec<Option<i64>>> = vec![vec![]];
            for _ in 0..n {
                let mut nv = vec![];
                for p in &v {
                    for x in NUMS.iter() {
                        let mut q = p.clone();
                        q.push(*x);
                        nv.push(q);
                    }
                }
                v = nv;
            }
            v
        }
        for r in 1..=rmax {
            for a in 0..=amax {
                for root in lists(r) {
                    for adds in lists(a) {
                        if a == 0 {
                            out.push(Case { root: root.clone(), marker: false, adds: vec![], implied: false });
                            out.push(Case { root: root.clone(), marker: true, adds: vec![], implied: false });
                            if r <= 2 {
                                out.push(Case { root: root.clone(), marker: false, adds: vec![], implied: true });
                            }
                        } else {
                            out.push(Case { root: root.clone(), marker: true, adds, implied: false });
                        }
                    }
                }
            }
        }
        out
    }
    fn check(&self, c: &Case) -> CaseResult {
        let exp = match enumnum(&c.root, &c.adds) {
            Some(e) => e,
            None => {
                // not valid ASN.1: only totality matters (C08); still run it so that panics are seen
                let o = compile1(&text(c));
                let mut r = CaseResult::skip("invalid-enumeration");
                if let Outcome::Panic { message, location } = o {
                    r.discs.push(Disc::new(format!("panic|{location}"), format!("panic on (invalid) enumeration: {message}\n{}", text(c))));
                }
                return r;
            }
        };
        let src = text(c);
        let o = compile1(&src);
        let gen = match o.ok_clean() {
            Some(g) => g,
            None => {
                return CaseResult {
                    discs: vec![Disc::new(format!("enum|not-compiled|{}|{}", pattern(c), o.class()), format!("valid enumeration rejected or warned: {}\n{src}", o.brief()))],
                    nontrivial: false,
                    outcome: o.class().into(),
                    skipped: None,
                }
            }
        };
        let mut discs = vec![];
        let p = match project(gen) {
            Ok(p) => p,
            Err(e) => {
                return CaseResult { discs: vec![Disc::new("enum|unparsable", format!("{e}\n{src}"))], nontrivial: false, outcome: "unparsable".into(), skipped: None }
            }
        };
        let item = p.only().and_then(|m| m.find("E"));
        let (attrs, variants) = match item {
            Some(Item::Enum { attrs, variants, .. }) => (attrs, variants),
            _ => {
                return CaseResult { discs: vec![Disc::new("enum|missing-item", format!("no enum E in output\n{src}\n{gen}"))], nontrivial: false, outcome: "missing".into(), skipped: None }
            }
        };
        let n = c.root.len() + c.adds.len();
        if variants.len() != n {
            discs.push(Disc::new(format!("enum|variant-count|{}", pattern(c)), format!("expected {n} variants, got {}\n{src}\n{gen}", variants.len())));
        } else {
            let got: Vec<Option<i64>> = variants.iter().map(|v| v.disc.as_ref().and_then(|d| d.parse::<i64>().ok())).collect();
            for i in 0..n {
                let in_add = i >= c.root.len();
                let explicit = if in_add { c.adds[i - c.root.len()].is_some() } else { c.root[i].is_some() };
                if variants[i].name != item_name(i) {
                    discs.push(Disc::new(format!("enum|name|where={}", if in_add { "addition" } else { "root" }), format!("variant {i} is {} expected {}\n{src}", variants[i].name, item_name(i))));
                }
                if got[i] != Some(exp[i]) {
                    let rel = match got[i] {
                        Some(g) if g < exp[i] => "lt",
                        Some(_) => "gt",
                        None => "none",
                    };
                    let dup = got.iter().enumerate().any(|(j, g)| j != i && *g == got[i]);
                    discs.push(Disc::new(
                        format!("enum|number|where={}|item={}|got-vs-exp={rel}|dup={dup}", if in_add { "addition" } else { "root" }, if explicit { "explicit" } else { "implicit" }),
                        format!("item {} (#{i}) expected {} got {:?}; pattern {}; expected all {:?} got {:?}\n{src}", item_name(i), exp[i], got[i], pattern(c), exp, got),
                    ));
                }
                let ext = variants[i].attrs.rasn.has("extension_addition");
                if ext != in_add {
                    discs.push(Disc::new(format!("enum|extension_addition|where={}|got={ext}", if in_add { "addition" } else { "root" }), format!("item #{i} extension_addition={ext}\n{src}\n{gen}")));
                }
                if variants[i].attrs.rasn.has("identifier") {
                    discs.push(Disc::new("enum|unexpected-identifier-annotation", format!("{src}\n{gen}")));
                }
            }
            // distinctness (implied by equality with the reference, but stated separately by the property)
            let mut g2: Vec<_> = got.iter().flatten().collect();
            g2.sort();
            g2.dedup();
            if g2.len() != n && discs.is_empty() {
                discs.push(Disc::new("enum|duplicate-numbers", src.clone()));
            }
        }
        let want_ne = c.marker || c.implied;
        if attrs.non_exhaustive != want_ne {
            discs.push(Disc::new(format!("enum|non_exhaustive|marker={}|implied={}|got={}", c.marker, c.implied, attrs.non_exhaustive), format!("{src}\n{gen}")));
        }
        if !attrs.rasn.has("enumerated") {
            discs.push(Disc::new("enum|no-enumerated-attr", format!("{src}\n{gen}")));
        }
        CaseResult { discs, nontrivial: true, outcome: format!("ok:r{}a{}m{}", c.root.len(), c.adds.len(), c.marker as u8), skipped: None }
    }
}
