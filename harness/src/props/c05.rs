//! C05 — extension markers, additions and addition groups are preserved.
use crate::common::*;
use crate::driver::*;
use crate::model::*;
use crate::proj::*;
use serde::{Deserialize, Serialize};

pub struct C05;

#[derive(Clone, Serialize, Deserialize)]
pub struct Case {
    /// SEQUENCE | SET | CHOICE | ENUMERATED
    pub kind: String,
    pub root: usize,
    pub marker: bool,
    /// additions: 0 = plain component, k>0 = group of k components
    pub adds: Vec<u8>,
    /// version numbers on groups
    pub versions: bool,
    pub nested: bool,
    pub implied: bool,
    pub tagdef: String,
    /// > 0: the root ends in `COMPONENTS OF Inc`, Inc having this many root components (and an extension of its
    /// own, which is not included); the additions are plain components
    #[serde(default)]
    pub included: u8,
}

fn included_text(c: &Case) -> String {
    let inc: Vec<String> = (0..c.included).map(|i| format!("r{i} {}", ["BOOLEAN", "INTEGER OPTIONAL", "NULL", "UTF8String"][i as usize % 4])).collect();
    let mut items: Vec<String> = (0..c.root).map(|i| format!("c{i} BOOLEAN")).collect();
    items.push("COMPONENTS OF Inc".into());
    if c.marker {
        items.push("...".into());
    }
    for j in 0..c.adds.len() {
        items.push(format!("x{j} BOOLEAN"));
    }
    let body = format!("Inc ::= {k} {{ {}, ..., late NULL }}\nA ::= {k} {{ {} }}", inc.join(", "), items.join(", "), k = c.kind);
    module("M", &c.tagdef, c.implied, &body)
}

fn check_included(c: &Case) -> CaseResult {
    let src = included_text(c);
    let key = |k: &str| format!("ext|components-of|kind={}|included={}|marker={}|additions={}|{k}", c.kind, if c.included > 2 { "many" } else { "few" }, c.marker, c.adds.len().min(2));
    let gen = match compile1(&src) {
        Outcome::Ok { generated, warnings } if warnings.is_empty() => generated,
        other => return CaseResult { discs: vec![Disc::new(key(&format!("rejected:{}", other.class())), format!("{}\n{src}", other.brief()))], nontrivial: false, outcome: other.class().into(), skipped: None },
    };
    let full = format!("{src}\n--- generated ---\n{gen}");
    let p = match project(&gen) {
        Ok(p) => p,
        Err(e) => return CaseResult { discs: vec![Disc::new("ext|unparsable", format!("{e}\n{full}"))], nontrivial: false, outcome: "unparsable".into(), skipped: None },
    };
    let mut discs = vec![];
    match p.only().and_then(|m| m.find("A")) {
        Some(Item::Struct { attrs, fields, .. }) => {
            if attrs.non_exhaustive != (c.marker || c.implied) {
                discs.push(Disc::new(key(&format!("non_exhaustive|exp={}", c.marker || c.implied)), full.clone()));
            }
            let mut want: Vec<(String, bool)> = (0..c.root).map(|i| (format!("c{i}"), false)).collect();
            want.extend((0..c.included).map(|i| (format!("r{i}"), false)));
            want.extend((0..c.adds.len()).map(|j| (format!("x{j}"), true)));
            let got: Vec<(String, bool)> = fields.iter().map(|f| (f.name.clone(), f.attrs.rasn.has("extension_addition"))).collect();
            if got != want {
                let k = if got.iter().map(|g| &g.0).collect::<Vec<_>>() != want.iter().map(|g| &g.0).collect::<Vec<_>>() { "members" } else { "extension_addition" };
                discs.push(Disc::new(key(k), format!("expected (field, extension addition) {want:?}\ngot {got:?}\n{full}")));
            }
        }
        _ => discs.push(Disc::new(key("missing"), full.clone())),
    }
    CaseResult { discs, nontrivial: true, outcome: format!("components-of:{}", c.kind), skipped: None }
}

pub fn build(c: &Case) -> Ty {
    let mut items = vec![];
    let mut k = 0usize;
    let mut mk = |k: &mut usize, in_group: bool| {
        let name = format!("c{}", *k);
        *k += 1;
        // vary member types a little: every third member is a reference, group members alternate OPTIONAL
        let (ty, opt) = if in_group && *k % 2 == 0 { (Ty::U8, Opt::Optional) } else if *k % 3 == 0 { (Ty::Ref, Opt::Req) } else { (Ty::Bool, Opt::Req) };
        Comp { name, ty, opt }
    };
    for _ in 0..c.root {
        items.push(BItem::C(mk(&mut k, false)));
    }
    if c.marker {
        items.push(BItem::Marker);
    }
    let mut v = 2u32;
    for a in &c.adds {
        if *a == 0 {
            items.push(BItem::C(mk(&mut k, false)));
        } else {
            let comps: Vec<Comp> = (0..*a).map(|_| mk(&mut k, c.kind != "CHOICE")).collect();
            let comps = if c.kind == "CHOICE" { comps.into_iter().map(|mut x| { x.opt = Opt::Req; x }).collect() } else { comps };
            items.push(BItem::Group(if c.versions { Some(v) } else { None }, comps));
            v += 1;
        }
    }
    let body = Body { items, marker_trailing_comma: false };
    let t = match c.kind.as_str() {
        "SEQUENCE" => Ty::Seq(body),
        "SET" => Ty::Set(body),
        _ => Ty::Choice(body),
    };
    if c.nested {
        Ty::Seq(Body::of(vec![Comp { name: "n".into(), ty: t, opt: Opt::Req }]))
    } else {
        t
    }
}

fn enum_text(c: &Case) -> String {
    // `versions` on an ENUMERATED: explicit numbers, the additions numbered below the root items (X.680 20.7's own example
    // `{ a, b(3), ..., c(1) }`): the order of the items and the place of the marker are those of the source, not of the numbers
    let mut items: Vec<String> = (0..c.root).map(|i| if c.versions { format!("e{i}({})", 10 + 2 * i) } else { format!("e{i}") }).collect();
    if c.marker {
        items.push("...".into());
    }
    for j in 0..c.adds.len() {
        items.push(if c.versions { format!("e{}({})", c.root + j, 1 + 2 * j) } else { format!("e{}", c.root + j) });
    }
    let e = format!("ENUMERATED {{ {} }}", items.join(", "));
    let body = if c.nested { format!("A ::= SEQUENCE {{ n {e} }}") } else { format!("A ::= {e}") };
    module("M", &c.tagdef, c.implied, &body)
}

pub fn text(c: &Case) -> String {
    if c.kind == "ENUMERATED" {
        enum_text(c)
    } else {
        module_text(&build(c), &c.tagdef, c.implied)
    }
}

impl Prop for C05 {
    type Case = Case;
    fn id(&self) -> &'static str {
        "C05"
    }
    fn rule(&self) -> String {
        "(plus SEQUENCE / SET whose root ends in COMPONENTS OF a type with 1..4 root components, 0..2 own root components, marker absent / present with 0..2 additions: the included components are root components, the additions and only they are extension additions) kind ∈ {SEQUENCE, SET, CHOICE, ENUMERATED} × root size r (quick 0..2, thorough 0..4; CHOICE/ENUMERATED r>=1) × marker absent/present × every addition layout of length a (quick <=4 with <=3 groups, thorough <=6 with <=3 groups) where an addition is a plain component or a [[ ]] group of 1..3 components, with and without version numbers × top-level / nested anonymous × EXTENSIBILITY IMPLIED on/off × tagging default (AUTOMATIC; thorough also EXPLICIT). Oracle: #[non_exhaustive] ⇔ marker ∨ IMPLIED; extension_addition exactly on components at index >= r; one extension_addition_group member of Option<Group> per group whose struct has exactly the grouped components in order (CHOICE: grouped alternatives are plain additions); ENUMERATED additions carry extension_addition. Non-trivial: compiled cleanly and compared.".into()
    }
    fn enumerate(&self, tier: Tier, _seed: u64) -> Vec<Case> {
        let (rmax, amax, gmax) = if tier.thorough() { (4usize, 6usize, 3usize) } else { (2, 4, 3) };
        let mut layouts: Vec<Vec<u8>> = vec![vec![]];
        let mut all: Vec<Vec<u8>> = vec![vec![]];
        for _ in 0..amax {
            let mut next = vec![];
            for l in &layouts {
                for x in 0u8..=3 {
                    let mut l2 = l.clone();
                    l2.push(x);
                    if l2.iter().filter(|v| **v > 0).count() <= gmax {
                        next.push(l2);
                    }
                }
            }
            all.extend(next.iter().cloned());
            layouts = next;
        }
        let mut out = vec![];
        let tagdefs: Vec<&str> = if tier.thorough() { vec!["AUTOMATIC", "EXPLICIT"] } else { vec!["AUTOMATIC"] };
        for kind in ["SEQUENCE", "SET", "CHOICE"] {
            for r in 0..=rmax {
                if kind == "CHOICE" && r == 0 {
                    continue;
                }
                for nested in [false, true] {
                    for implied in [false, true] {
                        for tagdef in &tagdefs {
                            // no marker: only the root
                            out.push(Case { kind: kind.into(), root: r, marker: false, adds: vec![], versions: false, nested, implied, tagdef: tagdef.to_string(), included: 0 });
                            for l in &all {
                                let has_group = l.iter().any(|v| *v > 0);
                                for versions in [false, true] {
                                    if versions && !has_group {
                                        continue;
                                    }
                                    out.push(Case { kind: kind.into(), root: r, marker: true, adds: l.clone(), versions, nested, implied, tagdef: tagdef.to_string(), included: 0 });
                                }
                            }
                        }
                    }
                }
            }
        }
        // COMPONENTS OF at the end of the root: the included components are root components, whatever their number
        for kind in ["SEQUENCE", "SET"] {
            for r in 0..=2usize {
                for included in 1..=4u8 {
                    for (marker, a) in [(false, 0usize), (true, 0), (true, 1), (true, 2)] {
                        for implied in [false, true] {
                            out.push(Case { kind: kind.into(), root: r, marker, adds: vec![0; a], versions: false, nested: false, implied, tagdef: "AUTOMATIC".into(), included });
                        }
                    }
                }
            }
        }
        for r in 1..=rmax.max(1) {
            for a in 0..=3usize {
                for nested in [false, true] {
                    for implied in [false, true] {
                        out.push(Case { kind: "ENUMERATED".into(), root: r, marker: false, adds: vec![], versions: false, nested, implied, tagdef: "AUTOMATIC".into(), included: 0 });
                        out.push(Case { kind: "ENUMERATED".into(), root: r, marker: true, adds: vec![0; a], versions: false, nested, implied, tagdef: "AUTOMATIC".into(), included: 0 });
                        if a >= 1 {
                            out.push(Case { kind: "ENUMERATED".into(), root: r, marker: true, adds: vec![0; a], versions: true, nested, implied, tagdef: "AUTOMATIC".into(), included: 0 });
                        }
                    }
                }
            }
        }
        out
    }
    fn check(&self, c: &Case) -> CaseResult {
        if c.included > 0 {
            return check_included(c);
        }
        let src = text(c);
        let o = compile1(&src);
        let layout: String = c.adds.iter().map(|a| char::from_digit(*a as u32, 10).unwrap()).collect();
        let gen = match &o {
            Outcome::Ok { generated, warnings } if warnings.is_empty() => generated.clone(),
            Outcome::Panic { message, location } => return CaseResult { discs: vec![Disc::new(format!("panic|{location}"), format!("{message}\n{src}"))], nontrivial: false, outcome: "panic".into(), skipped: None },
            other => {
                return CaseResult { discs: vec![Disc::new(format!("ext|rejected|kind={}|r={}|marker={}|groups={}|versions={}|{}", c.kind, c.root.min(1), c.marker, c.adds.iter().any(|a| *a > 0), c.versions, other.class()), format!("extensible type not compiled cleanly: {}\n{src}", other.brief()))], nontrivial: false, outcome: other.class().into(), skipped: None };
            }
        };
        let p = match project(&gen) {
            Ok(p) => p,
            Err(e) => return CaseResult { discs: vec![Disc::new("ext|unparsable", format!("{e}\n{src}\n{gen}"))], nontrivial: false, outcome: "unparsable".into(), skipped: None },
        };
        let m = match p.only() {
            Some(m) => m,
            None => return CaseResult::skip("no-module"),
        };
        let full = format!("{src}\n--- generated ---\n{gen}");
        // a neighbour module with the opposite EXTENSIBILITY setting, generated before / after this one, must not matter
        let mut nb_discs = vec![];
        if c.adds.len() <= 1 && !c.versions {
            for nb_name in ["A-Nb", "Z-Nb"] {
                let nb = format!("{nb_name} DEFINITIONS AUTOMATIC TAGS{} ::= BEGIN\nNb ::= SEQUENCE {{ n BOOLEAN }}\nNe ::= ENUMERATED {{ p, q }}\nEND\n", if c.implied { "" } else { " EXTENSIBILITY IMPLIED" });
                if let Outcome::Ok { generated, .. } = compile_rasn(&[src.clone(), nb.clone()], &Cfg::default()) {
                    if let Ok(p2) = project(&generated) {
                        if p2.module("m").map(|x| x.without_docs()) != Some(m.without_docs()) {
                            nb_discs.push(Disc::new(format!("ext|neighbour|kind={}|self-implied={}|neighbour={}", c.kind, c.implied, if nb_name.starts_with('A') { "before" } else { "after" }), format!("module M differs when compiled next to\n{nb}\n{full}\n--- joint ---\n{generated}")));
                        }
                    }
                }
            }
        }
        if c.kind == "ENUMERATED" {
            let name = if c.nested { "AN" } else { "A" };
            let mut discs = vec![];
            match m.find(name) {
                Some(Item::Enum { attrs, variants, .. }) => {
                    let want = c.marker || c.implied;
                    if attrs.non_exhaustive != want {
                        discs.push(Disc::new(format!("ext|kind=ENUMERATED|nested={}|non_exhaustive|marker={}|implied={}|got={}", c.nested, c.marker, c.implied, attrs.non_exhaustive), full.clone()));
                    }
                    let n = c.root + c.adds.len();
                    if variants.len() != n {
                        discs.push(Disc::new(format!("ext|kind=ENUMERATED|variant-count|r={}|a={}", c.root, c.adds.len()), full.clone()));
                    } else {
                        for (i, v) in variants.iter().enumerate() {
                            let want_add = i >= c.root;
                            if v.attrs.rasn.has("extension_addition") != want_add || v.name != format!("e{i}") {
                                discs.push(Disc::new(format!("ext|kind=ENUMERATED|r={}|a={}|pos={}|exp=add:{want_add}", c.root, c.adds.len(), if i < c.root { "root" } else { "addition" }), full.clone()));
                            }
                        }
                    }
                }
                _ => discs.push(Disc::new("ext|kind=ENUMERATED|missing-item", full.clone())),
            }
            discs.extend(nb_discs);
            return CaseResult { discs, nontrivial: true, outcome: format!("ok:ENUMERATED:m{}", c.marker), skipped: None };
        }
        let ty = build(c);
        let mut cmp = Cmp { m, discs: vec![], visited: Default::default(), implied: c.implied, prefix: "ext", src: &full, check_ext: true, check_shape: false };
        cmp.top(&ty);
        let _ = layout;
        let mut discs = cmp.discs;
        discs.extend(nb_discs);
        CaseResult { discs, nontrivial: true, outcome: format!("ok:{}:m{}:g{}", c.kind, c.marker, c.adds.iter().filter(|a| **a > 0).count()), skipped: None }
    }
}
