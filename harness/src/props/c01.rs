//! C01 — warning-free compilations yield Rust bindings that type-check against rasn.
use crate::common::*;
use crate::driver::*;
use crate::model::*;
use crate::props::{c02, c06, c07, c12};
use crate::tokens::feature_modules;
use rayon::prelude::*;
use serde::{Deserialize, Serialize};
use std::collections::HashMap;
use std::process::{Command, Stdio};
use std::sync::{Mutex, OnceLock};

pub struct C01;

#[derive(Clone, Serialize, Deserialize)]
pub struct Case {
    pub label: String,
    pub sources: Vec<String>,
    pub cfg: Cfg,
}

#[derive(Clone, Debug)]
struct Verdict {
    /// None = not judged (compile not Ok-and-clean); Some(errors)
    errors: Option<Vec<(String, String)>>,
    class: String,
    parse_error: Option<String>,
}

fn results() -> &'static Mutex<HashMap<u64, Verdict>> {
    static R: OnceLock<Mutex<HashMap<u64, Verdict>>> = OnceLock::new();
    R.get_or_init(|| Mutex::new(HashMap::new()))
}

fn key_of(c: &Case) -> u64 {
    fnv(&serde_json::to_string(c).unwrap_or_default())
}

fn verif_dir() -> String {
    std::env::var("VERIF_DIR").unwrap_or_else(|_| "/verif".into())
}

fn normalize(msg: &str) -> String {
    // identifiers / types in backticks -> □, numbers -> N
    let mut out = String::new();
    let mut in_tick = false;
    for ch in msg.chars() {
        if ch == '`' {
            if !in_tick {
                out.push('□');
            }
            in_tick = !in_tick;
            continue;
        }
        if in_tick {
            continue;
        }
        if ch.is_ascii_digit() {
            if !out.ends_with('N') {
                out.push('N');
            }
        } else {
            out.push(ch);
        }
    }
    out.chars().take(90).collect()
}

/// type-check a batch of generated texts; returns per index the list of (code, message) errors
fn type_check(batch: &[(usize, String)]) -> Result<HashMap<usize, Vec<(String, String)>>, String> {
    let root = format!("{}/rustcheck", verif_dir());
    let ncrates = 16usize;
    let mut libs: Vec<String> = vec![String::from("#![allow(warnings)]\n"); ncrates];
    // clean old case files
    for k in 0..ncrates {
        let d = format!("{root}/chk{k:02}/src");
        if let Ok(rd) = std::fs::read_dir(&d) {
            for e in rd.flatten() {
                let n = e.file_name().to_string_lossy().to_string();
                if n.starts_with('c') && n.ends_with(".rs") {
                    let _ = std::fs::remove_file(e.path());
                }
            }
        }
    }
    for k in 0..ncrates {
        let _ = std::fs::create_dir_all(format!("{root}/chk{k:02}/src"));
    }
    for (j, (idx, text)) in batch.iter().enumerate() {
        let k = j % ncrates;
        std::fs::write(format!("{root}/chk{k:02}/src/c{idx}.rs"), text).map_err(|e| e.to_string())?;
        libs[k] += &format!("pub mod c{idx};\n");
    }
    for k in 0..ncrates {
        std::fs::write(format!("{root}/chk{k:02}/src/lib.rs"), &libs[k]).map_err(|e| e.to_string())?;
    }
    let out = Command::new("cargo")
        .args(["check", "--workspace", "--offline", "--message-format=json", "--keep-going"])
        .current_dir(&root)
        .env("CARGO_NET_OFFLINE", "true")
        .stdout(Stdio::piped())
        .stderr(Stdio::piped())
        .output()
        .map_err(|e| format!("cannot run cargo check: {e}"))?;
    let stdout = String::from_utf8_lossy(&out.stdout);
    let mut res: HashMap<usize, Vec<(String, String)>> = HashMap::new();
    let mut saw_any = false;
    for line in stdout.lines() {
        let v: serde_json::Value = match serde_json::from_str(line) {
            Ok(v) => v,
            Err(_) => continue,
        };
        saw_any = true;
        if v["reason"] != "compiler-message" {
            continue;
        }
        let m = &v["message"];
        if m["level"] != "error" {
            continue;
        }
        let code = m["code"]["code"].as_str().unwrap_or("-").to_string();
        let msg = m["message"].as_str().unwrap_or("").to_string();
        if msg.starts_with("aborting due to") || msg.starts_with("could not compile") {
            continue;
        }
        let mut file = None;
        if let Some(spans) = m["spans"].as_array() {
            for s in spans {
                if s["is_primary"] == true {
                    file = crate::wire::site(s);
                }
            }
            if file.is_none() {
                file = spans.first().and_then(crate::wire::site);
            }
        }
        if let Some(f) = file {
            // .../src/c123.rs
            if let Some(n) = f.rsplit('/').next().and_then(|n| n.strip_prefix('c')).and_then(|n| n.strip_suffix(".rs")).and_then(|n| n.parse::<usize>().ok()) {
                res.entry(n).or_default().push((code, msg));
                continue;
            }
        }
        // an error that cannot be attributed to a case file (e.g. in lib.rs) is a machinery problem
        return Err(format!("unattributable rustc error: {code} {msg} (spans: {})", m["spans"].as_array().map(|a| a.iter().map(|s| format!("{}:{}", s["file_name"].as_str().unwrap_or("?"), s["line_start"])).collect::<Vec<_>>().join(", ")).unwrap_or_default()));
    }
    if !saw_any && !out.status.success() {
        return Err(format!("cargo check failed without diagnostics: {}", String::from_utf8_lossy(&out.stderr).chars().rev().take(500).collect::<String>().chars().rev().collect::<String>()));
    }
    Ok(res)
}

fn judge_all(cases: &[Case]) -> Result<(), String> {
    let outcomes: Vec<Outcome> = cases.par_iter().map(|c| compile_rasn(&c.sources, &c.cfg)).collect();
    let mut batch: Vec<(usize, String)> = vec![];
    let mut seen: HashMap<u64, usize> = HashMap::new();
    let mut alias: HashMap<usize, usize> = HashMap::new();
    let mut verdicts: Vec<Verdict> = vec![];
    for (i, o) in outcomes.iter().enumerate() {
        let mut v = Verdict { errors: None, class: o.class().to_string(), parse_error: None };
        if let Some(g) = o.ok_clean() {
            match syn::parse_file(g) {
                Err(e) => v.parse_error = Some(e.to_string()),
                Ok(_) => {
                    let h = fnv(g);
                    match seen.get(&h) {
                        Some(j) => {
                            alias.insert(i, *j);
                        }
                        None => {
                            seen.insert(h, i);
                            batch.push((i, g.to_string()));
                        }
                    }
                }
            }
        }
        verdicts.push(v);
    }
    // rustc stops a crate after an early-phase error (macro expansion, resolution), which would hide later-phase
    // errors of the other cases batched into the same crate: re-check the not-yet-failing cases until a pass is clean
    let mut remaining = batch.clone();
    let mut all: HashMap<usize, Vec<(String, String)>> = HashMap::new();
    for _pass in 0..6 {
        let res = type_check(&remaining)?;
        if res.is_empty() {
            break;
        }
        remaining.retain(|(i, _)| !res.contains_key(i));
        for (i, e) in res {
            all.entry(i).or_default().extend(e);
        }
    }
    // leave the judged crates empty so that a later warm-up or run starts from a compiling workspace
    for k in 0..16 {
        let d = format!("{}/rustcheck/chk{k:02}/src", verif_dir());
        if let Ok(rd) = std::fs::read_dir(&d) {
            for e in rd.flatten() {
                let n = e.file_name().to_string_lossy().to_string();
                if n.starts_with('c') && n.ends_with(".rs") {
                    let _ = std::fs::remove_file(e.path());
                }
            }
        }
        let _ = std::fs::write(format!("{d}/lib.rs"), "// generated by the C01 check\n");
    }
    for (i, _) in &batch {
        verdicts[*i].errors = Some(all.get(i).cloned().unwrap_or_default());
    }
    for (i, j) in alias {
        verdicts[i].errors = verdicts[j].errors.clone();
    }
    // bindings requested as no_std compliant must not name the std crate (the judged crates are not `#![no_std]`, so
    // rustc would not notice): the property allows rasn and lazy_static as the only dependencies of such bindings
    for (i, c) in cases.iter().enumerate() {
        if c.cfg.no_std {
            if let (Some(g), Some(errs)) = (outcomes[i].ok_clean(), verdicts[i].errors.as_mut()) {
                // (the text is a token stream: `impl std :: default :: Default for ..`)
                let toks: Vec<&str> = g.split_whitespace().collect();
                if let Some(p) = (0..toks.len().saturating_sub(2)).find(|p| toks[*p] == "std" && toks[*p + 1] == "::" && (*p == 0 || toks[*p - 1] != "::")) {
                    errs.push(("NOSTD".to_string(), format!("no_std compliant bindings name the std crate: `std::{}`", toks[p + 2])));
                }
            }
        }
    }
    let mut map = results().lock().unwrap();
    for (c, v) in cases.iter().zip(verdicts.into_iter()) {
        map.insert(key_of(c), v);
    }
    Ok(())
}

fn m1(tagdef: &str, implied: bool, body: &str) -> Vec<String> {
    vec![module("M", tagdef, implied, body)]
}

fn t_first_value(t: &c07::VT) -> String {
    t.first_value_text()
}

impl Prop for C01 {
    type Case = Case;
    fn id(&self) -> &'static str {
        "C01"
    }
    fn rule(&self) -> String {
        "module sets of the grammar G by feature deviation from a one-module AUTOMATIC-TAGS default-config skeleton: level 1 = every feature alone (38 feature modules; every SEQUENCE/SET/CHOICE with <=1 component and, thorough, <=2 components over the 14-type alphabet × optionality; every container chain to depth 3 incl. recursion; every value notation and DEFAULT form of C07's table (one per notation×feature); integer bound pairs over the 9-point boundary subset as component + DEFAULT; 2- and 3-module import sets with differing tagging/extensibility defaults), level 2 = each feature module × each RasnConfig deviation (no_std, from-impls, wildcard imports, custom imports, extra derives, non-derive attributes, derives listed twice; thorough: all pairs of flags) and × the four tagging defaults where X.680 tag distinctness is kept. Only compilations returning Ok without warnings are judged: the text must parse (syn) and `cargo check` of a crate whose only dependencies are rasn 0.27 and lazy_static must emit no error attributed to the case (16 crates, one `cargo check --workspace`). Non-trivial: judged by rustc.".into()
    }
    fn assumptions(&self) -> Vec<String> {
        vec!["rustc 1.95 + rasn 0.27.0 + rasn-derive are the definition of `type-checks against rasn`".into(), "identical generated texts are type-checked once".into()]
    }
    fn enumerate(&self, tier: Tier, seed: u64) -> Vec<Case> {
        let mut out: Vec<Case> = vec![];
        let d = Cfg::default();
        let mut push = |label: String, sources: Vec<String>, cfg: Cfg| out.push(Case { label, sources, cfg });
        // --- feature modules × configs
        let cfgs: Vec<(&str, Cfg)> = vec![
            ("default", d.clone()),
            ("no-std", Cfg { no_std: true, ..d.clone() }),
            ("from-impls", Cfg { from_impls: true, ..d.clone() }),
            ("wildcard", Cfg { wildcard: true, ..d.clone() }),
            ("imports", Cfg { custom_imports: vec!["core::fmt::Display".into(), "alloc::string::String as AllocString".into()], ..d.clone() }),
            ("derives", Cfg { type_annotations: Some(vec!["#[derive(Eq, Hash, PartialOrd)]".into()]), ..d.clone() }),
            ("attrs", Cfg { type_annotations: Some(vec!["#[allow(dead_code)]".into(), "#[derive(Eq, Hash)]".into()]), ..d.clone() }),
            ("derives-twice", Cfg { type_annotations: Some(vec!["#[derive(AsnType, Debug, Eq)]".into(), "#[derive(Debug, Hash, Clone)]".into()]), ..d.clone() }),
            ("open-types", Cfg { non_opaque_open_types: true, ..d.clone() }),
            ("no-std+from-impls", Cfg { no_std: true, from_impls: true, ..d.clone() }),
            ("no-std+wildcard+imports", Cfg { no_std: true, wildcard: true, custom_imports: vec!["core::fmt::Display".into()], ..d.clone() }),
        ];
        for (n, t) in feature_modules() {
            for (cn, c) in &cfgs {
                if !tier.thorough() && cn.contains('+') && n.len() % 2 == 0 {
                    continue;
                }
                push(format!("feature:{n}|cfg={cn}"), vec![t.clone()], c.clone());
            }
        }
        // --- constructed-type shapes (AUTOMATIC tags keep tags distinct)
        for c in c02::C02.enumerate(Tier::Quick, seed) {
            if c.tagdef != "AUTOMATIC" || c.implied {
                continue;
            }
            let small = match &c.ty {
                Ty::Seq(b) | Ty::Set(b) | Ty::Choice(b) => b.comps().len() <= if tier.thorough() { 2 } else { 1 } && c.ty.depth() <= 2,
                other => other.depth() <= 3,
            };
            if !small && c.others.is_empty() && c.aliases.is_empty() {
                continue;
            }
            if !c.others.is_empty() && !tier.thorough() && c.others.len() > 1 {
                continue;
            }
            let src = if c.others.is_empty() && c.aliases.is_empty() {
                module_text(&c.ty, "AUTOMATIC", false)
            } else {
                let mut body = format!("A ::= {}\n", ty_text(&c.ty, "A"));
                for (n, t) in &c.others {
                    body += &format!("{n} ::= {}\n", ty_text(t, n));
                }
                for (n, text, _) in &c.aliases {
                    body += &format!("{n} ::= {text}\n");
                }
                module("M", "AUTOMATIC", false, &body)
            };
            // (one input class for everything that mentions the type the lexer does not know)
            let label = if src.contains("ObjectDescriptor") { "shape:ObjectDescriptor".to_string() } else { format!("shape:{}", c.ty.kind()) };
            push(label, vec![src], d.clone());
        }
        // --- OF towers around anonymous types inside components (hoisting must see through every OF level)
        for t in c02::of_towers(if tier.thorough() { 3 } else { 2 }) {
            push(format!("shape:of-tower:{}", t.kind()), vec![module_text(&t, "AUTOMATIC", false)], d.clone());
        }
        // --- values and DEFAULTs: one representative per (notation, feature, route)
        let mut seen = std::collections::BTreeSet::new();
        for c in c07::cases(if tier.thorough() { Tier::Thorough } else { Tier::Quick }) {
            // composite values over type trees: the symbolic level of C07 is blind to the names of the types a value mentions,
            // so every such value (quick: depth-1 trees completely, depth-2 trees with their first value) is type-checked here
            if let Some(t) = &c.vt {
                if c.route != "assign" && c.route != "default" {
                    continue;
                }
                let first_value = c.value == t_first_value(t);
                if tier.thorough() || t.depth() <= 1 || (first_value && c.route == "assign") {
                    push(format!("value:tree:{}:{}|{}|{}|{}", c07::value_class(&c), if c.feature.ends_with("inline-types") { "inline" } else { "named" }, c.route, c.prelude.lines().last().unwrap_or(""), c.value), vec![c07::text(&c)], d.clone());
                }
                continue;
            }
            if seen.insert((c.notation.clone(), c.feature.clone(), c.route.clone())) {
                push(format!("value:{}|{}|{}", c.notation, c.feature, c.route), vec![c07::text(&c)], if c.notation.len() % 3 == 0 { Cfg { no_std: true, ..d.clone() } } else { d.clone() });
            }
        }
        // --- integer widths: component + DEFAULT over boundary pairs (field type vs default fn type)
        let mut seen2 = std::collections::BTreeSet::new();
        let mut seen3 = std::collections::BTreeSet::new();
        for c in c06::C06.enumerate(Tier::Quick, seed) {
            // (the single-range forms are thinned out: C06 itself visits all of them)
            let thinned = c.form == "single" || c.form.starts_with("open") || c.form.starts_with("union-ref");
            let open = c.form.starts_with("open") || c.form.starts_with("union-ref");
            if matches!(c.ctx.as_str(), "default" | "refdefault" | "value" | "refvalue" | "subrefvalue" | "subrefdefault") && (!thinned || (!open && seen2.len() < 400) || (open && seen3.len() < 400)) {
                let t = c06::text(&c);
                let fresh = if open { seen3.insert(fnv(&t)) } else { seen2.insert(fnv(&t)) };
                if fresh && ((seen2.len() + seen3.len()) % if tier.thorough() { 1 } else { 8 } == 0 || !thinned) {
                    push(format!("width:{}|{}", c.ctx, c.form), vec![t], d.clone());
                }
            }
        }
        // --- multi-module sets
        for (k, c) in c12::C12.enumerate(Tier::Quick, seed).into_iter().enumerate() {
            if c.shared || c.single_source || c.order.len() != c.mods.len() {
                continue;
            }
            if k % if tier.thorough() { 40 } else { 160 } != 0 {
                continue;
            }
            let texts: Vec<String> = c.order.iter().map(|i| c12::module_text(&c.mods, *i)).collect();
            push(format!("modules:n={}|wildcard={}", c.mods.len(), c.wildcard), texts, Cfg { wildcard: c.wildcard, ..d.clone() });
        }
        // --- tagging defaults on shapes with explicit distinct tags
        for tagdef in ["", "EXPLICIT", "IMPLICIT"] {
            for implied in [false, true] {
                push(format!("env:{tagdef}:{implied}"), m1(tagdef, implied, "T ::= SEQUENCE { a [0] INTEGER (0..7) DEFAULT 3, b [1] BOOLEAN OPTIONAL, c [2] CHOICE { x [0] NULL, y [1] T } OPTIONAL, d [3] SEQUENCE OF T, e [4] ENUMERATED { p, q } }\nU ::= SET { u [0] T, v [1] UTF8String (SIZE (1..4)) }\nV ::= CHOICE { m [0] U, n [1] [APPLICATION 3] EXPLICIT INTEGER }\nW ::= [PRIVATE 9] V"), d.clone());
            }
        }
        if let Err(e) = judge_all(&out) {
            eprintln!("MACHINERY: {e}");
            std::process::exit(2);
        }
        out
    }
    fn check(&self, c: &Case) -> CaseResult {
        let k = key_of(c);
        let mut v = results().lock().unwrap().get(&k).cloned();
        if v.is_none() {
            // replay path: judge this single case
            if let Err(e) = judge_all(std::slice::from_ref(c)) {
                return CaseResult { discs: vec![Disc::new("rustc|machinery".to_string(), e)], nontrivial: false, outcome: "machinery".into(), skipped: None };
            }
            v = results().lock().unwrap().get(&k).cloned();
        }
        let v = v.unwrap();
        let src = c.sources.join("\n=====\n");
        if let Some(e) = v.parse_error {
            return CaseResult { discs: vec![Disc::new(format!("rustc|unparsable|{}", c.label.split('|').next().unwrap_or("")), format!("{e}\nconfig {}\n{src}", c.cfg.label()))], nontrivial: true, outcome: "unparsable".into(), skipped: None };
        }
        match v.errors {
            None => CaseResult::skip(format!("not-clean:{}", v.class)),
            Some(errs) => {
                let mut discs = vec![];
                let mut seen = std::collections::BTreeSet::new();
                for (code, msg) in errs {
                    // family + feature class of the input, so that the same generic rustc message in another
                    // part of the input space is a different key
                    let fam: String = c.label.split('|').next().unwrap_or("").chars().take(40).collect();
                    let fam = if fam.starts_with("width:") || fam.starts_with("modules:") || fam.starts_with("env:") { fam.split(':').next().unwrap_or("").to_string() + ":" + c.label.split('|').nth(1).unwrap_or("") } else { fam };
                    let key = format!("rustc|{code}|{}|input={fam}|cfg={}", normalize(&msg), if c.cfg == Cfg::default() { "default" } else { "configured" });
                    if seen.insert(key.clone()) {
                        discs.push(Disc::new(key, format!("{code}: {msg}\ncase {} config {}\n{src}", c.label, c.cfg.label())));
                    }
                }
                CaseResult { discs, nontrivial: true, outcome: format!("checked:{}", c.label.split(':').next().unwrap_or("")), skipped: None }
            }
        }
    }
}
