//! C18 — TypeScript declarations have the JER shape of each type.
use crate::common::*;
use crate::driver::*;
use crate::model::*;
use crate::props::c02;
use crate::props::c05;
use serde::{Deserialize, Serialize};

pub struct C18;

#[derive(Clone, Serialize, Deserialize)]
pub struct Case {
    pub ty: Ty,
    pub implied: bool,
    /// extra top-level assignments (named references)
    #[serde(default)]
    pub others: Vec<(String, Ty)>,
    /// "" | "imports:<names>" : A's components are of types imported from a second module (names comma separated)
    /// | "values" : value assignments of list types next to the type (balance of the output)
    #[serde(default)]
    pub extra: String,
}

// ------------------------------------------------------------ a small structural TypeScript parser
#[derive(Clone, Debug, PartialEq)]
pub enum Ts {
    Name(String),
    Lit(String),
    Obj(Vec<(String, bool, Ts)>, bool), // members (name, optional, type), index signature
    Arr(Box<Ts>),
    Union(Vec<Ts>),
}

struct P<'a> {
    s: &'a [char],
    i: usize,
}
impl<'a> P<'a> {
    fn ws(&mut self) {
        loop {
            while self.i < self.s.len() && self.s[self.i].is_whitespace() {
                self.i += 1;
            }
            // TypeScript comments are white-space: what they hide is not declared
            if self.i + 1 < self.s.len() && self.s[self.i] == '/' && self.s[self.i + 1] == '/' {
                while self.i < self.s.len() && self.s[self.i] != '\n' {
                    self.i += 1;
                }
            } else if self.i + 1 < self.s.len() && self.s[self.i] == '/' && self.s[self.i + 1] == '*' {
                self.i += 2;
                while self.i + 1 < self.s.len() && !(self.s[self.i] == '*' && self.s[self.i + 1] == '/') {
                    self.i += 1;
                }
                self.i = (self.i + 2).min(self.s.len());
            } else {
                break;
            }
        }
    }
    fn eat(&mut self, c: char) -> bool {
        self.ws();
        if self.i < self.s.len() && self.s[self.i] == c {
            self.i += 1;
            true
        } else {
            false
        }
    }
    fn peek(&mut self) -> Option<char> {
        self.ws();
        self.s.get(self.i).copied()
    }
    fn ident(&mut self) -> Option<String> {
        self.ws();
        let st = self.i;
        while self.i < self.s.len() && (self.s[self.i].is_alphanumeric() || self.s[self.i] == '_' || self.s[self.i] == '$' || self.s[self.i] == '.') {
            self.i += 1;
        }
        if self.i > st {
            Some(self.s[st..self.i].iter().collect())
        } else {
            None
        }
    }
    fn string(&mut self) -> Option<String> {
        self.ws();
        let q = *self.s.get(self.i)?;
        if q != '"' && q != '\'' {
            return None;
        }
        self.i += 1;
        let st = self.i;
        while self.i < self.s.len() && self.s[self.i] != q {
            self.i += 1;
        }
        let v: String = self.s[st..self.i.min(self.s.len())].iter().collect();
        if self.i >= self.s.len() {
            return None;
        }
        self.i += 1;
        Some(v)
    }
    fn ty(&mut self) -> Result<Ts, String> {
        let mut parts = vec![];
        self.eat('|'); // leading bar
        loop {
            parts.push(self.postfix()?);
            if !self.eat('|') {
                break;
            }
        }
        Ok(if parts.len() == 1 { parts.pop().unwrap() } else { Ts::Union(parts) })
    }
    fn postfix(&mut self) -> Result<Ts, String> {
        let mut t = self.primary()?;
        loop {
            self.ws();
            if self.i + 1 < self.s.len() && self.s[self.i] == '[' && self.s[self.i + 1] == ']' {
                self.i += 2;
                t = Ts::Arr(Box::new(t));
            } else {
                break;
            }
        }
        Ok(t)
    }
    fn primary(&mut self) -> Result<Ts, String> {
        match self.peek() {
            Some('{') => {
                self.i += 1;
                let mut members = vec![];
                let mut index = false;
                loop {
                    match self.peek() {
                        Some('}') => {
                            self.i += 1;
                            break;
                        }
                        Some('[') => {
                            // index signature [key: string]: any
                            self.i += 1;
                            while self.i < self.s.len() && self.s[self.i] != ']' {
                                self.i += 1;
                            }
                            if !self.eat(']') || !self.eat(':') {
                                return Err("index signature".into());
                            }
                            self.ty()?;
                            index = true;
                        }
                        Some(_) => {
                            let name = match self.string() {
                                Some(s) => s,
                                None => self.ident().ok_or("member name")?,
                            };
                            let opt = self.eat('?');
                            if !self.eat(':') {
                                return Err(format!("expected ':' after member {name}"));
                            }
                            let t = self.ty()?;
                            members.push((name, opt, t));
                        }
                        None => return Err("unterminated object type".into()),
                    }
                    if !(self.eat(',') || self.eat(';')) {
                        if self.peek() != Some('}') {
                            return Err("expected ',' or '}' in object type".into());
                        }
                    }
                }
                Ok(Ts::Obj(members, index))
            }
            Some('(') => {
                self.i += 1;
                let t = self.ty()?;
                if !self.eat(')') {
                    return Err("expected ')'".into());
                }
                Ok(t)
            }
            Some('"') | Some('\'') => Ok(Ts::Lit(self.string().ok_or("string literal")?)),
            Some(_) => Ok(Ts::Name(self.ident().ok_or_else(|| format!("unexpected `{}`", self.s[self.i]))?)),
            None => Err("unexpected end".into()),
        }
    }
}

#[derive(Debug)]
pub enum Decl {
    Type(String, Ts),
    Enum(String, Vec<(String, String)>),
    Const(String),
}

pub fn balanced(s: &str) -> bool {
    let mut st = vec![];
    let mut q: Option<char> = None;
    for c in s.chars() {
        if let Some(x) = q {
            if c == x {
                q = None;
            }
            continue;
        }
        match c {
            '"' | '\'' | '`' => q = Some(c),
            '{' | '(' | '[' => st.push(c),
            '}' | ')' | ']' => {
                let o = st.pop();
                if !matches!((o, c), (Some('{'), '}') | (Some('('), ')') | (Some('['), ']')) {
                    return false;
                }
            }
            _ => {}
        }
    }
    st.is_empty() && q.is_none()
}

/// declarations of `export namespace <ns> { ... }`
/// the text without TypeScript comments (string literals kept)
pub fn strip_ts_comments(src: &str) -> String {
    let cs: Vec<char> = src.chars().collect();
    let mut out = String::new();
    let mut i = 0;
    while i < cs.len() {
        let c = cs[i];
        if c == '"' || c == '\'' {
            out.push(c);
            i += 1;
            while i < cs.len() && cs[i] != c && cs[i] != '\n' {
                out.push(cs[i]);
                i += 1;
            }
            if i < cs.len() {
                out.push(cs[i]);
                i += 1;
            }
        } else if c == '/' && i + 1 < cs.len() && cs[i + 1] == '/' {
            while i < cs.len() && cs[i] != '\n' {
                i += 1;
            }
        } else if c == '/' && i + 1 < cs.len() && cs[i + 1] == '*' {
            i += 2;
            while i + 1 < cs.len() && !(cs[i] == '*' && cs[i + 1] == '/') {
                i += 1;
            }
            i = (i + 2).min(cs.len());
            out.push(' ');
        } else {
            out.push(c);
            i += 1;
        }
    }
    out
}

pub fn parse_namespace(gen: &str, ns: &str) -> Result<Vec<Decl>, String> {
    let cs: Vec<char> = gen.chars().collect();
    let head = format!("export namespace {ns}");
    let pos = gen.find(&head).ok_or("namespace not found")?;
    let mut p = P { s: &cs, i: gen[..pos].chars().count() + head.chars().count() };
    if !p.eat('{') {
        return Err("expected '{' after namespace".into());
    }
    let mut out = vec![];
    loop {
        match p.peek() {
            Some('}') => break,
            None => return Err("unterminated namespace".into()),
            Some(';') => {
                p.i += 1;
                continue;
            }
            _ => {}
        }
        let kw = p.ident().ok_or("expected declaration")?;
        match kw.as_str() {
            "import" => {
                while p.i < cs.len() && cs[p.i] != ';' {
                    p.i += 1;
                }
            }
            "export" => {
                let kind = p.ident().ok_or("expected type/enum/const")?;
                let name = p.ident().ok_or("expected name")?;
                match kind.as_str() {
                    "type" => {
                        if !p.eat('=') {
                            return Err(format!("expected '=' after type {name}"));
                        }
                        let t = p.ty()?;
                        out.push(Decl::Type(name, t));
                    }
                    "enum" => {
                        if !p.eat('{') {
                            return Err("expected '{' after enum".into());
                        }
                        let mut ms = vec![];
                        loop {
                            if p.eat('}') {
                                break;
                            }
                            let m = p.ident().ok_or("enum member")?;
                            if !p.eat('=') {
                                return Err("expected '=' in enum".into());
                            }
                            let v = p.string().ok_or("enum member value must be a string")?;
                            ms.push((m, v));
                            p.eat(',');
                        }
                        out.push(Decl::Enum(name, ms));
                    }
                    "const" => {
                        let mut depth = 0i32;
                        while p.i < cs.len() {
                            let c = cs[p.i];
                            if c == '{' || c == '[' || c == '(' {
                                depth += 1;
                            }
                            if c == '}' || c == ']' || c == ')' {
                                depth -= 1;
                            }
                            if c == ';' && depth <= 0 {
                                break;
                            }
                            p.i += 1;
                        }
                        out.push(Decl::Const(name));
                    }
                    other => return Err(format!("unknown export kind {other}")),
                }
            }
            other => return Err(format!("unexpected token {other}")),
        }
    }
    Ok(out)
}

fn ctx_kind(t: &Ty) -> &'static str {
    t.kind()
}

struct Chk<'a> {
    discs: Vec<Disc>,
    implied: bool,
    declared: Vec<String>,
    full: &'a str,
}
impl<'a> Chk<'a> {
    fn d(&mut self, key: String, detail: String) {
        let f = format!("{detail}\n{}", self.full);
        self.discs.push(Disc::new(key, f));
    }
    fn cmp(&mut self, exp: &Ty, got: &Ts, ctx: &str) {
        match exp {
            Ty::Ref | Ty::SelfRef | Ty::Named(_) => {
                let want = match exp {
                    Ty::Ref => "T".to_string(),
                    Ty::SelfRef => "A".to_string(),
                    Ty::Named(n) => n.clone(),
                    _ => unreachable!(),
                };
                if *got != Ts::Name(want.clone()) {
                    self.d(format!("ts|ctx={ctx}|feature=reference|kind=member"), format!("expected reference to {want}, got {got:?}"));
                } else if !self.declared.contains(&want) {
                    self.d(format!("ts|ctx={ctx}|kind=unresolved-name"), format!("{want} is not declared in the namespace"));
                }
            }
            Ty::Seq(b) | Ty::Set(b) => match got {
                Ts::Obj(members, index) => {
                    let comps = b.comps();
                    let want_names: Vec<&str> = comps.iter().map(|c| c.name.as_str()).collect();
                    // extension groups are flattened or nested — both keep the member names in order at some level; compare flattened
                    let got_names: Vec<&str> = members.iter().map(|m| m.0.as_str()).collect();
                    let has_groups = b.items.iter().any(|i| matches!(i, BItem::Group(..)));
                    if !has_groups {
                        if got_names != want_names {
                            let k = if got_names.len() < want_names.len() { "missing" } else if got_names.len() > want_names.len() { "extra" } else { "member" };
                            self.d(format!("ts|ctx={ctx}|decl=object|kind={k}"), format!("expected members {want_names:?}, got {got_names:?}"));
                            return;
                        }
                        for (c, m) in comps.iter().zip(members.iter()) {
                            let want_opt = c.opt != Opt::Req;
                            if m.1 != want_opt {
                                self.d(format!("ts|ctx={ctx}|comp={}|opt={:?}|kind=optional|got={}", ctx_kind(&c.ty), c.opt, m.1), format!("member {}: `?` {} expected {}", m.0, m.1, want_opt));
                            }
                            self.cmp(&c.ty, &m.2, &format!("{ctx}>member"));
                        }
                    }
                    if has_groups {
                        // JER does not see version brackets: the components of a group are members of the object itself.  The
                        // backend nests them in one member per group; that member must then at least be optional, like the group
                        let flat = got_names == want_names;
                        if !flat {
                            for m in members.iter().filter(|m| m.0.starts_with("ext_group_")) {
                                if !m.1 {
                                    self.d(format!("ts|ctx={ctx}|decl=object|kind=group-member-required"), format!("member {} (an extension addition group) has no `?`", m.0));
                                }
                            }
                        }
                    }
                    let want_index = b.has_marker() || self.implied;
                    if *index != want_index {
                        self.d(format!("ts|ctx={ctx}|kind=index|marker={}|implied={}|got={index}", b.has_marker(), self.implied), "index signature".into());
                    }
                }
                other => self.d(format!("ts|ctx={ctx}|decl=object|kind=shape"), format!("expected an object type, got {other:?}")),
            },
            Ty::Choice(b) => {
                let alts = b.comps();
                let parts: Vec<Ts> = match got {
                    Ts::Union(p) => p.clone(),
                    single => vec![single.clone()],
                };
                if parts.len() != alts.len() {
                    self.d(format!("ts|ctx={ctx}|decl=union|kind={}", if parts.len() < alts.len() { "missing" } else { "extra" }), format!("expected {} alternatives, got {}", alts.len(), parts.len()));
                    return;
                }
                for (a, p) in alts.iter().zip(parts.iter()) {
                    match p {
                        Ts::Obj(m, false) if m.len() == 1 && m[0].0 == a.name && !m[0].1 => self.cmp(&a.ty, &m[0].2, &format!("{ctx}>alt")),
                        other => self.d(format!("ts|ctx={ctx}|decl=union|kind=union"), format!("alternative {} is not a single-key object: {other:?}", a.name)),
                    }
                }
            }
            Ty::Enum => {
                let lits: Vec<String> = match got {
                    Ts::Union(p) => p.iter().filter_map(|x| if let Ts::Lit(s) = x { Some(s.clone()) } else { None }).collect(),
                    Ts::Lit(s) => vec![s.clone()],
                    _ => vec![],
                };
                if lits != ["a", "b-c"] {
                    self.d(format!("ts|ctx={ctx}|decl=enum-literals|kind=enum"), format!("expected \"a\" | \"b-c\" (JER values keep the ASN.1 spelling), got {got:?}"));
                }
            }
            Ty::SeqOf(e) | Ty::SetOf(e) => match got {
                Ts::Arr(inner) => self.cmp(e, inner, &format!("{ctx}>of")),
                other => self.d(format!("ts|ctx={ctx}|comp={}|kind=array", ctx_kind(exp)), format!("expected an array type, got {other:?}")),
            },
            _prim => {
                // primitive mapping is not part of the property; it must be a plain name / simple union, not an object with members
                if let Ts::Obj(m, _) = got {
                    if exp.kind() != "OCTETSTRING" && exp.kind() != "BITSTRING" && !m.is_empty() && !matches!(exp, Ty::Octets) {
                        // BIT STRING style objects are fine for bit strings only (not in this alphabet)
                        self.d(format!("ts|ctx={ctx}|comp={}|kind=primitive-shape", ctx_kind(exp)), format!("{got:?}"));
                    }
                }
            }
        }
    }
}

impl Prop for C18 {
    type Case = Case;
    fn id(&self) -> &'static str {
        "C18"
    }
    fn rule(&self) -> String {
        "(plus: ASN.1 comments of 4 styles x 2 texts after every item of an ENUMERATED / SEQUENCE / CHOICE and before every assignment: declarations equal those of the comment-free module, TypeScript comments being white-space) the constructed-type shapes of C02 (quick: n<=2 components over the 14-type alphabet × optionality × marker positions, long lists, container chains to depth 3, OF/primitive assignments, mutual recursion 2-cycles) and the extension layouts of C05 (r<=2, additions <=4 with groups), each with and without EXTENSIBILITY IMPLIED, compiled with the TypeScript backend; output parsed by a structural TypeScript parser (namespaces, imports, export type/enum/const, object / array / union / literal types, index signatures, delimiter and quote balance). Oracle (sem::ts): exactly one export per type assignment, named by hyphen→underscore, inside `export namespace <Module>`; object members in order with `?` exactly for OPTIONAL/DEFAULT; arrays for SEQUENCE OF / SET OF; anonymous ENUMERATED as string literals; CHOICE = union of single-key objects in order; index signature exactly for extensible SEQUENCE/SET; every referenced name declared or imported (imported types under mixed-case, all-upper-case, digit and hyphen names); output balanced, also with list values of length 0..2 next to the types. Non-trivial: compiled, parsed and compared.".into()
    }
    fn enumerate(&self, tier: Tier, seed: u64) -> Vec<Case> {
        let mut out = vec![];
        for c in c02::C02.enumerate(tier, seed) {
            if c.tagdef == "AUTOMATIC" && c.aliases.is_empty() {
                out.push(Case { ty: c.ty.clone(), implied: c.implied, others: c.others.clone(), extra: String::new() });
                if c.others.is_empty() && !c.implied && c.ty.depth() > 1 {
                    out.push(Case { ty: c.ty, implied: true, others: vec![], extra: String::new() });
                }
            }
        }
        for c in c05::C05.enumerate(Tier::Quick, seed) {
            if c.kind != "ENUMERATED" && c.tagdef == "AUTOMATIC" && !c.versions {
                out.push(Case { ty: c05::build(&c), implied: c.implied, others: vec![], extra: String::new() });
            }
        }
        // types imported from a second module, under every kind of name (mixed case, all upper case, with digits, hyphenated)
        let stub = Ty::Seq(Body::of(vec![Comp { name: "c0".into(), ty: Ty::Bool, opt: Opt::Req }]));
        for names in ["Ty-L", "ID", "T1", "UUID", "Ty-L,ID,T1,UUID", "A-B-C,X9"] {
            out.push(Case { ty: stub.clone(), implied: false, others: vec![], extra: format!("imports:{names}") });
            // ... and used only as the element of a list / inside an alternative (the name occurs as `X[]`, `X[][]`, `{ a: X }`)
            for usage in ["of", "of-of", "alt-of", "top-of"] {
                out.push(Case { ty: stub.clone(), implied: false, others: vec![], extra: format!("imports:{names}@{usage}") });
            }
        }
        // value assignments next to the types: the output stays balanced
        out.push(Case { ty: stub.clone(), implied: false, others: vec![], extra: "values".into() });
        // ASN.1 comments after any item of an ENUMERATED / SEQUENCE / CHOICE / before an assignment: the declarations
        // are those of the comment-free module (comments become TypeScript comments, which must hide nothing)
        for kind in ["enum", "seq", "choice", "before"] {
            for pos in 0..4usize {
                for style in ["line", "inline", "block", "block-2-lines"] {
                    for text in ["plain", "brace-quote"] {
                        out.push(Case { ty: stub.clone(), implied: false, others: vec![], extra: format!("comments:{kind}:{pos}:{style}:{text}") });
                    }
                }
            }
        }
        out
    }
    fn check(&self, c: &Case) -> CaseResult {
        if let Some(names) = c.extra.strip_prefix("imports:") {
            let (names, usage) = names.split_once('@').unwrap_or((names, "direct"));
            let names: Vec<&str> = names.split(',').collect();
            let lib = format!("Lib DEFINITIONS AUTOMATIC TAGS ::= BEGIN\n{}\nEND\n", names.iter().map(|n| format!("{n} ::= INTEGER (0..7)")).collect::<Vec<_>>().join("\n"));
            let used = |n: &str| match usage {
                "of" => format!("SEQUENCE OF {n}"),
                "of-of" => format!("SET OF SEQUENCE OF {n}"),
                "alt-of" => format!("CHOICE {{ x NULL, y SEQUENCE OF {n} }}"),
                _ => n.to_string(),
            };
            let body = if usage == "top-of" {
                names.iter().enumerate().map(|(i, n)| format!("A{i} ::= SEQUENCE OF {n}")).collect::<Vec<_>>().join("\n")
            } else {
                format!("A ::= SEQUENCE {{ {} }}", names.iter().enumerate().map(|(i, n)| format!("f{i} {}", used(n))).collect::<Vec<_>>().join(", "))
            };
            let m = format!("M DEFINITIONS AUTOMATIC TAGS ::= BEGIN\nIMPORTS {} FROM Lib;\n{body}\nEND\n", names.join(", "));
            let gen = match compile_ts(&[m.clone(), lib.clone()]) {
                Outcome::Ok { generated, warnings } if warnings.is_empty() => generated,
                other => return CaseResult { discs: vec![Disc::new(format!("ts|imports|rejected:{}", other.class()), format!("{}\n{m}\n{lib}", other.brief()))], nontrivial: false, outcome: other.class().into(), skipped: None },
            };
            let mut discs = vec![];
            // namespace M: every imported type it mentions is imported under its mangled name
            let start = gen.find("export namespace M").unwrap_or(0);
            let ns_m = &gen[start..];
            let ns_m = &ns_m[..ns_m[1..].find("export namespace ").map_or(ns_m.len(), |i| i + 1)];
            for n in &names {
                let id = n.replace('-', "_");
                let imported = strip_ws_keep_strings(ns_m).contains(&format!("import{id}=Lib.{id};"));
                if !imported {
                    let class = if n.chars().all(|ch| ch.is_ascii_uppercase() || ch == '-') { "all-upper-case" } else if n.chars().any(|ch| ch.is_ascii_digit()) { "with-digit" } else { "mixed-case" };
                    discs.push(Disc::new(format!("ts|imports|name={class}|use={usage}|kind=not-imported"), format!("namespace M mentions {id} without `import {id} = Lib.{id};`\n{m}\n{lib}\n--- generated ---\n{gen}")));
                }
            }
            return CaseResult { discs, nontrivial: true, outcome: "imports".into(), skipped: None };
        }
        if let Some(spec) = c.extra.strip_prefix("comments:") {
            let f: Vec<&str> = spec.split(':').collect();
            let (kind, pos, style, text) = (f[0], f[1].parse::<usize>().unwrap_or(0), f[2], f[3]);
            let words = if text == "plain" { "stop here" } else { "don't } stop \" here {" };
            let comment = match style {
                "line" => format!(" -- {words}\n"),
                "inline" => format!(" -- {words} -- "),
                "block" => format!(" /* {words} */ "),
                _ => format!(" /* {words}\n   and go on */ "),
            };
            let items = |names: [&str; 4], with: bool| -> String {
                names.iter().enumerate().map(|(i, n)| format!("{n}{}{}", if i < 3 { "," } else { "" }, if with && i == pos { comment.as_str() } else { " " })).collect::<Vec<_>>().join("")
            };
            let body = |with: bool| -> String {
                let e = items(["red", "red-amber", "green", "amber"], with && kind == "enum");
                let q = items(["a INTEGER", "b BOOLEAN OPTIONAL", "c Colour", "d NULL"], with && kind == "seq");
                let h = items(["x NULL", "y INTEGER", "z Colour", "w BOOLEAN"], with && kind == "choice");
                let b = |i: usize| if with && kind == "before" && i == pos { comment.trim_start().to_string() + "\n" } else { String::new() };
                format!("{}Colour ::= ENUMERATED {{ {e} }}\n{}Sq ::= SEQUENCE {{ {q} }}\n{}Ch ::= CHOICE {{ {h} }}\n{}Lst ::= SEQUENCE OF Colour\n", b(0), b(1), b(2), b(3))
            };
            let with = module("M", "AUTOMATIC", false, &body(true));
            let without = module("M", "AUTOMATIC", false, &body(false));
            let key = |k: &str| format!("ts|comments|at={kind}|pos={}|style={style}|text={text}|kind={k}", if pos == 3 { "last" } else if pos == 0 { "first" } else { "inner" });
            let (g1, g0) = match (compile_ts(&[with.clone()]), compile_ts(&[without.clone()])) {
                (Outcome::Ok { generated: g1, .. }, Outcome::Ok { generated: g0, .. }) => (g1, g0),
                (a, b) => return CaseResult { discs: vec![Disc::new(key(&format!("rejected:{}:{}", a.class(), b.class())), format!("{}\n{}\n{with}", a.brief(), b.brief()))], nontrivial: false, outcome: "rejected".into(), skipped: None },
            };
            let mut discs = vec![];
            if !balanced(&strip_ts_comments(&g1)) {
                discs.push(Disc::new(key("unbalanced"), format!("delimiters are not balanced outside comments\n{with}\n--- generated ---\n{g1}")));
            } else {
                match (parse_namespace(&g1, "M"), parse_namespace(&g0, "M")) {
                    (Ok(d1), Ok(d0)) => {
                        if format!("{d1:?}") != format!("{d0:?}") {
                            discs.push(Disc::new(key("declarations-differ"), format!("the declarations differ from those of the module without the comment\nwith: {d1:?}\nwithout: {d0:?}\n{with}\n--- generated ---\n{g1}")));
                        }
                    }
                    (Err(e), _) => discs.push(Disc::new(key("unparsable"), format!("{e}\n{with}\n--- generated ---\n{g1}"))),
                    (_, Err(e)) => discs.push(Disc::new(key("base-unparsable"), format!("{e}\n{without}\n--- generated ---\n{g0}"))),
                }
            }
            return CaseResult { discs, nontrivial: true, outcome: "comments".into(), skipped: None };
        }
        if c.extra == "values" {
            let m = "M DEFINITIONS AUTOMATIC TAGS ::= BEGIN\nLst ::= SEQUENCE OF INTEGER\nnone Lst ::= { }\none Lst ::= { 1 }\ntwo Lst ::= { 1, 2 }\nSq ::= SEQUENCE { a INTEGER, l Lst }\nsq Sq ::= { a 1, l { } }\nCh ::= CHOICE { l Lst, n NULL }\nch Ch ::= l:{ }\nEND\n".to_string();
            let gen = match compile_ts(&[m.clone()]) {
                Outcome::Ok { generated, .. } => generated,
                other => return CaseResult { discs: vec![Disc::new(format!("ts|values|rejected:{}", other.class()), format!("{}\n{m}", other.brief()))], nontrivial: false, outcome: other.class().into(), skipped: None },
            };
            let mut discs = vec![];
            if !balanced(&gen) {
                discs.push(Disc::new("ts|values|kind=unbalanced".to_string(), format!("delimiters are not balanced\n{m}\n--- generated ---\n{gen}")));
            }
            return CaseResult { discs, nontrivial: true, outcome: "values".into(), skipped: None };
        }
        let src = if c.others.is_empty() {
            module_text(&c.ty, "AUTOMATIC", c.implied)
        } else {
            let mut body = format!("A ::= {}\n", ty_text(&c.ty, "A"));
            for (n, t) in &c.others {
                body += &format!("{n} ::= {}\n", ty_text(t, n));
            }
            module("M", "AUTOMATIC", c.implied, &body)
        };
        let o = compile_ts(&[src.clone()]);
        let gen = match &o {
            Outcome::Ok { generated, warnings } if warnings.is_empty() => generated.clone(),
            Outcome::Panic { message, location } => return CaseResult { discs: vec![Disc::new(format!("panic|{}", location.rsplit("/src/").next().unwrap_or("")), format!("{message}\n{src}"))], nontrivial: false, outcome: "panic".into(), skipped: None },
            other => return CaseResult { discs: vec![Disc::new(format!("ts|rejected|top={}|{}", c.ty.kind(), other.class()), format!("{}\n{src}", other.brief()))], nontrivial: false, outcome: other.class().into(), skipped: None },
        };
        let full = format!("--- source ---\n{src}\n--- generated ---\n{gen}");
        let mut k = Chk { discs: vec![], implied: c.implied, declared: vec![], full: &full };
        if !balanced(&gen) {
            k.d("ts|kind=unbalanced".into(), "delimiters or quotes are not balanced".into());
            return CaseResult { discs: k.discs, nontrivial: true, outcome: "unbalanced".into(), skipped: None };
        }
        let decls = match parse_namespace(&gen, "M") {
            Ok(d) => d,
            Err(e) => {
                k.d(format!("ts|kind=unparsable|top={}", c.ty.kind()), e);
                return CaseResult { discs: k.discs, nontrivial: true, outcome: "unparsable".into(), skipped: None };
            }
        };
        // a neighbour module with the opposite EXTENSIBILITY setting, generated before / after this one, must not matter
        // (one backend object generates all modules): namespace M as compiled alone == namespace M of the joint compilation
        if c.ty.depth() <= 2 && c.others.len() <= 1 {
            for nb_name in ["A-Nb", "Z-Nb"] {
                let nb = format!("{nb_name} DEFINITIONS AUTOMATIC TAGS{} ::= BEGIN\nNb ::= SEQUENCE {{ n BOOLEAN }}\nNc ::= CHOICE {{ p NULL, q SET {{ r BOOLEAN }} }}\nEND\n", if c.implied { "" } else { " EXTENSIBILITY IMPLIED" });
                if let Outcome::Ok { generated, .. } = compile_ts(&[src.clone(), nb.clone()]) {
                    let same = match parse_namespace(&generated, "M") {
                        Ok(d2) => format!("{d2:?}") == format!("{decls:?}"),
                        Err(_) => false,
                    };
                    if !same {
                        k.d(format!("ts|neighbour|self-implied={}|neighbour={}", c.implied, if nb_name.starts_with('A') { "before" } else { "after" }), format!("namespace M differs when compiled next to\n{nb}\n--- joint ---\n{generated}"));
                    }
                }
            }
        }
        let names: Vec<String> = decls.iter().map(|d| match d { Decl::Type(n, _) | Decl::Enum(n, _) | Decl::Const(n) => n.clone() }).collect();
        k.declared = names.clone();
        let mut expected: Vec<(String, &Ty)> = vec![("A".to_string(), &c.ty)];
        for (n, t) in &c.others {
            // TypeScript names keep the ASN.1 spelling with hyphens replaced by underscores
            expected.push((n.replace('-', "_"), t));
        }
        let helper = Ty::Seq(Body::of(vec![Comp { name: "x".into(), ty: Ty::Bool, opt: Opt::Req }]));
        let uses_ref = c.ty.uses_ref();
        if uses_ref {
            expected.push(("T".to_string(), &helper));
        }
        if names.len() != expected.len() {
            k.d(format!("ts|kind={}|n-decls", if names.len() < expected.len() { "missing" } else { "duplicate-or-extra" }), format!("declarations {names:?}, expected {:?}", expected.iter().map(|e| e.0.clone()).collect::<Vec<_>>()));
        }
        for (n, t) in expected {
            let found: Vec<&Decl> = decls.iter().filter(|d| matches!(d, Decl::Type(x, _) | Decl::Enum(x, _) if *x == n)).collect();
            if found.len() != 1 {
                k.d(format!("ts|decl={}|kind={}", t.kind(), if found.is_empty() { "missing" } else { "duplicate" }), format!("{} declarations named {n}", found.len()));
                continue;
            }
            match (found[0], t) {
                (Decl::Enum(_, ms), Ty::Enum) => {
                    let got: Vec<(String, String)> = ms.clone();
                    if got != vec![("a".to_string(), "a".to_string()), ("b_c".to_string(), "b-c".to_string())] {
                        k.d("ts|decl=enum|kind=enum".into(), format!("{got:?}"));
                    }
                }
                (Decl::Type(_, ts), t) => k.cmp(t, ts, "top"),
                (d, t) => k.d(format!("ts|decl={}|kind=decl-kind", t.kind()), format!("{d:?}")),
            }
        }
        CaseResult { discs: k.discs, nontrivial: true, outcome: format!("ok:{}", c.ty.kind()), skipped: None }
    }
}
