//! C04 — emitted value and size bounds equal the PER-visible effective constraint.
use crate::common::*;
use crate::driver::*;
use crate::proj::*;
use serde::{Deserialize, Serialize};

pub struct C04;

#[derive(Clone, Serialize, Deserialize, PartialEq, Debug)]
pub enum Opnd {
    V(i64),
    R(Option<i64>, Option<i64>),
}

#[derive(Clone, Serialize, Deserialize, PartialEq, Debug)]
pub struct Expr {
    pub all_except: bool,
    pub operands: Vec<Opnd>,
    /// 'U' union, 'I' intersection, 'E' except
    pub ops: Vec<char>,
    pub ext: bool,
}

#[derive(Clone, Serialize, Deserialize)]
pub struct Case {
    /// 1 or 2 serial constraints
    pub cons: Vec<Expr>,
    /// INTEGER | BITSTRING | OCTETSTRING | IA5 | SEQOF | SETOF
    pub ty: String,
    /// assign | component | parent | valref | named
    pub ctx: String,
    /// how finite range ends are written: "" closed, "lo" / "hi" / "both": the equivalent open notation `(l-1)<..`, `..<(h+1)`
    #[serde(default)]
    pub open: String,
    /// for sized types: extension marker inside SIZE(...) (true) or after it (false)
    #[serde(default)]
    pub ext_inner: bool,
    /// operator spelling: false = "|" "^", true = UNION INTERSECTION
    #[serde(default)]
    pub words: bool,
    /// sized types: every operand carries its own SIZE — `(SIZE (1..3) | SIZE (7))` instead of `(SIZE (1..3 | 7))`
    #[serde(default)]
    pub size_each: bool,
}

// ---------------------------------------------------------------- reference semantics
// Universe: points -5..=11 plus two sentinels standing for "everything below" / "everything above".
const LOW: i64 = -5;
const HIGH: i64 = 11;
const NPTS: usize = (HIGH - LOW + 1) as usize + 2;
type Bits = u32; // bit 0 = -inf sentinel, bit i+1 = LOW+i, last = +inf sentinel

fn bit_of(v: i64) -> usize {
    (v - LOW) as usize + 1
}
fn range_bits(lo: Option<i64>, hi: Option<i64>) -> Bits {
    let mut b: Bits = 0;
    if lo.is_none() {
        b |= 1;
    }
    if hi.is_none() {
        b |= 1 << (NPTS - 1);
    }
    // emitted bounds outside the universe (possible only when the compiler resolves a name to a foreign number) fall on
    // the sentinels
    let mut l = lo.unwrap_or(LOW);
    let mut h = hi.unwrap_or(HIGH);
    if l < LOW {
        b |= 1;
        l = LOW;
    }
    if h > HIGH {
        b |= 1 << (NPTS - 1);
        h = HIGH;
    }
    let mut v = l;
    while v <= h {
        b |= 1 << bit_of(v);
        v += 1;
    }
    b
}
const ALL: Bits = (1u32 << NPTS) - 1;

#[derive(Clone, Copy, PartialEq, Debug)]
pub enum Iv {
    Empty,
    R(Option<i64>, Option<i64>),
}
fn iv_inter(a: Iv, b: Iv) -> Iv {
    match (a, b) {
        (Iv::R(al, ah), Iv::R(bl, bh)) => {
            let lo = match (al, bl) {
                (None, x) | (x, None) => x,
                (Some(x), Some(y)) => Some(x.max(y)),
            };
            let hi = match (ah, bh) {
                (None, x) | (x, None) => x,
                (Some(x), Some(y)) => Some(x.min(y)),
            };
            if let (Some(l), Some(h)) = (lo, hi) {
                if l > h {
                    return Iv::Empty;
                }
            }
            Iv::R(lo, hi)
        }
        _ => Iv::Empty,
    }
}
fn iv_hull(a: Iv, b: Iv) -> Iv {
    match (a, b) {
        (Iv::Empty, x) | (x, Iv::Empty) => x,
        (Iv::R(al, ah), Iv::R(bl, bh)) => Iv::R(
            match (al, bl) {
                (Some(x), Some(y)) => Some(x.min(y)),
                _ => None,
            },
            match (ah, bh) {
                (Some(x), Some(y)) => Some(x.max(y)),
                _ => None,
            },
        ),
    }
}
fn opnd_iv(o: &Opnd, unsigned: bool) -> Iv {
    match o {
        Opnd::V(v) => Iv::R(Some(*v), Some(*v)),
        Opnd::R(l, h) => Iv::R(if unsigned && l.is_none() { Some(0) } else { *l }, *h),
    }
}
fn opnd_bits(o: &Opnd, unsigned: bool) -> Bits {
    match opnd_iv(o, unsigned) {
        Iv::R(l, h) => range_bits(l, h),
        Iv::Empty => 0,
    }
}

/// tree shapes over operand indices
#[derive(Clone, Debug)]
enum T {
    L(usize),
    N(char, Box<T>, Box<T>),
}

/// X.680 §50: EXCEPT binds to the preceding Elements, then intersections, then unions (left-assoc.)
fn correct_tree(ops: &[char]) -> Option<T> {
    let n = ops.len() + 1;
    // step 1: units (a) or (a E b)
    let mut units: Vec<T> = vec![];
    let mut unit_ops: Vec<char> = vec![];
    let mut i = 0;
    while i < n {
        if i < ops.len() && ops[i] == 'E' {
            // a E b ; b must not be followed by another E (not valid notation without parentheses)
            if i + 1 < ops.len() && ops[i + 1] == 'E' {
                return None;
            }
            units.push(T::N('E', Box::new(T::L(i)), Box::new(T::L(i + 1))));
            if i + 1 < ops.len() {
                unit_ops.push(ops[i + 1]);
            }
            i += 2;
        } else {
            units.push(T::L(i));
            if i < ops.len() {
                unit_ops.push(ops[i]);
            }
            i += 1;
        }
    }
    // step 2: intersections
    let mut chains: Vec<T> = vec![];
    let mut cur = units[0].clone();
    for (k, op) in unit_ops.iter().enumerate() {
        if *op == 'I' {
            cur = T::N('I', Box::new(cur), Box::new(units[k + 1].clone()));
        } else {
            chains.push(cur);
            cur = units[k + 1].clone();
        }
    }
    chains.push(cur);
    // step 3: unions
    let mut t = chains[0].clone();
    for c in chains.iter().skip(1) {
        t = T::N('U', Box::new(t), Box::new(c.clone()));
    }
    Some(t)
}
/// what the pinned parser builds: a op1 (b op2 (c ...))
fn right_tree(ops: &[char]) -> T {
    fn go(i: usize, ops: &[char]) -> T {
        if i == ops.len() {
            T::L(i)
        } else {
            T::N(ops[i], Box::new(T::L(i)), Box::new(go(i + 1, ops)))
        }
    }
    go(0, ops)
}
fn exact(t: &T, o: &[Opnd], unsigned: bool) -> Bits {
    match t {
        T::L(i) => opnd_bits(&o[*i], unsigned),
        T::N('U', a, b) => exact(a, o, unsigned) | exact(b, o, unsigned),
        T::N('I', a, b) => exact(a, o, unsigned) & exact(b, o, unsigned),
        T::N(_, a, b) => exact(a, o, unsigned) & !exact(b, o, unsigned),
    }
}
/// PER-visible fold (X.691 §10.3.21 as quoted by the property): hull for unions, ∩ for intersections, EXCEPT ignored.
/// Err(()) = an intersection is empty (not well-formed / compiler may reject)
fn effective(t: &T, o: &[Opnd], unsigned: bool) -> Result<Iv, ()> {
    match t {
        T::L(i) => Ok(opnd_iv(&o[*i], unsigned)),
        T::N('U', a, b) => Ok(iv_hull(effective(a, o, unsigned)?, effective(b, o, unsigned)?)),
        T::N('I', a, b) => match iv_inter(effective(a, o, unsigned)?, effective(b, o, unsigned)?) {
            Iv::Empty => Err(()),
            x => Ok(x),
        },
        T::N(_, a, _) => effective(a, o, unsigned),
    }
}
/// like `effective`, but an empty intersection inside an ignored EXCEPT part is an error too
/// (the pinned folding code evaluates the operand before discarding it)
fn effective_strict(t: &T, o: &[Opnd], unsigned: bool) -> Result<Iv, ()> {
    match t {
        T::L(i) => Ok(opnd_iv(&o[*i], unsigned)),
        T::N('U', a, b) => Ok(iv_hull(effective_strict(a, o, unsigned)?, effective_strict(b, o, unsigned)?)),
        T::N('I', a, b) => match iv_inter(effective_strict(a, o, unsigned)?, effective_strict(b, o, unsigned)?) {
            Iv::Empty => Err(()),
            x => Ok(x),
        },
        T::N(_, a, b) => {
            let _ = effective_strict(b, o, unsigned)?;
            effective_strict(a, o, unsigned)
        }
    }
}

fn has_empty_exact_subterm(t: &T, o: &[Opnd], unsigned: bool) -> bool {
    match t {
        T::L(_) => false,
        T::N(_, a, b) => exact(t, o, unsigned) == 0 || has_empty_exact_subterm(a, o, unsigned) || has_empty_exact_subterm(b, o, unsigned),
    }
}

#[derive(Debug, Clone, PartialEq)]
pub struct Bound {
    pub lo: Option<i64>,
    pub hi: Option<i64>,
    pub ext: bool,
}

/// parse the `value("…")` / `size("…")` attribute payload: "\"2..=9\",extensible"
pub fn parse_bound(v: &str) -> Option<Bound> {
    let (lit, ext) = match v.split_once(',') {
        Some((l, e)) => (l, e.trim() == "extensible"),
        None => (v, false),
    };
    let s = unquote(lit.trim())?;
    let (lo, hi) = if let Some((a, b)) = s.split_once("..") {
        // Rust range syntax: `a..=b` is inclusive, `a..b` excludes b, `a..` is open
        let hi = if b.is_empty() {
            None
        } else if let Some(inc) = b.strip_prefix('=') {
            Some(inc.parse::<i64>().ok()?)
        } else {
            Some(b.parse::<i64>().ok()? - 1)
        };
        (if a.is_empty() { None } else { Some(a.parse().ok()?) }, hi)
    } else {
        let v: i64 = s.parse().ok()?;
        (Some(v), Some(v))
    };
    Some(Bound { lo, hi, ext })
}

// ---------------------------------------------------------------- printing
fn name_of(v: i64, prefix: &str) -> String {
    if v < 0 {
        format!("{prefix}m{}", -v)
    } else {
        format!("{prefix}{v}")
    }
}
fn end_text(v: Option<i64>, lower: bool, ctx: &str) -> String {
    match v {
        None => if lower { "MIN".into() } else { "MAX".into() },
        Some(v) => match ctx {
            "valref" => name_of(v, "v"),
            "named" | "namedself" => name_of(v, "n"),
            // one end given by a reference, the other by a literal
            "valref-lo" if lower => name_of(v, "v"),
            "valref-hi" if !lower => name_of(v, "v"),
            "named-lo" if lower => name_of(v, "n"),
            "named-hi" if !lower => name_of(v, "n"),
            _ => v.to_string(),
        },
    }
}
fn expr_text(e: &Expr, ctx: &str, words: bool) -> String {
    expr_text_open(e, ctx, words, "")
}
fn expr_text_open(e: &Expr, ctx: &str, words: bool, open: &str) -> String {
    expr_text_wrapped(e, ctx, words, open, false)
}
fn expr_text_wrapped(e: &Expr, ctx: &str, words: bool, open: &str, size_each: bool) -> String {
    let opnd = |o: &Opnd| match o {
        Opnd::V(v) => end_text(Some(*v), true, ctx),
        // the same set of integers written with excluded endpoints
        Opnd::R(Some(l), Some(h)) if !open.is_empty() => {
            let lo = if open == "lo" || open == "both" { format!("{}<", l - 1) } else { l.to_string() };
            let hi = if open == "hi" || open == "both" { format!("<{}", h + 1) } else { h.to_string() };
            format!("{lo}..{hi}")
        }
        Opnd::R(l, h) => format!("{}..{}", end_text(*l, true, ctx), end_text(*h, false, ctx)),
    };
    let mut s = String::new();
    if e.all_except {
        s += "ALL EXCEPT ";
    }
    for (i, o) in e.operands.iter().enumerate() {
        if i > 0 {
            s += match (e.ops[i - 1], words) {
                ('U', false) => " | ",
                ('U', true) => " UNION ",
                ('I', false) => " ^ ",
                ('I', true) => " INTERSECTION ",
                _ => " EXCEPT ",
            };
        }
        let t = if size_each { format!("SIZE ({})", opnd(o)) } else { opnd(o) };
        // parentheses around an element are neutral (X.680 50.1: Elements ::= ... | "(" ElementSetSpec ")")
        let wrap = match open {
            "paren-each" => true,
            "paren-last" => i + 1 == e.operands.len(),
            "paren-first" => i == 0,
            _ => false,
        };
        s += &if wrap { format!("({t})") } else { t };
    }
    if open == "paren-all" {
        s = format!("({s})");
    }
    s
}
fn finite_points(c: &Case) -> Vec<i64> {
    let mut v = vec![];
    for e in &c.cons {
        for o in &e.operands {
            match o {
                Opnd::V(x) => v.push(*x),
                Opnd::R(a, b) => {
                    v.extend(a.iter());
                    v.extend(b.iter());
                }
            }
        }
    }
    v.sort();
    v.dedup();
    v
}
fn sized(ty: &str) -> bool {
    ty != "INTEGER"
}
pub fn text(c: &Case) -> String {
    let sz = sized(&c.ty);
    let one = |e: &Expr| -> String {
        let inner = expr_text_open(e, &c.ctx, c.words, &c.open);
        if sz && c.size_each {
            let inner = expr_text_wrapped(e, &c.ctx, c.words, &c.open, true);
            if e.ext { format!("({inner}, ...)") } else { format!("({inner})") }
        } else if sz {
            if e.ext && c.ext_inner {
                format!("(SIZE ({inner}, ...))")
            } else if e.ext {
                format!("(SIZE ({inner}), ...)")
            } else {
                format!("(SIZE ({inner}))")
            }
        } else if e.ext {
            format!("({inner}, ...)")
        } else {
            format!("({inner})")
        }
    };
    let first = one(&c.cons[0]);
    let all: String = c.cons.iter().map(one).collect::<Vec<_>>().join("");
    let base = |k: &str| match c.ty.as_str() {
        "INTEGER" => format!("INTEGER {k}"),
        "BITSTRING" => format!("BIT STRING {k}"),
        "OCTETSTRING" => format!("OCTET STRING {k}"),
        "IA5" => format!("IA5String {k}"),
        "SEQOF" => format!("SEQUENCE {k} OF BOOLEAN"),
        "SETOF" => format!("SET {k} OF BOOLEAN"),
        _ => unreachable!(),
    };
    let mut body = String::new();
    match c.ctx.as_str() {
        "assign" => body += &format!("A ::= {}", base(&all)),
        "component" => body += &format!("S ::= SEQUENCE {{ f {} }}", base(&all)),
        // the expression constrains a component whose type is a reference to the unconstrained type
        "reference-component" => body += &format!("P ::= {}\nS ::= SEQUENCE {{ f P {} }}", base(""), all),
        // the expression constrains the element type of a SEQUENCE OF, which is a reference to the unconstrained type
        "reference-element" => body += &format!("P ::= {}\nA ::= SEQUENCE OF P {}", base(""), all),
        // the expression constrains a type P, which is then used as a contained subtype
        "contained" => body += &format!("P ::= {}\nA ::= {}", base(&all), base("(P)")),
        // the contained subtype is itself a constrained reference
        "contained-via-reference" => body += &format!("Q ::= {}\nP ::= Q {}\nA ::= {}", base(""), all, base("(P)")),
        // the contained subtype as operand of a set operation: first constraint on P, second as the other operand
        "contained-union" => body += &format!("P ::= {}\nA ::= {}", base(&first), base(&format!("(P | {})", expr_text(&c.cons[1], "assign", false)))),
        "contained-union-rev" => body += &format!("P ::= {}\nA ::= {}", base(&first), base(&format!("({} | P)", expr_text(&c.cons[1], "assign", false)))),
        "contained-inter" => body += &format!("P ::= {}\nA ::= {}", base(&first), base(&format!("(P ^ {})", expr_text(&c.cons[1], "assign", false)))),
        // the contained subtype is a type without any constraint (plain, or with named numbers only): a union with it, or
        // it EXCEPT something, is unconstrained; an intersection with it is the other operand
        x if x.starts_with("free") => {
            let parent = if x.contains("-nn-") { "P ::= INTEGER { one(1), two(2) }" } else { "P ::= INTEGER" };
            let other = expr_text(&c.cons[0], "assign", false);
            let e = match x.rsplit('-').next().unwrap_or("") {
                "union" => format!("(P | {other})"),
                "unionrev" => format!("({other} | P)"),
                "inter" => format!("(P ^ {other})"),
                "interrev" => format!("({other} ^ P)"),
                _ => format!("(P EXCEPT {other})"),
            };
            body += &format!("{parent}\nA ::= {}", base(&e));
        }
        // extension marker after the contained subtype
        "contained-ext" => body += &format!("P ::= {}\nA ::= {}", base(&all), base("(P, ...)")),
        "contained-includes" => body += &format!("P ::= {}\nA ::= {}", base(&all), base("(INCLUDES P)")),
        "contained-component" => body += &format!("P ::= {}\nS ::= SEQUENCE {{ f {} }}", base(&all), base("(P)")),
        "parent" => {
            // first constraint on the parent, second on the reference
            body += &format!("P ::= {}\nA ::= P {}", base(&first), one(&c.cons[1]));
        }
        "valref" | "valref-lo" | "valref-hi" => {
            for v in finite_points(c) {
                body += &format!("{} INTEGER ::= {}\n", name_of(v, "v"), v);
            }
            body += &format!("A ::= {}", base(&all));
        }
        "named" | "named-lo" | "named-hi" => {
            let nn: Vec<String> = finite_points(c).iter().map(|v| format!("{}({})", name_of(*v, "n"), v)).collect();
            // other types of the module define the same names with other numbers (sorting before and after D)
            let decoy = |off: i64| finite_points(c).iter().map(|v| format!("{}({})", name_of(*v, "n"), v + off)).collect::<Vec<_>>().join(", ");
            body += &format!("Aa0 ::= INTEGER {{ {} }}\nZz0 ::= INTEGER {{ {} }}\n", decoy(100), decoy(-100));
            body += &format!("D ::= INTEGER {{ {} }}\nA ::= D {}", nn.join(", "), all);
        }
        "namedself" => {
            let nn: Vec<String> = finite_points(c).iter().map(|v| format!("{}({})", name_of(*v, "n"), v)).collect();
            body += &format!("A ::= INTEGER {{ {} }} {}", nn.join(", "), all);
        }
        _ => unreachable!(),
    }
    module("M", "AUTOMATIC", false, &body)
}

fn shape(c: &Case) -> String {
    c.cons
        .iter()
        .map(|e| {
            let mut s = String::new();
            if e.all_except {
                s += "ALL-E-";
            }
            for (i, o) in e.operands.iter().enumerate() {
                if i > 0 {
                    s.push(e.ops[i - 1]);
                }
                s.push(match o {
                    Opnd::V(_) => 's',
                    Opnd::R(None, None) => 'f',
                    Opnd::R(None, _) => 'l',
                    Opnd::R(_, None) => 'h',
                    Opnd::R(_, _) => 'r',
                });
            }
            if e.ext {
                s += "x";
            }
            s
        })
        .collect::<Vec<_>>()
        .join(";")
}

struct Sem {
    exact: Bits,
    eff: Result<Iv, ()>,
    eff_right: Result<Iv, ()>,
    eff_right_strict: Result<Iv, ()>,
    degenerate: bool,
}
fn sem_expr(e: &Expr, unsigned: bool) -> Option<Sem> {
    if e.all_except {
        let x = ALL & !opnd_bits(&e.operands[0], unsigned);
        let x = if unsigned { x & range_bits(Some(0), None) } else { x };
        let full = Iv::R(if unsigned { Some(0) } else { None }, None);
        return Some(Sem { exact: x, eff: Ok(full), eff_right: Ok(full), eff_right_strict: Ok(full), degenerate: false });
    }
    let ct = correct_tree(&e.ops)?;
    let rt = right_tree(&e.ops);
    Some(Sem { exact: exact(&ct, &e.operands, unsigned), eff: effective(&ct, &e.operands, unsigned), eff_right: effective(&rt, &e.operands, unsigned), eff_right_strict: effective_strict(&rt, &e.operands, unsigned), degenerate: has_empty_exact_subterm(&ct, &e.operands, unsigned) })
}

fn iv_to_bound(iv: Iv, unsigned: bool) -> (Option<i64>, Option<i64>) {
    match iv {
        Iv::R(l, h) => (if unsigned && l.is_none() { Some(0) } else { l }, h),
        Iv::Empty => (Some(1), Some(0)),
    }
}

fn all_operands() -> Vec<Opnd> {
    let pts = [-3i64, 0, 2, 5, 9];
    let mut v: Vec<Opnd> = pts.iter().map(|p| Opnd::V(*p)).collect();
    let mut los: Vec<Option<i64>> = vec![None];
    los.extend(pts.iter().map(|p| Some(*p)));
    let mut his: Vec<Option<i64>> = pts.iter().map(|p| Some(*p)).collect();
    his.push(None);
    for l in &los {
        for h in &his {
            if let (Some(a), Some(b)) = (l, h) {
                if a > b {
                    continue;
                }
            }
            if l.is_none() && h.is_none() {
                continue; // MIN..MAX handled as its own operand below
            }
            v.push(Opnd::R(*l, *h));
        }
    }
    v.push(Opnd::R(None, None));
    v
}
fn nonneg(o: &Opnd) -> bool {
    match o {
        Opnd::V(v) => *v >= 0,
        Opnd::R(l, h) => l.map_or(true, |x| x >= 0) && h.map_or(true, |x| x >= 0),
    }
}

impl Prop for C04 {
    type Case = Case;
    fn id(&self) -> &'static str {
        "C04"
    }
    fn rule(&self) -> String {
        "(plus: a contained subtype without constraints — plain INTEGER or INTEGER with named numbers — as operand of | ^ EXCEPT on either side) subtype expressions of 1..3 operands (single value or range with endpoints from {MIN,-3,0,2,5,9,MAX}; 32 operands) joined by | ^ EXCEPT without parentheses, ALL EXCEPT x, optional extension marker, 1..2 serial constraints, finite ranges also written with excluded endpoints (`a<..b`, `a..<b`, `a<..<b`), on INTEGER / BIT STRING / OCTET STRING / IA5String / SEQUENCE OF / SET OF (SIZE wrapping, non-negative operands), as type assignment, component, through a constrained parent reference, as the constraint of a SEQUENCE OF element or of a component whose type is a reference to the unconstrained type (INTEGER, OCTET STRING, SEQUENCE OF), as a contained subtype `(P)` / `(INCLUDES P)` alone and as an operand of a union / intersection with a second expression of a type carrying the expression (INTEGER and SIZE-constrained OCTET STRING), with value references and with named numbers as endpoints, both operator spellings. Oracle: exact set semantics on a 19-point universe (bit sets) for soundness, interval fold (hull/∩/EXCEPT ignored) under X.680 precedence for equality, marker⇔extensible. A case is non-trivial when it compiled cleanly and a bound (or its absence) was read from the item and compared.".into()
    }
    fn selftest(&self) -> Result<u64, String> {
        // interval algebra vs brute force over the universe
        let ops = all_operands();
        let mut n = 0u64;
        for a in &ops {
            for b in &ops {
                n += 1;
                let (ia, ib) = (opnd_iv(a, false), opnd_iv(b, false));
                let inter = iv_inter(ia, ib);
                let bi = opnd_bits(a, false) & opnd_bits(b, false);
                let want = match inter {
                    Iv::Empty => 0,
                    Iv::R(l, h) => range_bits(l, h),
                };
                if bi != want {
                    return Err(format!("iv_inter({a:?},{b:?})"));
                }
                // hull ⊇ union and is the smallest interval: endpoints are min/max
                if let Iv::R(l, h) = iv_hull(ia, ib) {
                    let u = opnd_bits(a, false) | opnd_bits(b, false);
                    if range_bits(l, h) & u != u {
                        return Err(format!("iv_hull({a:?},{b:?}) not a superset"));
                    }
                }
            }
        }
        // precedence: a ^ b | c == (a^b)|c ; a | b ^ c == a|(b^c) ; a E b | c == (a\b)|c
        let o = [Opnd::R(Some(0), Some(9)), Opnd::R(Some(5), None), Opnd::V(-3)];
        let t = correct_tree(&['I', 'U']).unwrap();
        if exact(&t, &o, false) != (range_bits(Some(5), Some(9)) | range_bits(Some(-3), Some(-3))) {
            return Err("precedence I,U".into());
        }
        let t = correct_tree(&['U', 'I']).unwrap();
        if exact(&t, &o, false) != range_bits(Some(0), Some(9)) {
            return Err("precedence U,I".into());
        }
        let t = correct_tree(&['E', 'U']).unwrap();
        if exact(&t, &o, false) != (range_bits(Some(0), Some(4)) | range_bits(Some(-3), Some(-3))) {
            return Err("precedence E,U".into());
        }
        if correct_tree(&['E', 'E']).is_some() {
            return Err("E,E must be rejected".into());
        }
        if parse_bound("\"2..=9\",extensible") != Some(Bound { lo: Some(2), hi: Some(9), ext: true }) || parse_bound("\"-3..\"") != Some(Bound { lo: Some(-3), hi: None, ext: false }) || parse_bound("\"..=5\"") != Some(Bound { lo: None, hi: Some(5), ext: false }) || parse_bound("\"7\"") != Some(Bound { lo: Some(7), hi: Some(7), ext: false }) || parse_bound("\"..5\"") != Some(Bound { lo: None, hi: Some(4), ext: false }) {
            return Err("parse_bound".into());
        }
        Ok(n + 8)
    }
    fn enumerate(&self, tier: Tier, _seed: u64) -> Vec<Case> {
        let ops = all_operands();
        let opsz: Vec<Opnd> = ops.iter().filter(|o| nonneg(o)).cloned().collect();
        let mut out = vec![];
        let mk = |cons: Vec<Expr>, ty: &str, ctx: &str, ext_inner: bool, words: bool| Case { cons, ty: ty.into(), ctx: ctx.into(), ext_inner, words, open: String::new(), size_each: false };
        let exprs = |pool: &[Opnd], n: usize| -> Vec<Expr> {
            let mut v = vec![];
            match n {
                1 => {
                    for a in pool {
                        v.push(Expr { all_except: false, operands: vec![a.clone()], ops: vec![], ext: false });
                    }
                }
                2 => {
                    for a in pool {
                        for b in pool {
                            for op in ['U', 'I', 'E'] {
                                v.push(Expr { all_except: false, operands: vec![a.clone(), b.clone()], ops: vec![op], ext: false });
                            }
                        }
                    }
                }
                _ => {
                    for a in pool {
                        for b in pool {
                            for c in pool {
                                for o1 in ['U', 'I', 'E'] {
                                    for o2 in ['U', 'I', 'E'] {
                                        if o1 == 'E' && o2 == 'E' {
                                            continue;
                                        }
                                        v.push(Expr { all_except: false, operands: vec![a.clone(), b.clone(), c.clone()], ops: vec![o1, o2], ext: false });
                                    }
                                }
                            }
                        }
                    }
                }
            }
            v
        };
        let with_ext = |e: &Expr, x: bool| {
            let mut e = e.clone();
            e.ext = x;
            e
        };
        let all_except = |pool: &[Opnd]| -> Vec<Expr> { pool.iter().filter(|o| !matches!(o, Opnd::R(None, None))).map(|o| Expr { all_except: true, operands: vec![o.clone()], ops: vec![], ext: false }).collect() };
        let sized_types = ["BITSTRING", "OCTETSTRING", "IA5", "SEQOF", "SETOF"];
        // --- INTEGER
        let e1 = exprs(&ops, 1);
        let e2 = exprs(&ops, 2);
        let ae = all_except(&ops);
        for x in [false, true] {
            for e in e1.iter().chain(e2.iter()).chain(ae.iter()) {
                for ctx in ["assign", "component"] {
                    out.push(mk(vec![with_ext(e, x)], "INTEGER", ctx, false, false));
                }
            }
            for e in e1.iter().chain(e2.iter()) {
                if finite_points(&mk(vec![e.clone()], "INTEGER", "assign", false, false)).is_empty() {
                    continue;
                }
                for ctx in ["valref", "named", "namedself", "valref-lo", "valref-hi", "named-lo", "named-hi"] {
                    out.push(mk(vec![with_ext(e, x)], "INTEGER", ctx, false, false));
                }
            }
        }
        // open range endpoints: every expression with a finite range, written with excluded endpoints
        for e in e1.iter().chain(e2.iter()) {
            if !e.operands.iter().any(|o| matches!(o, Opnd::R(Some(_), Some(_)))) {
                continue;
            }
            for open in ["lo", "hi", "both"] {
                for ctx in ["assign", "component"] {
                    let mut c = mk(vec![e.clone()], "INTEGER", ctx, false, false);
                    c.open = open.into();
                    out.push(c);
                }
            }
        }
        // elements in parentheses of their own (last / first / each operand, the whole expression), with and without marker
        for e in e1.iter().chain(e2.iter()) {
            for open in ["paren-last", "paren-first", "paren-each", "paren-all"] {
                if e.operands.len() == 1 && open != "paren-last" && open != "paren-all" {
                    continue;
                }
                // `((a | b))` — a whole multi-operand expression in parentheses — is a syntax error in the pinned lexer (a loud
                // rejection of valid notation, recorded in hunt/ and DESIGN 10.5b, not a statement about emitted bounds)
                if e.operands.len() > 1 && open == "paren-all" {
                    continue;
                }
                for x in [false, true] {
                    for ctx in ["assign", "component"] {
                        let mut c = mk(vec![with_ext(e, x)], "INTEGER", ctx, false, false);
                        c.open = open.into();
                        out.push(c);
                    }
                }
            }
        }
        for ty in ["OCTETSTRING", "SEQOF"] {
            for e in exprs(&opsz, 1).iter().chain(exprs(&opsz, 2).iter()) {
                for open in ["paren-last", "paren-all"] {
                    if e.operands.len() > 1 && open == "paren-all" {
                        continue;
                    }
                    for (x, inner) in [(false, false), (true, false), (true, true)] {
                        let mut c = mk(vec![with_ext(e, x)], ty, "assign", inner, false);
                        c.open = open.into();
                        out.push(c);
                    }
                }
            }
        }
        // SEQUENCE OF elements whose type is a reference
        for e in e1.iter().chain(e2.iter()) {
            out.push(mk(vec![e.clone()], "INTEGER", "reference-element", false, false));
        }
        // components whose type is a reference: INTEGER and a sized type
        for x in [false, true] {
            for e in e1.iter().chain(e2.iter()) {
                out.push(mk(vec![with_ext(e, x)], "INTEGER", "reference-component", false, false));
            }
        }
        // a contained subtype as operand of a union / intersection with a second expression
        for a in e1.iter() {
            for b in e1.iter() {
                for ctx in ["contained-union", "contained-union-rev", "contained-inter"] {
                    out.push(mk(vec![a.clone(), b.clone()], "INTEGER", ctx, false, false));
                }
            }
        }
        // a contained subtype without any constraint of its own as operand
        for b in e1.iter() {
            for nn in ["", "nn-"] {
                for op in ["union", "unionrev", "inter", "interrev", "except"] {
                    out.push(mk(vec![b.clone()], "INTEGER", &format!("free-{nn}{op}"), false, false));
                }
            }
        }
        // contained subtypes: the expression sits on a referenced type (non-extensible expressions)
        for e in e1.iter().chain(e2.iter()) {
            for ctx in ["contained", "contained-includes", "contained-component", "contained-via-reference", "contained-ext"] {
                out.push(mk(vec![e.clone()], "INTEGER", ctx, false, false));
            }
        }
        // word spellings (UNION / INTERSECTION) for all 2-operand expressions
        for e in e2.iter().filter(|e| e.ops[0] != 'E') {
            out.push(mk(vec![e.clone()], "INTEGER", "assign", false, true));
        }
        // serial 1x1 and parent 1x1 (second ⊆ first)
        for a in e1.iter() {
            for b in e1.iter() {
                let (sa, sb) = (sem_expr(a, false).unwrap(), sem_expr(b, false).unwrap());
                // the second constraint selects values of the parent: its finite ends lie in the parent, an open end
                // (MIN / MAX) means the parent's own end (X.680 51.4.3)
                let finite_inside = match &b.operands[0] {
                    Opnd::V(v) => range_bits(Some(*v), Some(*v)) & !sa.exact == 0,
                    Opnd::R(l, h) => l.map_or(true, |v| range_bits(Some(v), Some(v)) & !sa.exact == 0) && h.map_or(true, |v| range_bits(Some(v), Some(v)) & !sa.exact == 0),
                };
                let open_end = matches!(&b.operands[0], Opnd::R(None, _) | Opnd::R(_, None));
                if a == b || sb.exact & sa.exact == 0 || !(sb.exact & !sa.exact == 0 || (open_end && finite_inside)) {
                    continue;
                }
                for (xa, xb) in [(false, false), (false, true), (true, true), (true, false)] {
                    out.push(mk(vec![with_ext(a, xa), with_ext(b, xb)], "INTEGER", "assign", false, false));
                    out.push(mk(vec![with_ext(a, xa), with_ext(b, xb)], "INTEGER", "component", false, false));
                    out.push(mk(vec![with_ext(a, xa), with_ext(b, xb)], "INTEGER", "parent", false, false));
                }
            }
        }
        // --- sized types: 1 and 2 operands
        let z1 = exprs(&opsz, 1);
        let z2 = exprs(&opsz, 2);
        let zae = all_except(&opsz);
        for ty in sized_types {
            for e in z1.iter().chain(z2.iter()).chain(zae.iter()) {
                for ctx in ["assign", "component"] {
                    out.push(mk(vec![e.clone()], ty, ctx, false, false));
                    out.push(mk(vec![with_ext(e, true)], ty, ctx, true, false));
                    out.push(mk(vec![with_ext(e, true)], ty, ctx, false, false));
                }
            }
        }
        // one SIZE per operand
        for ty in sized_types {
            for e in z2.iter().chain(zae.iter()) {
                for ctx in ["assign", "component"] {
                    for x in [false, true] {
                        let mut c = mk(vec![with_ext(e, x)], ty, ctx, false, false);
                        c.size_each = true;
                        out.push(c);
                    }
                }
            }
        }
        for e in z1.iter().chain(z2.iter()) {
            out.push(mk(vec![e.clone()], "OCTETSTRING", "reference-component", false, false));
            out.push(mk(vec![e.clone()], "SEQOF", "reference-component", false, false));
            out.push(mk(vec![e.clone()], "OCTETSTRING", "reference-element", false, false));
        }
        for e in z1.iter().chain(z2.iter()) {
            for ctx in ["contained", "contained-component"] {
                out.push(mk(vec![e.clone()], "OCTETSTRING", ctx, false, false));
            }
        }
        // 3 operands: INTEGER assignment (quick) ; + component and one sized type (thorough)
        let e3 = exprs(&ops, 3);
        for e in e3.iter() {
            out.push(mk(vec![e.clone()], "INTEGER", "assign", false, false));
        }
        if tier.thorough() {
            for e in e3.iter() {
                out.push(mk(vec![with_ext(e, true)], "INTEGER", "assign", false, false));
                out.push(mk(vec![e.clone()], "INTEGER", "component", false, false));
            }
            let z3 = exprs(&opsz, 3);
            for e in z3.iter() {
                out.push(mk(vec![e.clone()], "OCTETSTRING", "assign", false, false));
                out.push(mk(vec![e.clone()], "SEQOF", "component", false, false));
            }
            // serial: 1-operand parent × 2-operand child, INTEGER
            for a in e1.iter() {
                let sa = sem_expr(a, false).unwrap();
                for b in e2.iter() {
                    if let Some(sb) = sem_expr(b, false) {
                        if sb.exact != 0 && sb.exact & !sa.exact == 0 {
                            out.push(mk(vec![a.clone(), b.clone()], "INTEGER", "assign", false, false));
                            out.push(mk(vec![a.clone(), with_ext(b, true)], "INTEGER", "parent", false, false));
                        }
                    }
                }
            }
            // serial on sized types
            for ty in sized_types {
                for a in z1.iter() {
                    for b in z1.iter() {
                        let (sa, sb) = (sem_expr(a, true).unwrap(), sem_expr(b, true).unwrap());
                        if sb.exact & !sa.exact != 0 || a == b {
                            continue;
                        }
                        out.push(mk(vec![a.clone(), b.clone()], ty, "assign", false, false));
                        out.push(mk(vec![a.clone(), with_ext(b, true)], ty, "component", true, false));
                    }
                }
            }
        }
        out
    }
    fn check(&self, c: &Case) -> CaseResult {
        let unsigned = sized(&c.ty);
        // reference
        let mut sems = vec![];
        for e in &c.cons {
            match sem_expr(e, unsigned) {
                Some(s) => sems.push(s),
                None => return CaseResult::skip("invalid-notation"),
            }
        }
        let union_ctx = c.ctx.starts_with("contained-union");
        let free_all = c.ctx.starts_with("free") && !c.ctx.contains("inter");
        let exact_all = if free_all { ALL } else if union_ctx { sems.iter().fold(0, |a, s| a | s.exact) } else { sems.iter().fold(ALL, |a, s| a & s.exact) };
        if exact_all == 0 || sems.iter().any(|s| s.degenerate) {
            return CaseResult::skip("empty-or-degenerate");
        }
        let fold = |f: &dyn Fn(&Sem) -> Result<Iv, ()>| -> Result<Iv, ()> {
            if free_all {
                return Ok(Iv::R(None, None));
            }
            if union_ctx {
                // hull of the two operands
                return Ok(iv_hull(f(&sems[0])?, f(&sems[1])?));
            }
            let mut acc = Iv::R(if unsigned { Some(0) } else { None }, None);
            for s in &sems {
                acc = iv_inter(acc, f(s)?);
                if acc == Iv::Empty {
                    return Err(());
                }
            }
            Ok(acc)
        };
        let eff = match fold(&|s| s.eff) {
            Ok(e) => e,
            Err(()) => return CaseResult::skip("effective-empty"),
        };
        let eff_right = fold(&|s| s.eff_right);
        let eff_right_strict = fold(&|s| s.eff_right_strict);
        let want_ext = c.cons.iter().any(|e| e.ext) || c.ctx == "contained-ext";
        let src = text(c);
        let o = compile1(&src);
        let sh = shape(c);
        let kbase = format!("range|ctx={}{}{}|type={}|shape={sh}", c.ctx, if c.size_each { "+size-each" } else { "" }, if c.open.is_empty() { String::new() } else { format!("+open-{}", c.open) }, c.ty);
        let ops_used: String = c.cons.iter().map(|e| e.ops.iter().collect::<String>()).collect::<Vec<_>>().join(";");
        let prec_key = format!("range|precedence|ops={ops_used}");
        let prec_possible = eff_right != Ok(eff) || eff_right_strict != Ok(eff);
        let gen = match &o {
            Outcome::Ok { generated, warnings } if warnings.is_empty() => generated.clone(),
            Outcome::Panic { message, location } => return CaseResult { discs: vec![Disc::new(format!("panic|{location}"), format!("{message}\n{src}"))], nontrivial: false, outcome: "panic".into(), skipped: None },
            other => {
                // well-formed, non-degenerate input must compile
                let k = if eff_right_strict.is_err() { prec_key.clone() } else { format!("{kbase}|kind=rejected:{}", other.class()) };
                return CaseResult { discs: vec![Disc::new(k, format!("well-formed constraint not compiled cleanly: {}\n{src}", other.brief()))], nontrivial: false, outcome: other.class().into(), skipped: None };
            }
        };
        let p = match project(&gen) {
            Ok(p) => p,
            Err(e) => return CaseResult { discs: vec![Disc::new("range|unparsable", format!("{e}\n{src}\n{gen}"))], nontrivial: false, outcome: "unparsable".into(), skipped: None },
        };
        let m = match p.only() {
            Some(m) => m,
            None => return CaseResult::skip("no-module"),
        };
        // read the emitted bound
        let attr_key = if unsigned { "size" } else { "value" };
        let read_attr = |a: &RasnAttr| -> Result<Option<Bound>, String> {
            if a.count(attr_key) > 1 {
                return Err("duplicate bound attribute".into());
            }
            match a.get(attr_key) {
                None => Ok(None),
                Some(v) => parse_bound(v).map(Some).ok_or_else(|| format!("unparsable bound `{v}`")),
            }
        };
        let fixed = |ty: &str| -> Option<i64> {
            for pre in ["FixedBitString<", "FixedOctetString<"] {
                if let Some(r) = ty.strip_prefix(pre).and_then(|r| r.strip_suffix('>')) {
                    return r.trim_end_matches("usize").parse().ok();
                }
            }
            None
        };
        let mut got: Result<Option<Bound>, String>;
        match c.ctx.as_str() {
            "component" | "contained-component" | "reference-component" => match m.find("S") {
                Some(Item::Struct { fields, .. }) if fields.len() == 1 => {
                    got = read_attr(&fields[0].attrs.rasn);
                    // SEQUENCE OF / SET OF components are hoisted into a delegate newtype that carries the bound
                    if matches!(got, Ok(None)) && (c.ty == "SEQOF" || c.ty == "SETOF") {
                        if let Some(Item::Struct { attrs, .. }) = m.find(&fields[0].ty) {
                            got = read_attr(&attrs.rasn);
                        }
                    }
                    if let Some(n) = fixed(&fields[0].ty) {
                        got = Ok(Some(Bound { lo: Some(n), hi: Some(n), ext: false }));
                    }
                }
                _ => got = Err("struct S with one field not found".into()),
            },
            "reference-element" => match m.find("A") {
                // the bound sits on the item type that A's elements have (no item type of its own: no bound)
                Some(Item::Struct { tuple: Some(t), .. }) if t.len() == 1 => {
                    let elem = t[0].strip_prefix("SequenceOf<").and_then(|r| r.strip_suffix('>')).unwrap_or("").to_string();
                    got = match m.find(&elem) {
                        Some(Item::Struct { attrs, tuple: Some(et), .. }) if elem != "P" => match fixed(&et[0]) {
                            Some(n) => Ok(Some(Bound { lo: Some(n), hi: Some(n), ext: false })),
                            None => read_attr(&attrs.rasn),
                        },
                        _ if elem == "P" => Ok(None),
                        _ => Err(format!("element type `{elem}` of A not found")),
                    };
                }
                _ => got = Err("newtype A not found".into()),
            },
            _ => match m.find("A") {
                Some(Item::Struct { attrs, tuple: Some(t), .. }) if t.len() == 1 => {
                    got = read_attr(&attrs.rasn);
                    if let Some(n) = fixed(&t[0]) {
                        if matches!(got, Ok(Some(_))) {
                            got = Err("Fixed*String<n> together with a size attribute".into());
                        } else {
                            got = Ok(Some(Bound { lo: Some(n), hi: Some(n), ext: false }));
                        }
                    }
                    if c.ctx == "parent" {
                        // A wraps P: effective bound = bound(A) ∩ bound(P)
                        let pb = match m.find("P") {
                            Some(Item::Struct { attrs, tuple: Some(t), .. }) => match fixed(&t[0]) {
                                Some(n) => Ok(Some(Bound { lo: Some(n), hi: Some(n), ext: false })),
                                None => read_attr(&attrs.rasn),
                            },
                            _ => Err("struct P not found".into()),
                        };
                        got = match (got, pb) {
                            (Ok(a), Ok(b)) => {
                                let ia = a.as_ref().map_or(Iv::R(None, None), |x| Iv::R(x.lo, x.hi));
                                let ib = b.as_ref().map_or(Iv::R(None, None), |x| Iv::R(x.lo, x.hi));
                                let ext = a.as_ref().map_or(false, |x| x.ext) || b.as_ref().map_or(false, |x| x.ext);
                                match iv_inter(ia, ib) {
                                    Iv::Empty => Err("bound(A) ∩ bound(P) is empty".into()),
                                    Iv::R(None, None) if !ext => Ok(None),
                                    Iv::R(l, h) => Ok(Some(Bound { lo: l, hi: h, ext })),
                                }
                            }
                            (Err(e), _) | (_, Err(e)) => Err(e),
                        };
                    }
                }
                _ => got = Err("newtype A not found".into()),
            },
        }
        let mut discs = vec![];
        let got = match got {
            Ok(g) => g,
            Err(e) => {
                return CaseResult { discs: vec![Disc::new(format!("{kbase}|kind=unreadable"), format!("{e}\n{src}\n{gen}"))], nontrivial: false, outcome: "unreadable".into(), skipped: None };
            }
        };
        let norm = |l: Option<i64>| if unsigned && l.is_none() { Some(0) } else { l };
        let (glo, ghi, gext) = match &got {
            None => (norm(None), None, false),
            Some(b) => (norm(b.lo), b.hi, b.ext),
        };
        let (elo, ehi) = iv_to_bound(eff, unsigned);
        let gbits = range_bits(glo, ghi) & if unsigned { range_bits(Some(0), None) } else { ALL };
        let show = |l: Option<i64>, h: Option<i64>| format!("{}..{}", l.map_or("MIN".into(), |v| v.to_string()), h.map_or("MAX".into(), |v| v.to_string()));
        if (glo, ghi) != (elo, ehi) {
            let right_match = match eff_right {
                Ok(r) => iv_to_bound(r, unsigned) == (glo, ghi),
                Err(()) => false,
            };
            let excludes = exact_all & !gbits != 0;
            let key = if prec_possible && right_match { prec_key.clone() } else { format!("{kbase}|kind={}", if excludes { "excludes" } else if gbits & !range_bits(elo, ehi) != 0 && range_bits(elo, ehi) & !gbits == 0 { "wider" } else { "differs" }) };
            discs.push(Disc::new(key, format!("expected PER-visible bound {} got {}{}\n{src}\n{gen}", show(elo, ehi), show(glo, ghi), if excludes { " — EXCLUDES permitted values" } else { "" })));
        }
        let ctxo = if c.open.is_empty() { c.ctx.clone() } else { format!("{}+open-{}", c.ctx, c.open) };
        // extensible flag: only observable when a bound is emitted (an unbounded extensible constraint has no annotation to carry it)
        if got.is_some() {
            let mixed_serial = c.cons.len() == 2 && c.cons[0].ext != c.cons[1].ext;
            if gext != want_ext && !mixed_serial {
                discs.push(Disc::new(format!("range|ext-flag|ctx={}|type={}|n={}|want={want_ext}|inner={}|except={}", ctxo, c.ty, c.cons.len(), c.ext_inner, c.cons.iter().any(|e| e.ext && e.ops.contains(&'E'))), format!("extensible flag {gext}, marker present {want_ext}\n{src}\n{gen}")));
            }
        } else if want_ext && unsigned && !(c.cons.len() == 2 && c.cons[0].ext != c.cons[1].ext) {
            // a size constraint whose effective range is the whole of 0..MAX still carries its marker: the
            // generator writes `size("0..", extensible)` for it, so a missing annotation loses the extension bit
            // (for INTEGER there is no annotation that could carry the marker of an unbounded constraint)
            let except = c.cons.iter().any(|e| e.ext && (e.all_except || e.ops.contains(&'E')));
            discs.push(Disc::new(format!("range|ext-flag|ctx={}|type={}|n={}|want=true|inner={}|unbounded-size-not-annotated|except={except}", ctxo, c.ty, c.cons.len(), c.ext_inner), format!("extensible size constraint without annotation, marker present\n{src}\n{gen}")));
        }
        CaseResult { discs, nontrivial: true, outcome: format!("ok:{}:{}:n{}", c.ctx, c.ty, c.cons.iter().map(|e| e.operands.len()).sum::<usize>()), skipped: None }
    }
}
