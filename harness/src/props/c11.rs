//! C11 — the result is a deterministic function of the set of definitions.
use crate::common::*;
use crate::driver::*;
use crate::worker::*;
use serde::{Deserialize, Serialize};
use std::sync::atomic::{AtomicU64, Ordering};
use std::sync::{Arc, Mutex};
use std::time::Duration;

pub struct C11;

#[derive(Clone, Serialize, Deserialize)]
pub struct Case {
    /// perm | history | schedule | process
    pub kind: String,
    pub label: String,
    /// perm: base sources
    #[serde(default)]
    pub base: Vec<String>,
    /// perm: permuted sources
    #[serde(default)]
    pub permuted: Vec<String>,
    /// history / schedule / process: indices into the input alphabet
    #[serde(default)]
    pub ops: Vec<usize>,
    #[serde(default)]
    pub threads: usize,
}

static SCHEDULES: AtomicU64 = AtomicU64::new(0);

const ASSIGNMENTS: [&str; 17] = [
    "D1 ::= INTEGER { lim(5), low(1) }",
    "D2 ::= INTEGER { lim(9), low(2) }",
    "S3 ::= SEQUENCE { f INTEGER (low..lim), g D2 (low..lim) }",
    "A0 ::= INTEGER (0..5)",
    "A1 ::= SEQUENCE { a BOOLEAN, b INTEGER OPTIONAL, c UTF8String DEFAULT \"x\", d A3 OPTIONAL }",
    "A2 ::= ENUMERATED { x, y(5), ..., z }",
    "A3 ::= CHOICE { p [0] NULL, q [1] SEQUENCE OF A0, r [2] A1 }",
    "a4 INTEGER ::= 17",
    "A5 ::= SET { m OCTET STRING (SIZE (2..4)), n BIT STRING { f(0) } }",
    "A6 ::= SEQUENCE (SIZE (1..3)) OF IA5String (FROM (\"a\"..\"f\"))",
    "a7 OBJECT IDENTIFIER ::= { iso 3 6 }",
    "A8 ::= [APPLICATION 2] IMPLICIT A1",
    "A9 ::= SEQUENCE { r BOOLEAN, ..., [[ s NULL ]] }",
    "A10 ::= INTEGER { lo(1), hi(9) } (1..9)",
    "a11 A2 ::= y",
    "A12 ::= A0 (1 | 3..a4)",
    "a13 BIT STRING ::= '0110'B",
];

fn module(name: &str, header: &str, imports: &str, assignments: &[String]) -> String {
    format!("{name} DEFINITIONS {header} ::= BEGIN\n{imports}{}\nEND\n", assignments.join("\n"))
}

/// the six inputs of the history / schedule alphabet: they differ in every piece of per-run state
pub fn alphabet() -> Vec<(String, &'static str)> {
    let a: Vec<String> = ASSIGNMENTS.iter().map(|s| s.to_string()).collect();
    vec![
        (module("Auto", "AUTOMATIC TAGS", "", &a), "rasn"),
        (module("Expl", "EXPLICIT TAGS EXTENSIBILITY IMPLIED", "", &[a[4].clone(), a[6].clone(), a[3].clone(), "K ::= [7] CHOICE { k NULL }".into(), "U ::= SEQUENCE { u BOOLEAN }".into()]), "rasn"),
        (module("Warn", "IMPLICIT TAGS", "", &["R ::= REAL".into(), "V ::= VideotexString".into(), "W ::= SEQUENCE { w NumericString (FROM (\"0\"..\"9\")) , p PrintableString (FROM (\"A\"..\"Z\")) }".into()]), "rasn"),
        (module("Auto", "AUTOMATIC TAGS", "", &a), "ts"),
        (format!("{}{}", module("One", "AUTOMATIC TAGS", "IMPORTS T2 FROM Two;\n", &["T1 ::= SEQUENCE { t T2 }".into()]), module("Two", "", "", &["T2 ::= SET { x [0] INTEGER, y [1] VisibleString (FROM (\"a\"..\"z\")) }".into()])), "rasn"),
        ("Broken DEFINITIONS ::= BEGIN A ::= SEQUENCE { a §".to_string(), "rasn"),
        // two "versions" of one specification: identical module / type / template / value names and identical
        // instantiations, different bodies — anything cached by name across compilations shows here
        (module("Versioned", "AUTOMATIC TAGS", "", &["Wrapper { INTEGER:upper } ::= SEQUENCE { count INTEGER (0..upper) }".into(), "Impl ::= Wrapper { 5 }".into(), "Box2 { T } ::= SEQUENCE { item T }".into(), "Use ::= Box2 { BOOLEAN }".into(), "Same ::= INTEGER (0..7)".into(), "Rec ::= SEQUENCE { a Same, b Same OPTIONAL }".into(), "same INTEGER ::= 3".into(), "Pick ::= ENUMERATED { x, y }".into(), "Str ::= IA5String (FROM (\"a\"..\"f\"))".into()]), "rasn"),
        (module("Versioned", "AUTOMATIC TAGS", "", &["Wrapper { INTEGER:upper } ::= SEQUENCE { count INTEGER (0..upper), flag BOOLEAN }".into(), "Impl ::= Wrapper { 5 }".into(), "Box2 { T } ::= SEQUENCE { item T, extra NULL }".into(), "Use ::= Box2 { BOOLEAN }".into(), "Same ::= INTEGER (0..70000)".into(), "Rec ::= SEQUENCE { a Same OPTIONAL, b Same }".into(), "same INTEGER ::= 300".into(), "Pick ::= ENUMERATED { y, x, z }".into(), "Str ::= IA5String (FROM (\"p\"..\"z\"))".into()]), "rasn"),
    ]
}

fn observe(sources: &[String], backend: &str) -> String {
    let o = if backend == "ts" { compile_ts(sources) } else { compile_rasn(sources, &Cfg::default()) };
    digest_of(&o)
}

/// Split the body of a module into pieces that each lex as a list of complete assignments (validated on the real
/// lexer: the shortest prefix that lexes alone and whose remainder lexes alone is cut off, repeatedly).  Assignments
/// are self-delimiting (X.680 13), so any order of such pieces denotes the same set of definitions.
pub fn split_assignments(body: &str) -> Option<Vec<String>> {
    let lexes = |t: &str| -> bool {
        let src = format!("M DEFINITIONS AUTOMATIC TAGS ::= BEGIN\n{t}\nEND\n");
        match compile_rasn(&[src], &Cfg::default()) {
            Outcome::Err(e) => e.variant != "Lexer",
            Outcome::Panic { .. } => false,
            _ => true,
        }
    };
    let toks = crate::tokens::tokenize(body)?;
    let words: Vec<String> = toks.iter().map(|t| t.text.clone()).collect();
    if !lexes(&words.join(" ")) {
        return None;
    }
    let mut pieces = vec![];
    let mut start = 0;
    while start < words.len() {
        let mut cut = None;
        let mut depth = 0i32;
        for end in start..words.len() {
            match words[end].as_str() {
                "{" | "(" | "[" | "[[" => depth += 1,
                "}" | ")" | "]" | "]]" => depth -= 1,
                _ => {}
            }
            if depth != 0 || end + 1 - start < 3 || !words[start..=end].iter().any(|w| w == "::=") {
                continue;
            }
            // the next piece has to begin with a word that can begin an assignment
            if end + 1 < words.len() && !words[end + 1].chars().next().map_or(false, |c| c.is_ascii_alphabetic()) {
                continue;
            }
            let head = words[start..=end].join(" ");
            let rest = words[end + 1..].join(" ");
            if lexes(&head) && (rest.is_empty() || lexes(&rest)) {
                cut = Some(end);
                break;
            }
        }
        let end = cut?;
        pieces.push(words[start..=end].join(" "));
        start = end + 1;
    }
    Some(pieces)
}

fn perms_of(n: usize) -> Vec<Vec<usize>> {
    if n <= 5 {
        let mut perms: Vec<Vec<usize>> = vec![vec![]];
        for _ in 0..n {
            let mut next = vec![];
            for p in &perms {
                for x in 0..n {
                    if !p.contains(&x) {
                        let mut q = p.clone();
                        q.push(x);
                        next.push(q);
                    }
                }
            }
            perms = next;
        }
        perms
    } else {
        // complete neighbourhood: reversal, every adjacent transposition, every rotation
        let id: Vec<usize> = (0..n).collect();
        let mut v = vec![id.iter().rev().cloned().collect::<Vec<_>>()];
        for i in 0..n - 1 {
            let mut p = id.clone();
            p.swap(i, i + 1);
            v.push(p);
        }
        for r in 1..n {
            let mut p = id.clone();
            p.rotate_left(r);
            v.push(p);
        }
        v
    }
}

impl Prop for C11 {
    type Case = Case;
    fn id(&self) -> &'static str {
        "C11"
    }
    fn rule(&self) -> String {
        "observation = generated bytes + sorted warnings (rustfmt unreachable). (1) permutations: a 14-assignment module with forward/backward references (reversal, every adjacent transposition, every rotation), every closed sub-list of <=5 assignments in all orders (<=120), every feature module of the grammar (55: values of all-capital types, parameterization, classes and objects, selection types, COMPONENTS OF, OID references ...) split into its assignments by the real lexer and permuted (all orders for <=5 pieces, else reversal / adjacent transpositions / rotations; multi-module features: modules in every order, in one source and as separate sources), the same for modules inside one source and for sources of one compiler over 2..3-module import sets; (2) histories: BFS over sequences of compile operations from an 8-input alphabet (incl. two versions of one specification with identical names and instantiations but different bodies) that differs in every piece of per-run state (tagging default, extensibility, warnings, charset tables, backend, multi-module, failing input), depth <=3 (thorough 4), each step compared with the same operation in a fresh process; (3) schedules: shuttle::check_dfs over 2 threads × 1 compilation each (thorough: 2×2 over the boundaries {lex_source, validated, compiled} and 3×1 over {validated, generate_module}) with scheduling points at the verif_hooks stage boundaries, every compilation compared with its sequential reference; (4) the 6 inputs in 8 fresh processes (a sample of hash seeds — labelled sampling, not what the claim rests on). Non-trivial: at least two executions were compared.".into()
    }
    fn nondeterminism_is_violation(&self) -> bool {
        true
    }
    fn assumptions(&self) -> Vec<String> {
        let mut v = vec!["interleavings are explored at stage boundaries (hook points); shuttle runs all model threads on one OS thread, so std thread_local state would be shared between them (stricter than reality)".to_string()];
        // source census of shared mutable state
        let mut hits: Vec<String> = vec![];
        fn walk(dir: &std::path::Path, hits: &mut Vec<String>) {
            if let Ok(rd) = std::fs::read_dir(dir) {
                for e in rd.flatten() {
                    let p = e.path();
                    if p.is_dir() {
                        walk(&p, hits);
                    } else if p.extension().map_or(false, |x| x == "rs") {
                        if let Ok(t) = std::fs::read_to_string(&p) {
                            for pat in ["static mut", "UnsafeCell", "thread_local!", "Mutex<", "RwLock<", "AtomicU", "AtomicI", "AtomicBool", "OnceLock", "OnceCell", "LazyLock", "env::var", "HashMap", "HashSet"] {
                                let n = t.matches(pat).count();
                                if n > 0 {
                                    hits.push(format!("{}:{pat}×{n}", p.strip_prefix(format!("{}/rasn-compiler/src", repo_dir())).unwrap_or(&p).display()));
                                }
                            }
                        }
                    }
                }
            }
        }
        walk(std::path::Path::new(&format!("{}/rasn-compiler/src", repo_dir())), &mut hits);
        hits.sort();
        v.push(format!("census of process-global / hashed state in rasn-compiler/src: {}", hits.join(", ")));
        v
    }
    fn extra(&self, _tier: Tier) -> serde_json::Value {
        serde_json::json!({ "schedules_explored": SCHEDULES.load(Ordering::SeqCst) })
    }
    fn enumerate(&self, tier: Tier, _seed: u64) -> Vec<Case> {
        let mut out = vec![];
        let a: Vec<String> = ASSIGNMENTS.iter().map(|s| s.to_string()).collect();
        let mk = |kind: &str, label: String, base: Vec<String>, permuted: Vec<String>| Case { kind: kind.into(), label, base, permuted, ops: vec![], threads: 0 };
        // ---- (1) assignment permutations
        for header in ["AUTOMATIC TAGS", "EXPLICIT TAGS EXTENSIBILITY IMPLIED"] {
            let base = module("M", header, "", &a);
            for p in perms_of(a.len()) {
                let pa: Vec<String> = p.iter().map(|i| a[*i].clone()).collect();
                out.push(mk("perm", "assignments:n=17:neighbourhood".into(), vec![base.clone()], vec![module("M", header, "", &pa)]));
            }
        }
        // closed sub-lists of <= 5 assignments
        let subs: Vec<Vec<usize>> = vec![vec![3, 4, 6], vec![3, 4, 6, 11], vec![5, 14], vec![3, 7, 15], vec![3, 4, 5, 6, 14], vec![8, 9, 10, 12, 16], vec![3, 6, 4, 13, 7], vec![0, 1, 2], vec![0, 1, 2, 3, 7]];
        for sub in &subs {
            let sa: Vec<String> = sub.iter().map(|i| a[*i].clone()).collect();
            let base = module("M", "AUTOMATIC TAGS", "", &sa);
            for p in perms_of(sa.len()) {
                let pa: Vec<String> = p.iter().map(|i| sa[*i].clone()).collect();
                out.push(mk("perm", format!("assignments:n={}:all", sa.len()), vec![base.clone()], vec![module("M", "AUTOMATIC TAGS", "", &pa)]));
            }
        }
        // every feature module (each production of the grammar occurs in one): its assignments in every order (<= 5
        // pieces) / in the complete neighbourhood of the written order; multi-module features: the modules in every order
        for (name, text) in crate::tokens::feature_modules() {
            let head = "M DEFINITIONS AUTOMATIC TAGS ::= BEGIN ";
            if text.starts_with(head) && text.ends_with(" END") && text.matches(" DEFINITIONS ").count() == 1 {
                let body = &text[head.len()..text.len() - 4];
                if let Some(pieces) = split_assignments(body) {
                    if pieces.len() < 2 {
                        continue;
                    }
                    let base = module("M", "AUTOMATIC TAGS", "", &pieces);
                    for p in perms_of(pieces.len()) {
                        let pa: Vec<String> = p.iter().map(|i| pieces[*i].clone()).collect();
                        out.push(mk("perm", format!("feature-assignments:{name}:n={}", pieces.len()), vec![base.clone()], vec![module("M", "AUTOMATIC TAGS", "", &pa)]));
                    }
                }
            } else if text.matches(" DEFINITIONS ").count() > 1 {
                let mods: Vec<String> = text.split_inclusive(" END").map(|m| m.trim().to_string()).filter(|m| !m.is_empty()).collect();
                for p in perms_of(mods.len()) {
                    let pm: Vec<String> = p.iter().map(|i| mods[*i].clone()).collect();
                    out.push(mk("perm", format!("feature-modules:{name}:n={}", mods.len()), vec![mods.join("\n")], vec![pm.join("\n")]));
                    out.push(mk("perm", format!("feature-sources:{name}:n={}", mods.len()), mods.clone(), pm.clone()));
                }
            }
        }
        // ---- modules inside a source / sources of a compiler
        let m1 = module("One", "AUTOMATIC TAGS", "IMPORTS T2, v2 FROM Two T3 FROM Three;\n", &["T1 ::= SEQUENCE { t T2, u T3, i INTEGER (0..v2) }".into(), "C1 ::= CHOICE { a T2, b T3 }".into()]);
        let m2 = module("Two", "EXPLICIT TAGS", "IMPORTS T3 FROM Three;\n", &["T2 ::= SET { x [0] INTEGER, y [1] T3 }".into(), "v2 INTEGER ::= 9".into()]);
        let m3 = module("Three", "IMPLICIT TAGS EXTENSIBILITY IMPLIED", "", &["T3 ::= ENUMERATED { p, q }".into(), "W3 ::= REAL".into()]);
        let m4 = module("Four", "", "", &["T4 ::= SEQUENCE { a [0] BOOLEAN }".into()]);
        let ms = vec![m1, m2, m3, m4];
        for p in perms_of(4) {
            let pm: Vec<String> = p.iter().map(|i| ms[*i].clone()).collect();
            out.push(mk("perm", "modules-in-source:n=4:all".into(), vec![ms.join("\n")], vec![pm.join("\n")]));
            out.push(mk("perm", "sources:n=4:all".into(), ms.clone(), pm.clone()));
            // mixed: first two modules in one source
            out.push(mk("perm", "sources-mixed:n=4:all".into(), ms.clone(), vec![format!("{}\n{}", pm[0], pm[1]), pm[2].clone(), pm[3].clone()]));
        }
        // assignments that carry a comment of their own (it becomes the doc text of the item): the comment travels with
        // its assignment, so every order gives the same bytes
        let commented: Vec<String> = ["Flag ::= BOOLEAN", "Count ::= INTEGER", "Name ::= UTF8String", "Nothing ::= NULL", "Kind ::= ENUMERATED { a, b }"].iter().enumerate().map(|(i, a)| format!("-- about definition {i}\n{a}")).collect();
        let cbase = module("M", "AUTOMATIC TAGS", "", &commented);
        for p in perms_of(commented.len()) {
            let pa: Vec<String> = p.iter().map(|i| commented[*i].clone()).collect();
            out.push(mk("perm", "commented-assignments:n=5:all".into(), vec![cbase.clone()], vec![module("M", "AUTOMATIC TAGS", "", &pa)]));
        }
        // every way an assignment can end (each built-in type keyword, constrained / tagged forms, references, values) in
        // front of and behind an assignment with a comment of its own: the comment belongs to the assignment it precedes,
        // whatever the assignment before it ends in.  Line and block comments; both orders of the pair; three in a row.
        let endings: Vec<&str> = vec![
            "X ::= BOOLEAN", "X ::= NULL", "X ::= INTEGER", "X ::= INTEGER (0..7)", "X ::= INTEGER { one(1) }", "X ::= REAL", "X ::= ENUMERATED { p, q }",
            "X ::= BIT STRING", "X ::= BIT STRING { f(0) }", "X ::= BIT STRING (SIZE (8))", "X ::= OCTET STRING", "X ::= OCTET STRING (SIZE (1..4))",
            "X ::= OBJECT IDENTIFIER", "X ::= RELATIVE-OID", "X ::= EXTERNAL", "X ::= EMBEDDED PDV", "X ::= UTCTime", "X ::= GeneralizedTime",
            "X ::= ObjectDescriptor", "X ::= ANY", "X ::= UTF8String", "X ::= IA5String", "X ::= IA5String (SIZE (2))", "X ::= IA5String (FROM (\"ab\"))",
            "X ::= NumericString", "X ::= PrintableString", "X ::= VisibleString", "X ::= ISO646String", "X ::= BMPString", "X ::= UniversalString",
            "X ::= TeletexString", "X ::= T61String", "X ::= GraphicString", "X ::= GeneralString", "X ::= VideotexString",
            "X ::= SEQUENCE { a BOOLEAN }", "X ::= SET { a BOOLEAN }", "X ::= CHOICE { a BOOLEAN, b NULL }", "X ::= SEQUENCE OF BOOLEAN", "X ::= SET OF INTEGER",
            "X ::= SEQUENCE OF EXTERNAL", "X ::= SET OF RELATIVE-OID", "X ::= SEQUENCE OF OBJECT IDENTIFIER", "X ::= SEQUENCE (SIZE (1..2)) OF NULL",
            "X ::= [5] BOOLEAN", "X ::= [APPLICATION 2] IMPLICIT EXTERNAL", "X ::= [3] EXPLICIT RELATIVE-OID", "X ::= [1] OCTET STRING",
            "X ::= Other", "X ::= Other (0..3)", "X ::= SEQUENCE { a EXTERNAL }", "X ::= SEQUENCE { a RELATIVE-OID OPTIONAL }", "X ::= CHOICE { a EXTERNAL, b RELATIVE-OID }",
            "x INTEGER ::= 5", "x BOOLEAN ::= TRUE", "x OCTET STRING ::= 'AB'H", "x OBJECT IDENTIFIER ::= { 1 2 3 }", "x RELATIVE-OID ::= { 4 5 }", "x UTF8String ::= \"t\"", "x Other ::= 2", "x NULL ::= NULL",
        ];
        for e in &endings {
            for (cs, comment) in [("line", "-- about the next one\n"), ("block", "/* about the next one */ "), ("line-closed", "-- about the next one -- ")] {
                let other = "Other ::= INTEGER (0..9)".to_string();
                let y = format!("{comment}Yy ::= SEQUENCE {{ m BOOLEAN }}");
                let z = format!("{comment}Zz ::= ENUMERATED {{ only }}");
                let x = e.to_string();
                let base = module("M", "AUTOMATIC TAGS", "", &[other.clone(), x.clone(), y.clone(), z.clone()]);
                for (oi, order) in [vec![&other, &y, &x, &z], vec![&other, &y, &z, &x], vec![&x, &y, &other, &z], vec![&z, &x, &y, &other]].iter().enumerate() {
                    let pa: Vec<String> = order.iter().map(|s| s.to_string()).collect();
                    out.push(mk("perm", format!("ending-before-comment:{cs}:{e}:order={oi}"), vec![base.clone()], vec![module("M", "AUTOMATIC TAGS", "", &pa)]));
                }
            }
        }
        // two modules of the same name (a specification split over two files) whose headers differ in tagging default,
        // extensibility and imports, next to a third module: every order, in one source and as separate sources
        let s1 = module("Split-Module", "AUTOMATIC TAGS", "IMPORTS T3 FROM Three;\n", &["Alpha ::= SEQUENCE { a INTEGER, b T3 OPTIONAL }".into(), "AlphaCh ::= CHOICE { x NULL, y BOOLEAN }".into()]);
        let s2 = module("Split-Module", "EXPLICIT TAGS EXTENSIBILITY IMPLIED", "", &["Beta ::= SEQUENCE { c [0] INTEGER, d [1] BOOLEAN }".into(), "BetaE ::= ENUMERATED { p, q }".into()]);
        let s3 = module("Three", "IMPLICIT TAGS", "", &["T3 ::= ENUMERATED { p, q }".into()]);
        let ss = vec![s1, s2, s3];
        for p in perms_of(3) {
            let pm: Vec<String> = p.iter().map(|i| ss[*i].clone()).collect();
            out.push(mk("perm", "same-named-modules-in-source:n=3:all".into(), vec![ss.join("\n")], vec![pm.join("\n")]));
            out.push(mk("perm", "same-named-module-sources:n=3:all".into(), ss.clone(), pm.clone()));
        }
        // repetition of the identical compilation
        for (i, (src, be)) in alphabet().iter().enumerate() {
            let _ = be;
            out.push(mk("perm", format!("repeat:input={i}"), vec![src.clone()], vec![src.clone()]));
        }
        // ---- (2) histories
        let depth = if tier.thorough() { 4 } else { 3 };
        let n = alphabet().len();
        let mut hs: Vec<Vec<usize>> = vec![vec![]];
        for _ in 0..depth {
            let mut next = vec![];
            for h in &hs {
                for x in 0..n {
                    let mut h2 = h.clone();
                    h2.push(x);
                    next.push(h2);
                }
            }
            for h in &next {
                out.push(Case { kind: "history".into(), label: format!("history:depth={}", h.len()), base: vec![], permuted: vec![], ops: h.clone(), threads: 0 });
            }
            hs = next;
        }
        // ---- (3) schedules
        let pairs: Vec<(usize, usize)> = vec![(0, 1), (1, 0), (0, 0), (2, 4), (4, 2), (1, 4), (3, 0), (5, 1), (2, 2), (4, 4), (6, 7), (7, 6)];
        for (x, y) in &pairs {
            out.push(Case { kind: "schedule".into(), label: "schedule:2x1".into(), base: vec![], permuted: vec![], ops: vec![*x, *y], threads: 2 });
        }
        if tier.thorough() {
            out.push(Case { kind: "schedule".into(), label: "schedule:3x1".into(), base: vec![], permuted: vec![], ops: vec![1, 2, 4], threads: 3 });
            out.push(Case { kind: "schedule".into(), label: "schedule:3x1".into(), base: vec![], permuted: vec![], ops: vec![0, 1, 3], threads: 3 });
            out.push(Case { kind: "schedule".into(), label: "schedule:2x2".into(), base: vec![], permuted: vec![], ops: vec![1, 2, 2, 1], threads: 2 });
        }
        // ---- (4) fresh processes
        for i in 0..n {
            out.push(Case { kind: "process".into(), label: "process:8".into(), base: vec![], permuted: vec![], ops: vec![i], threads: 0 });
        }
        out
    }
    fn check(&self, c: &Case) -> CaseResult {
        let alpha = alphabet();
        match c.kind.as_str() {
            "perm" => {
                let backend = "rasn";
                let a = observe(&c.base, backend);
                let b = observe(&c.permuted, backend);
                let mut discs = vec![];
                if a != b {
                    let level = c.label.split(':').next().unwrap_or("");
                    discs.push(Disc::new(format!("nondet|perm|level={level}|{}", if a.starts_with("ok") != b.starts_with("ok") { "status" } else { "bytes" }), format!("{} vs {}\n--- base ---\n{}\n--- permuted ---\n{}", a, b, c.base.join("\n=====\n"), c.permuted.join("\n=====\n"))));
                }
                // TS backend too for the single-module cases
                if c.base.len() == 1 {
                    let (a2, b2) = (observe(&c.base, "ts"), observe(&c.permuted, "ts"));
                    if a2 != b2 {
                        discs.push(Disc::new("nondet|perm|backend=ts".to_string(), format!("{a2} vs {b2}\n{}", c.permuted.join("\n"))));
                    }
                }
                CaseResult { discs, nontrivial: true, outcome: format!("perm:{}", a.split(':').next().unwrap_or("")), skipped: None }
            }
            "history" => {
                // run the history on a fresh OS thread of this process; compare every step with the fresh-process reference
                let mut discs = vec![];
                let ops = c.ops.clone();
                let alpha2 = alpha.clone();
                let got: Vec<String> = std::thread::Builder::new().stack_size(64 << 20).spawn(move || ops.iter().map(|i| observe(&[alpha2[*i].0.clone()], alpha2[*i].1)).collect()).unwrap().join().unwrap_or_default();
                for (step, i) in c.ops.iter().enumerate() {
                    let reference = match run_isolated(&alpha[*i].0, alpha[*i].1, Duration::from_secs(20)) {
                        Verdict::Done(r) => r.digest,
                        other => format!("{other:?}"),
                    };
                    if got.get(step) != Some(&reference) {
                        discs.push(Disc::new(format!("nondet|history|step={step}|input={i}|after={:?}", &c.ops[..step]), format!("in-process after {:?}: {:?}; alone in another process: {reference}", &c.ops[..step], got.get(step))));
                    }
                }
                CaseResult { discs, nontrivial: true, outcome: format!("history:{}", c.ops.len()), skipped: None }
            }
            "schedule" => {
                let refs: Vec<String> = c.ops.iter().map(|i| observe(&[alpha[*i].0.clone()], alpha[*i].1)).collect();
                let mismatches: Arc<Mutex<Vec<String>>> = Arc::new(Mutex::new(vec![]));
                let count = Arc::new(AtomicU64::new(0));
                let ops = c.ops.clone();
                let threads = c.threads;
                let per = ops.len() / threads.max(1);
                let (mm, cnt, alpha3, refs3) = (mismatches.clone(), count.clone(), Arc::new(alpha.clone()), Arc::new(refs.clone()));
                crate::hooks::install();
                // 2 threads × 1 compilation: every stage boundary is a scheduling point; the larger configurations are
                // explored exhaustively over a coarser set of boundaries (all boundaries would be 10^6..10^8 schedules)
                crate::hooks::set_points(match (c.threads, c.ops.len()) {
                    (2, 2) => &[],
                    (3, _) => &["validated", "generate_module"],
                    _ => &["lex_source", "validated", "compiled"],
                });
                let r = guarded(move || {
                    shuttle::check_dfs(
                        move || {
                            cnt.fetch_add(1, Ordering::SeqCst);
                            crate::hooks::set_active(true);
                            let mut hs = vec![];
                            for t in 0..threads {
                                let (ops, alpha, refs, mm) = (ops.clone(), alpha3.clone(), refs3.clone(), mm.clone());
                                hs.push(shuttle::thread::spawn(move || {
                                    for k in 0..per {
                                        let idx = t * per + k;
                                        let i = ops[idx];
                                        let d = observe(&[alpha[i].0.clone()], alpha[i].1);
                                        if d != refs[idx] {
                                            mm.lock().unwrap().push(format!("thread {t} compilation {k} (input {i}): {d} != sequential {}", refs[idx]));
                                        }
                                    }
                                }));
                            }
                            for h in hs {
                                let _ = h.join();
                            }
                            crate::hooks::set_active(false);
                        },
                        None,
                    );
                });
                crate::hooks::set_active(false);
                let n = count.load(Ordering::SeqCst);
                SCHEDULES.fetch_add(n, Ordering::SeqCst);
                let mut discs = vec![];
                if let Err((m, l)) = r {
                    discs.push(Disc::new(format!("nondet|schedule|panic|{l}"), m));
                }
                let mm = mismatches.lock().unwrap();
                if !mm.is_empty() {
                    discs.push(Disc::new(format!("nondet|schedule|{}|inputs={:?}", c.label, c.ops), format!("{} mismatching executions of {n}; first: {}", mm.len(), mm[0])));
                }
                CaseResult { discs, nontrivial: n > 1, outcome: format!("schedule:{}", if n > 1 { "explored" } else { "vacuous" }), skipped: None }
            }
            "process" => {
                let i = c.ops[0];
                let mut ds = vec![];
                for _ in 0..8 {
                    ds.push(match run_fresh(&alpha[i].0, alpha[i].1, Duration::from_secs(20)) {
                        Verdict::Done(r) => r.digest,
                        other => format!("{other:?}"),
                    });
                }
                let mut discs = vec![];
                if ds.iter().any(|d| d != &ds[0]) {
                    discs.push(Disc::new(format!("nondet|process|input={i}"), format!("{ds:?}")));
                }
                CaseResult { discs, nontrivial: true, outcome: "process".into(), skipped: None }
            }
            _ => CaseResult::skip("unknown-kind"),
        }
    }
}
