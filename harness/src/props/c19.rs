//! C19 — backend options change only what they document.
use crate::common::*;
use crate::driver::*;
use crate::proj::*;
use crate::tokens::feature_modules;
use serde::{Deserialize, Serialize};
use std::collections::BTreeMap;
use std::sync::Arc;

pub struct C19;

#[derive(Clone, Serialize, Deserialize)]
pub struct Case {
    pub base_name: String,
    pub sources: Arc<Vec<String>>,
    pub cfg: Cfg,
}

const REQUIRED: [&str; 6] = ["AsnType", "Debug", "Clone", "Decode", "Encode", "PartialEq"];

pub fn bases() -> Vec<(String, Vec<String>)> {
    let mut v: Vec<(String, Vec<String>)> = vec![];
    for (n, t) in feature_modules() {
        if matches!(n, "class" | "class-hyphenated-field" | "object-fields" | "instance-of" | "param2" | "imports-param" | "real" | "param" | "with-components" | "containing" | "pattern") {
            continue; // outside G for this property (class machinery is what opaque_open_types documents to change)
        }
        v.push((format!("feature:{n}"), vec![t]));
    }
    v.push((
        "choices".into(),
        vec!["M DEFINITIONS AUTOMATIC TAGS ::= BEGIN
T ::= SEQUENCE { x BOOLEAN }
U ::= INTEGER (0..7)
C1 ::= CHOICE { a INTEGER, b BOOLEAN, c T }
C2 ::= CHOICE { a INTEGER, b INTEGER, c BOOLEAN }
C3 ::= CHOICE { a T, b T, c U, d U }
C4 ::= CHOICE { a SEQUENCE { p NULL }, b SEQUENCE OF T, c SEQUENCE OF T, ..., d UTF8String }
C5 ::= CHOICE { r C5, n NULL }
C8 ::= CHOICE { a T, b M.T, c BOOLEAN }
C9 ::= CHOICE { a SEQUENCE OF U, b SEQUENCE OF M.U }
C6 ::= CHOICE { small SEQUENCE OF INTEGER (0..10), large SEQUENCE OF INTEGER (0..200), flag BOOLEAN }
C7 ::= CHOICE { x SET OF INTEGER (0..10), y SET OF INTEGER (0..10), z SEQUENCE OF SEQUENCE { q NULL }, w SEQUENCE OF SEQUENCE { q NULL } }
S ::= SET { a [0] C1, b [1] SEQUENCE { c C2 OPTIONAL } }
v1 INTEGER ::= 5
v2 INTEGER (0..10) ::= 5
v3 OCTET STRING ::= 'AB'H
v4 T ::= { x TRUE }
v5 C1 ::= a:3
v6 OBJECT IDENTIFIER ::= { iso 2 3 }
v7 UTF8String ::= \"hi\"
E ::= ENUMERATED { p, q }
v8 E ::= q
END"
        .to_string()],
    ));
    v.push((
        "multi".into(),
        vec![
            "A DEFINITIONS AUTOMATIC TAGS ::= BEGIN IMPORTS T, v FROM B U FROM C; X ::= SEQUENCE { t T, u U, i INTEGER (0..v) DEFAULT 1 } Y ::= CHOICE { t T, u U } END".to_string(),
            "B DEFINITIONS EXPLICIT TAGS ::= BEGIN IMPORTS U FROM C; T ::= SEQUENCE { a [0] U, b [1] BOOLEAN } v INTEGER ::= 3 w BIT STRING ::= '0101'B END C DEFINITIONS IMPLICIT TAGS EXTENSIBILITY IMPLIED ::= BEGIN U ::= ENUMERATED { a, b } k U ::= b END".to_string(),
        ],
    ));
    v
}

pub fn configs(all: bool) -> Vec<Cfg> {
    let imports: Vec<Vec<String>> = vec![vec![], vec!["core::fmt::Display".into()], vec!["core::fmt::Display".into(), "core::marker::*".into(), "alloc::string::String as AllocString".into()], vec!["core::marker::*".into(), "core::ops::*".into(), "core::fmt::Write as FmtWrite".into(), "core::fmt::Display".into()],
        // paths whose first segment begins like a keyword of the use declaration itself, or is a path keyword / raw identifier
        vec!["user_types::UserId".into(), "users::*".into(), "useful::Thing as used".into(), "pub_types::P".into()],
        vec!["crate::types::Id".into(), "self::helpers::H".into(), "super::shared::S".into(), "r#type::Thing".into(), "asn::as_::a_s as as_".into()]];
    let annots: Vec<Option<Vec<String>>> = vec![
        None,
        Some(vec!["#[derive(Eq, Hash, PartialOrd)]".into()]),
        Some(vec!["#[allow(dead_code)]".into(), "#[cfg_attr(test, derive(Default))]".into()]),
        Some(vec!["#[derive(AsnType, Debug, Eq)]".into(), "#[derive(Debug , Hash,Clone)]".into()]),
        // derives given by path and with underscores (not bare identifiers), next to a bare one
        Some(vec!["#[derive(serde::Serialize, my_crate::Some_Trait)]".into(), "#[derive(PartialOrd)]".into()]),
        // required derives listed again next to a derive given by path, and with a trailing comma
        Some(vec!["#[derive(Debug, Clone, serde::Serialize)]".into(), "#[derive(PartialEq, Hash,)]".into()]),
        // derives rasn does not need, listed twice within one attribute and across two
        Some(vec!["#[derive(Eq, Hash, Eq)]".into(), "#[derive(Hash, PartialOrd)]".into(), "#[derive(PartialOrd)]".into()]),
    ];
    let mut v = vec![];
    for bits in 0u8..16 {
        for (ii, imp) in imports.iter().enumerate() {
            for (ai, an) in annots.iter().enumerate() {
                let deviations = bits.count_ones() as usize + (ii > 0) as usize + (ai > 0) as usize;
                if !all && deviations > 2 {
                    continue;
                }
                v.push(Cfg { non_opaque_open_types: bits & 1 != 0, wildcard: bits & 2 != 0, from_impls: bits & 4 != 0, no_std: bits & 8 != 0, custom_imports: imp.clone(), type_annotations: an.clone() });
            }
        }
    }
    v
}

fn parse_user_derives(ann: &Option<Vec<String>>) -> (Vec<String>, Vec<String>) {
    // (derives, non-derive attributes as whitespace-free text)
    let mut d = vec![];
    let mut o = vec![];
    if let Some(a) = ann {
        for s in a {
            let t = strip_ws(s);
            if let Some(inner) = t.strip_prefix("#[derive(").and_then(|r| r.strip_suffix(")]")) {
                for x in inner.split(',') {
                    if !x.is_empty() {
                        d.push(x.to_string());
                    }
                }
            } else {
                o.push(t);
            }
        }
    }
    (d, o)
}

impl Prop for C19 {
    type Case = Case;
    fn id(&self) -> &'static str {
        "C19"
    }
    fn rule(&self) -> String {
        "bases: 29 feature modules of the grammar G, a module of CHOICEs with unique / duplicate / recursive / anonymous payload types plus const and lazy values, and a 3-module import set; × RasnConfig: 2^4 boolean flags × custom_imports {0,1,3} × type_annotations {default, extra derives, non-derive attributes, required derives listed twice, other derives listed twice, derives given by path} (quick: all configurations with <=2 deviations from the default, thorough: all 288). Oracle: differential against the default-config projection after removing each enabled option's documented delta (From impls exactly for CHOICE alternatives with a payload type unique in that CHOICE; import lists -> *; LazyLock <-> lazy_static with equal name/type/initialiser; extra use lines exactly as configured; attribute lists: user attributes + required derives each exactly once, Copy kept); everything else — item order, names, fields, types, rasn attributes, values — must be identical. Non-trivial: both configurations compiled cleanly and were compared.".into()
    }
    fn selftest(&self) -> Result<u64, String> {
        // the two designed bases must compile cleanly, otherwise the differential check is vacuous
        let mut n = 0;
        for (name, s) in bases() {
            n += 1;
            if !name.starts_with("feature:") {
                let o = compile_rasn(&s, &Cfg::default());
                if o.ok_clean().is_none() {
                    return Err(format!("COMPILER: designed base `{name}` does not compile cleanly under the default configuration: {}", o.brief()));
                }
            }
        }
        Ok(n)
    }
    fn enumerate(&self, tier: Tier, _seed: u64) -> Vec<Case> {
        let mut out = vec![];
        for (n, s) in bases() {
            let s = Arc::new(s);
            for c in configs(true) {
                let _ = tier;
                if c == Cfg::default() {
                    continue;
                }
                out.push(Case { base_name: n.clone(), sources: s.clone(), cfg: c });
            }
        }
        out
    }
    fn check(&self, c: &Case) -> CaseResult {
        let o0 = compile_rasn(&c.sources, &Cfg::default());
        let o1 = compile_rasn(&c.sources, &c.cfg);
        let lab = {
            let mut v = vec![];
            if c.cfg.non_opaque_open_types { v.push("non-opaque"); }
            if c.cfg.wildcard { v.push("wildcard"); }
            if c.cfg.from_impls { v.push("from-impls"); }
            if c.cfg.no_std { v.push("no-std"); }
            if !c.cfg.custom_imports.is_empty() { v.push("imports"); }
            if c.cfg.type_annotations.is_some() { v.push("annotations"); }
            v.join("+")
        };
        let src = c.sources.join("\n---\n");
        if let Outcome::Panic { message, location } = &o1 {
            return CaseResult { discs: vec![Disc::new(format!("panic|{location}"), format!("{message}\nconfig {lab}\n{src}"))], nontrivial: false, outcome: "panic".into(), skipped: None };
        }
        let (g0, w0) = match o0.ok_any() {
            Some(x) => x,
            None => return CaseResult::skip("base-does-not-compile"),
        };
        let (g1, w1) = match o1.ok_any() {
            Some(x) => x,
            None => return CaseResult { discs: vec![Disc::new(format!("config|{lab}|outcome-changed"), format!("default config compiles, this one gives {}\n{src}", o1.brief()))], nontrivial: false, outcome: "outcome-changed".into(), skipped: None },
        };
        let mut discs = vec![];
        if w0 != w1 {
            discs.push(Disc::new(format!("config|{lab}|warnings-changed"), format!("{w0:?} vs {w1:?}\n{src}")));
        }
        let (p0, p1) = match (project(g0), project(g1)) {
            (Ok(a), Ok(b)) => (a, b),
            (_, Err(e)) => return CaseResult { discs: vec![Disc::new(format!("config|{lab}|unparsable"), format!("{e}\n{g1}"))], nontrivial: false, outcome: "unparsable".into(), skipped: None },
            _ => return CaseResult::skip("base-unparsable"),
        };
        if p0.modules.len() != p1.modules.len() {
            discs.push(Disc::new(format!("config|{lab}|module-count"), src.clone()));
            return CaseResult { discs, nontrivial: true, outcome: "cmp".into(), skipped: None };
        }
        let (user_derives, user_other) = parse_user_derives(&c.cfg.type_annotations);
        for (m0, m1) in p0.modules.iter().zip(p1.modules.iter()) {
            let ctx = format!("module {}\nconfig {lab}\n--- default ---\n{g0}\n--- configured ---\n{g1}", m0.name);
            if m0.name != m1.name {
                discs.push(Disc::new(format!("config|{lab}|module-name"), ctx.clone()));
                continue;
            }
            // ---- split items
            let split = |m: &ModProj| -> (Vec<String>, Vec<Item>, Vec<Item>) {
                let mut uses = vec![];
                let mut froms = vec![];
                let mut rest = vec![];
                for it in &m.items {
                    match it {
                        Item::Use { text } => uses.push(text.clone()),
                        Item::Impl { trait_: Some(t), .. } if t.starts_with("From<") => froms.push(it.clone()),
                        // the Default trait is the same item under its std and its core path (no_std bindings have to use the latter)
                        Item::Impl { self_ty, trait_: Some(t), text } if t == "core::default::Default" => rest.push(Item::Impl { self_ty: self_ty.clone(), trait_: Some("std::default::Default".into()), text: text.replacen("core::default::Default", "std::default::Default", 1) }),
                        other => rest.push(other.clone()),
                    }
                }
                (uses, froms, rest)
            };
            let (u0, f0, r0) = split(m0);
            let (u1, f1, r1) = split(m1);
            // ---- use lines
            let mut exp_uses: Vec<String> = vec![];
            for u in &u0 {
                let mut u = u.clone();
                if c.cfg.no_std && u == "std::sync::LazyLock" {
                    u = "lazy_static::lazy_static".into();
                }
                if c.cfg.wildcard && u.starts_with("super::") {
                    if let Some(i) = u.find("::{") {
                        u = format!("{}::{{*}}", &u[..i]);
                    }
                }
                exp_uses.push(u);
            }
            // custom imports come right after the prelude, before the module imports; only the multiset is documented
            let mut exp_sorted = exp_uses.clone();
            exp_sorted.extend(c.cfg.custom_imports.iter().map(|s| strip_ws(s).replace("asAllocString", " as AllocString").replace(" as ", "as")));
            let norm_use = |s: &String| s.replace(" as ", "as");
            let mut got_sorted: Vec<String> = u1.iter().map(norm_use).collect();
            let mut exp_sorted: Vec<String> = exp_sorted.iter().map(norm_use).collect();
            exp_sorted.sort();
            got_sorted.sort();
            if exp_sorted != got_sorted {
                discs.push(Disc::new(format!("config|{lab}|use-lines"), format!("expected use lines {exp_sorted:?}\ngot {got_sorted:?}\n{ctx}")));
            }
            // ---- From impls
            if !f0.is_empty() {
                discs.push(Disc::new("config|default|from-impls-present".to_string(), ctx.clone()));
            }
            let mut exp_from: Vec<String> = vec![];
            if c.cfg.from_impls {
                for it in &r0 {
                    if let Item::Enum { name, attrs, variants } = it {
                        if attrs.rasn.has("choice") {
                            let mut count: BTreeMap<String, usize> = BTreeMap::new();
                            for v in variants {
                                *count.entry(v.payload.clone().unwrap_or_default()).or_default() += 1;
                            }
                            for v in variants {
                                let p = v.payload.clone().unwrap_or_default();
                                if count[&p] == 1 {
                                    exp_from.push(format!("impl From<{p}> for {name}"));
                                }
                            }
                        }
                    }
                }
            }
            let mut got_from: Vec<String> = f1.iter().map(|i| i.name().replace("impl  ", "impl ")).collect();
            let mut exp_from_s = exp_from.clone();
            exp_from_s.sort();
            got_from.sort();
            if exp_from_s != got_from {
                // classify: same number of impls, and every unexpected one wraps a hoisted collection newtype's element
                let missing: Vec<&String> = exp_from_s.iter().filter(|e| !got_from.contains(e)).collect();
                let extra: Vec<&String> = got_from.iter().filter(|e| !exp_from_s.contains(e)).collect();
                let of_hoisted = missing.len() == extra.len() && !extra.is_empty() && extra.iter().all(|e| e.contains("From<SequenceOf<") || e.contains("From<SetOf<"));
                let key = if of_hoisted { "config|from-impls|payload-is-hoisted-collection|impl-for-unwrapped-collection".to_string() } else { format!("config|{lab}|from-impls") };
                discs.push(Disc::new(key, format!("expected {exp_from_s:?}\ngot {got_from:?}\n{ctx}")));
            }
            // each From impl must construct the right variant
            for it in &f1 {
                if let Item::Impl { self_ty, trait_: Some(t), text } = it {
                    let payload = t.trim_start_matches("From<").trim_end_matches('>');
                    let ok = r0.iter().any(|e| match e {
                        Item::Enum { name, variants, .. } if name == self_ty => variants.iter().any(|v| v.payload.as_deref() == Some(payload) && text.contains(&format!("Self::{}(value)", v.name))),
                        _ => false,
                    });
                    if !ok && exp_from.iter().any(|e| e == &format!("impl From<{payload}> for {self_ty}")) {
                        discs.push(Disc::new(format!("config|{lab}|from-impl-body"), format!("{text}\n{ctx}")));
                    }
                }
            }
            // ---- everything else, item by item
            if r0.len() != r1.len() {
                let n0: Vec<String> = r0.iter().map(|i| i.name()).collect();
                let n1: Vec<String> = r1.iter().map(|i| i.name()).collect();
                discs.push(Disc::new(format!("config|{lab}|item-count"), format!("{n0:?}\nvs\n{n1:?}\n{ctx}")));
                continue;
            }
            for (a, b) in r0.iter().zip(r1.iter()) {
                let mut a2 = a.clone();
                let mut b2 = b.clone();
                // lazy statics
                if let (Item::Static { lazy: la, .. }, Item::Static { lazy: lb, .. }) = (&mut a2, &mut b2) {
                    let want = if c.cfg.no_std { "lazy_static" } else { "LazyLock" };
                    if la == "LazyLock" && lb != want {
                        discs.push(Disc::new(format!("config|{lab}|static|lazy-kind"), format!("{} is {lb}\n{ctx}", a.name())));
                    }
                    *la = String::new();
                    *lb = String::new();
                }
                // attribute lists
                let mut check_attrs = |x: &mut Attrs, y: &mut Attrs, what: &str, discs: &mut Vec<Disc>| {
                    if c.cfg.type_annotations.is_some() {
                        let had_copy = x.derives.iter().any(|d| d == "Copy");
                        for r in REQUIRED {
                            let n = y.derives.iter().filter(|d| d.as_str() == r).count();
                            if n != 1 {
                                discs.push(Disc::new(format!("config|{lab}|derive|required-{}", if n == 0 { "missing" } else { "duplicated" }), format!("{what}: derive {r} occurs {n} times: {:?}\n{ctx}", y.derives)));
                            }
                        }
                        for u in &user_derives {
                            let n = y.derives.iter().filter(|d| *d == u).count();
                            if n != 1 {
                                discs.push(Disc::new(format!("config|{lab}|derive|user-{}", if n == 0 { "missing" } else { "duplicated" }), format!("{what}: user derive {u} occurs {n} times: {:?}\n{ctx}", y.derives)));
                            }
                        }
                        let has_copy = y.derives.iter().any(|d| d == "Copy");
                        if had_copy != has_copy {
                            discs.push(Disc::new(format!("config|{lab}|derive|copy"), format!("{what}: Copy {had_copy} -> {has_copy}\n{ctx}")));
                        }
                        for d in &y.derives {
                            if !REQUIRED.contains(&d.as_str()) && !user_derives.contains(d) && d != "Copy" {
                                discs.push(Disc::new(format!("config|{lab}|derive|unexpected"), format!("{what}: unexpected derive {d}\n{ctx}")));
                            }
                        }
                        let mut yo = y.other.clone();
                        let mut uo = user_other.clone();
                        yo.sort();
                        uo.sort();
                        if yo != uo {
                            discs.push(Disc::new(format!("config|{lab}|attributes"), format!("{what}: attributes {yo:?}, configured {uo:?}\n{ctx}")));
                        }
                        x.derives.clear();
                        y.derives.clear();
                        x.other.clear();
                        y.other.clear();
                    }
                };
                match (&mut a2, &mut b2) {
                    (Item::Struct { attrs: x, name, .. }, Item::Struct { attrs: y, .. }) => {
                        let n = name.clone();
                        check_attrs(x, y, &format!("struct {n}"), &mut discs)
                    }
                    (Item::Enum { attrs: x, name, .. }, Item::Enum { attrs: y, .. }) => {
                        let n = name.clone();
                        check_attrs(x, y, &format!("enum {n}"), &mut discs)
                    }
                    _ => {}
                }
                if a2 != b2 {
                    discs.push(Disc::new(format!("config|{lab}|{}|leak", a.kind()), format!("item {} differs between configurations:\n{a2:?}\nvs\n{b2:?}\n{ctx}", a.name())));
                }
            }
        }
        CaseResult { discs, nontrivial: true, outcome: format!("cmp:{lab}"), skipped: None }
    }
}
