pub mod c04;
pub mod c06;
pub mod c14;
