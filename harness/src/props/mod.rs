pub mod c14;
