use crate::driver::{run, Opts};
macro_rules! props {
    ($($m:ident : $t:ident : $id:literal),* $(,)?) => {
        $(pub mod $m;)*
        pub fn dispatch(id: &str, opts: &Opts) -> Option<i32> {
            match id {
                $($id => Some(run(&$m::$t, opts)),)*
                _ => None,
            }
        }
    };
}
props! {
    c01: C01: "C01",
    c02: C02: "C02",
    c03: C03: "C03",
    c04: C04: "C04",
    c05: C05: "C05",
    c06: C06: "C06",
    c07: C07: "C07",
    c08: C08: "C08",
    c09: C09: "C09",
    c10: C10: "C10",
    c11: C11: "C11",
    c12: C12: "C12",
    c13: C13: "C13",
    c14: C14: "C14",
    c15: C15: "C15",
    c16: C16: "C16",
    c17: C17: "C17",
    c18: C18: "C18",
    c19: C19: "C19",
    c20: C20: "C20",
}
