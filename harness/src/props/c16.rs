//! C16 — generated identifiers are legal and keep the ASN.1 name recoverable.
use crate::common::*;
use crate::driver::*;
use crate::proj::*;
use serde::{Deserialize, Serialize};

pub struct C16;

#[derive(Clone, Serialize, Deserialize)]
pub struct Case {
    /// module | type | component | alternative | enumeral | value | namednumber | pair
    pub role: String,
    pub name: String,
    /// second name for `pair` cases (used in a different role)
    #[serde(default)]
    pub other: Option<String>,
    #[serde(default)]
    pub ts: bool,
}

pub const STRICT: [&str; 39] = [
    "as", "break", "const", "continue", "crate", "else", "enum", "extern", "false", "fn", "for", "if", "impl", "in", "let", "loop", "match", "mod", "move", "mut", "pub", "ref", "return", "self", "Self", "static", "struct", "super", "trait", "true", "type", "unsafe", "use", "where", "while", "async", "await", "dyn", "_",
];
pub const RESERVED: [&str; 13] = ["abstract", "become", "box", "do", "final", "macro", "override", "priv", "typeof", "unsized", "virtual", "yield", "try"];
pub const WEAK: [&str; 6] = ["union", "macro_rules", "gen", "raw", "safe", "auto"];

pub fn is_keyword(s: &str) -> bool {
    STRICT.contains(&s) || RESERVED.contains(&s)
}

fn legal_asn(name: &str, upper_first: bool) -> bool {
    let cs: Vec<char> = name.chars().collect();
    if cs.is_empty() {
        return false;
    }
    if upper_first != cs[0].is_ascii_uppercase() || !cs[0].is_ascii_alphabetic() {
        return false;
    }
    if *cs.last().unwrap() == '-' {
        return false;
    }
    for w in cs.windows(2) {
        if w[0] == '-' && w[1] == '-' {
            return false;
        }
    }
    cs.iter().all(|c| c.is_ascii_alphanumeric() || *c == '-')
}

/// ASN.1 reserved words must not be used as references / identifiers
const ASN_RESERVED: [&str; 27] = ["MACRO", "ABSENT", "ALL", "ANY", "BEGIN", "BIT", "BY", "CLASS", "END", "FROM", "MAX", "MIN", "NULL", "OF", "PDV", "REAL", "SET", "SIZE", "TAGS", "TRUE", "WITH", "FALSE", "UNION", "DATE", "TIME", "OCTET", "OBJECT"];

fn alnum_seq(s: &str) -> String {
    s.chars().filter(|c| c.is_ascii_alphanumeric()).map(|c| c.to_ascii_lowercase()).collect()
}

pub fn text(c: &Case) -> String {
    let n = &c.name;
    match c.role.as_str() {
        "module" => format!("{n} DEFINITIONS AUTOMATIC TAGS ::= BEGIN\nA ::= BOOLEAN\nEND\n"),
        "type" => module("M", "AUTOMATIC", false, &format!("{n} ::= SEQUENCE {{ x BOOLEAN }}\nUser ::= SEQUENCE {{ f {n}, g SEQUENCE OF {n} }}")),
        "typekind" => {
            // the same name defined as every other kind of type (each kind has its own generator function)
            let body = c.other.clone().unwrap_or_default();
            let pre = if body == "Other" { "Other ::= BOOLEAN\n" } else { "" };
            module("M", "AUTOMATIC", false, &format!("{pre}{n} ::= {body}\nUser ::= SEQUENCE {{ f {n}, g SEQUENCE OF {n} }}"))
        }
        "component" => module("M", "AUTOMATIC", false, &format!("S ::= SEQUENCE {{ {n} BOOLEAN }}")),
        "alternative" => module("M", "AUTOMATIC", false, &format!("C ::= CHOICE {{ {n} BOOLEAN }}")),
        // the type of the component / alternative is a selection type: the name stays the component's own, whatever the
        // selected alternative is called
        "component-sel" => module("M", "AUTOMATIC", false, &format!("Sh ::= CHOICE {{ circle-r INTEGER, q NULL }}\nS ::= SEQUENCE {{ {n} circle-r < Sh }}")),
        "alternative-sel" => module("M", "AUTOMATIC", false, &format!("Sh ::= CHOICE {{ circle-r INTEGER, q NULL }}\nC ::= CHOICE {{ {n} circle-r < Sh }}")),
        // the name becomes part of the name of a type: a component / alternative with an anonymous constructed type
        "component-anon" => module("M", "AUTOMATIC", false, &format!("S ::= SEQUENCE {{ {n} SEQUENCE {{ a BOOLEAN }} }}")),
        "alternative-anon" => module("M", "AUTOMATIC", false, &format!("C ::= CHOICE {{ {n} SEQUENCE {{ a BOOLEAN }} }}")),
        "enumeral" => module("M", "AUTOMATIC", false, &format!("E ::= ENUMERATED {{ {n} }}")),
        "value" => module("M", "AUTOMATIC", false, &format!("{n} INTEGER ::= 5\nuser INTEGER ::= {n}")),
        "namednumber" => module("M", "AUTOMATIC", false, &format!("I ::= INTEGER {{ {n}(1) }}\nS ::= SEQUENCE {{ f I DEFAULT {n} }}")),
        "pair" => {
            let o = c.other.clone().unwrap_or_default();
            // type `name` and value/component `other` differing only by case or hyphen
            module("M", "AUTOMATIC", false, &format!("{n} ::= SEQUENCE {{ {o} BOOLEAN }}\n{o} INTEGER ::= 5\nE ::= ENUMERATED {{ {o} }}\nC ::= CHOICE {{ {o} {n} }}"))
        }
        _ => unreachable!(),
    }
}

struct Found {
    rust: String,
    identifier: Option<String>,
    has_identifier: bool,
}

fn check_name(role: &str, asn: &str, f: &Found, discs: &mut Vec<Disc>, ctx: &str) {
    let class: String = asn.chars().map(|c| if c.is_ascii_lowercase() { 'l' } else if c.is_ascii_uppercase() { 'U' } else if c.is_ascii_digit() { '9' } else { '-' }).collect();
    let kw = is_keyword(asn) || is_keyword(&asn.to_lowercase());
    let pat = if kw { format!("kw:{}", asn.to_lowercase()) } else { class.chars().take(4).collect::<String>() };
    let key = |kind: &str| format!("name|role={role}|pattern={pat}|kind={kind}");
    let rust = &f.rust;
    if is_keyword(rust) {
        discs.push(Disc::new(key("keyword"), format!("{ctx}: Rust identifier `{rust}` for ASN.1 name `{asn}` is a keyword")));
        return;
    }
    if rust.is_empty() || !(rust.chars().next().unwrap().is_ascii_alphabetic() || rust.starts_with('_')) || !rust.chars().all(|c| c.is_ascii_alphanumeric() || c == '_') {
        discs.push(Disc::new(key("illegal"), format!("{ctx}: `{rust}` is not a legal Rust identifier (ASN.1 `{asn}`)")));
        return;
    }
    // strip the keyword escape
    let body = rust.strip_prefix("r_").or_else(|| rust.strip_prefix("R_")).filter(|b| is_keyword(b) || is_keyword(&b.to_lowercase()) || WEAK.contains(b) || WEAK.contains(&b.to_lowercase().as_str())).unwrap_or(rust);
    // (an ASN.1 name may itself begin with `r-` + keyword: then nothing was escaped)
    let body = if alnum_seq(rust) == alnum_seq(asn) { rust.as_str() } else { body };
    if alnum_seq(body) != alnum_seq(asn) {
        discs.push(Disc::new(key("letters"), format!("{ctx}: `{rust}` does not keep the letters/digits of `{asn}`")));
    }
    let case_ok = match role {
        "module" | "component" => body.chars().all(|c| c.is_ascii_lowercase() || c.is_ascii_digit() || c == '_'),
        "value" => body.chars().all(|c| c.is_ascii_uppercase() || c.is_ascii_digit() || c == '_'),
        "type" => body.chars().next().map_or(false, |c| c.is_ascii_uppercase()) && !body.contains('_'),
        "alternative" | "enumeral" => body == asn.replace('-', "_"),
        _ => true,
    };
    if !case_ok {
        discs.push(Disc::new(key("case"), format!("{ctx}: `{rust}` violates the case rule of role {role} (ASN.1 `{asn}`)")));
    }
    if matches!(role, "type" | "component" | "alternative" | "enumeral") {
        if rust != asn {
            match &f.identifier {
                Some(i) if i == asn => {}
                Some(i) => discs.push(Disc::new(key("annotation-wrong"), format!("{ctx}: identifier annotation `{i}` != ASN.1 name `{asn}` (Rust `{rust}`)"))),
                None => discs.push(Disc::new(key("annotation-missing"), format!("{ctx}: Rust `{rust}` differs from ASN.1 `{asn}` but no identifier annotation"))),
            }
        } else if f.has_identifier && f.identifier.as_deref() != Some(asn) {
            discs.push(Disc::new(key("annotation-wrong"), format!("{ctx}: identifier annotation {:?} on unchanged name `{asn}`", f.identifier)));
        }
    }
}

fn attrs_found(rust: &str, a: &Attrs) -> Found {
    Found { rust: rust.to_string(), identifier: a.rasn.lit("identifier"), has_identifier: a.rasn.has("identifier") }
}

impl Prop for C16 {
    type Case = Case;
    fn id(&self) -> &'static str {
        "C16"
    }
    fn rule(&self) -> String {
        "(a) every legal ASN.1 name of length <= L (quick 4, thorough 6) over the class alphabet {a,z,A,Z,0,9,-} in each role {module, type (+ use as component/element type), component, alternative, component / alternative with an anonymous constructed type (the name becomes part of a type name), enumeral, value (+ use in another value), named number}; (b) every Rust strict/reserved/weak keyword in its ASN.1-legal spelling per role (capitalised for types/modules) plus hyphenated near-keywords; (b') names that look like the compiler's internal names after conversion (ext-group-x, extGroupX, Anonymous-A, Inner-A, r-type, R-Type); (c) type/identifier pairs differing only by case or hyphen used in different roles of one module; TypeScript backend for (a) at L<=3. Oracle: output parses (syn); identifier legal and not a Rust 2021 keyword; letter/digit sequence (minus r_/R_ escape) equals the ASN.1 name's; case class per role; Rust spelling != ASN.1 spelling ⇒ identifier annotation equal to the ASN.1 name; references use the same Rust spelling as the definition. Non-trivial: compiled cleanly and the identifier was located.".into()
    }
    fn enumerate(&self, tier: Tier, _seed: u64) -> Vec<Case> {
        let alpha = ['a', 'z', 'A', 'Z', '0', '9', '-'];
        let lmax = if tier.thorough() { 6 } else { 4 };
        let mut names: Vec<String> = vec![String::new()];
        let mut all: Vec<String> = vec![];
        for _ in 0..lmax {
            let mut next = vec![];
            for n in &names {
                for c in alpha {
                    if n.is_empty() && !c.is_ascii_alphabetic() {
                        continue;
                    }
                    if c == '-' && n.ends_with('-') {
                        continue;
                    }
                    let mut n2 = n.clone();
                    n2.push(c);
                    next.push(n2);
                }
            }
            all.extend(next.iter().filter(|n| !n.ends_with('-')).cloned());
            names = next;
        }
        let mut out = vec![];
        let upper_roles = ["module", "type"];
        let lower_roles = ["component", "alternative", "enumeral", "value", "namednumber", "component-anon", "alternative-anon"];
        for n in &all {
            if ASN_RESERVED.contains(&n.as_str()) {
                continue;
            }
            if legal_asn(n, true) {
                for r in upper_roles {
                    out.push(Case { role: r.into(), name: n.clone(), other: None, ts: false });
                }
            }
            if legal_asn(n, false) {
                for r in lower_roles {
                    out.push(Case { role: r.into(), name: n.clone(), other: None, ts: false });
                }
            }
        }
        // keywords
        let mut kws: Vec<String> = vec![];
        for k in STRICT.iter().chain(RESERVED.iter()).chain(WEAK.iter()) {
            if *k == "_" {
                continue;
            }
            kws.push(k.to_string());
        }
        for k in &kws {
            let lower = k.to_lowercase().replace('_', "-");
            let mut cap = lower.clone();
            if let Some(f) = cap.get_mut(0..1) {
                f.make_ascii_uppercase();
            }
            let upper = lower.to_uppercase();
            for n in [lower.clone(), format!("{lower}-x"), format!("x-{lower}")] {
                if legal_asn(&n, false) {
                    for r in lower_roles {
                        out.push(Case { role: r.into(), name: n.clone(), other: None, ts: false });
                    }
                }
            }
            // mixed-case identifiers that lower-case to a keyword after snake-casing cannot exist (a `_` is inserted),
            // but all-lower + digits can: e.g. "type" only.  Upper-first spellings for type/module roles:
            for n in [cap.clone(), upper.clone(), format!("{cap}-X"), k.to_string()] {
                if legal_asn(&n, true) && !ASN_RESERVED.contains(&n.as_str()) {
                    for r in upper_roles {
                        out.push(Case { role: r.into(), name: n.clone(), other: None, ts: false });
                    }
                }
            }
        }
        // names that, once converted, look like the compiler's own internal names (extension groups `ext_group_..`, hoisted
        // `Anonymous..` / `Inner..` types, the keyword escape `r_..` / `R_..`): they are ordinary names and keep their annotation
        for n in ["ext-group-id", "extGroupName", "ext-group", "extGroup", "anonymous-a", "anonymousItem", "inner-a", "r-type", "r-a", "rType"] {
            for r in lower_roles {
                out.push(Case { role: r.into(), name: n.to_string(), other: None, ts: false });
            }
        }
        for n in ["my-radius", "r", "type", "a-b", "circleR", "q"] {
            for r in ["component-sel", "alternative-sel"] {
                out.push(Case { role: r.into(), name: n.to_string(), other: None, ts: false });
            }
        }
        for n in ["Anonymous-A", "AnonymousA", "Inner-A", "InnerA", "Ext-Group-A", "R-Type", "RType", "R-A"] {
            for r in upper_roles {
                out.push(Case { role: r.into(), name: n.to_string(), other: None, ts: false });
            }
        }
        // pairs differing only by case or hyphen in different roles
        for (t, o) in [("Ab", "ab"), ("AB", "aB"), ("A-b", "a-b"), ("Ab", "a-b"), ("A-B", "a-B"), ("Type", "type"), ("Self", "self"), ("A9", "a9"), ("A-9", "a9"), ("Az", "aZ")] {
            out.push(Case { role: "pair".into(), name: t.into(), other: Some(o.into()), ts: false });
        }
        // every kind of type assignment under short names and keyword-like names
        let kinds = ["SET { x BOOLEAN }", "CHOICE { x BOOLEAN }", "ENUMERATED { x }", "SEQUENCE OF BOOLEAN", "SET OF BOOLEAN", "SEQUENCE (SIZE (1..2)) OF INTEGER", "INTEGER", "INTEGER (0..5)", "BOOLEAN", "NULL", "OCTET STRING", "BIT STRING", "IA5String", "UTF8String (SIZE (1..3))", "OBJECT IDENTIFIER", "GeneralizedTime", "UTCTime", "Other", "[5] BOOLEAN"];
        let mut tk_names: Vec<String> = all.iter().filter(|n| n.len() <= 3 && legal_asn(n, true) && !ASN_RESERVED.contains(&n.as_str())).cloned().collect();
        for k in &kws {
            let lower = k.to_lowercase().replace('_', "-");
            let mut cap = lower.clone();
            if let Some(f) = cap.get_mut(0..1) {
                f.make_ascii_uppercase();
            }
            for n in [cap.clone(), format!("{cap}-X"), k.to_string()] {
                if legal_asn(&n, true) && !ASN_RESERVED.contains(&n.as_str()) && (tier.thorough() || STRICT.contains(&k.as_str()) || n.contains('-')) {
                    tk_names.push(n);
                }
            }
        }
        tk_names.sort();
        tk_names.dedup();
        for n in &tk_names {
            for k in kinds {
                out.push(Case { role: "typekind".into(), name: n.clone(), other: Some(k.to_string()), ts: false });
            }
        }
        // TypeScript: hyphen -> underscore only
        for n in all.iter().filter(|n| n.len() <= 3) {
            if legal_asn(n, true) && !ASN_RESERVED.contains(&n.as_str()) {
                out.push(Case { role: "type".into(), name: n.clone(), other: None, ts: true });
            }
            if legal_asn(n, false) {
                out.push(Case { role: "component".into(), name: n.clone(), other: None, ts: true });
            }
        }
        out
    }
    fn check(&self, c: &Case) -> CaseResult {
        let src = text(c);
        let o = if c.ts { compile_ts(&[src.clone()]) } else { compile1(&src) };
        let class: String = c.name.chars().map(|ch| if ch.is_ascii_lowercase() { 'l' } else if ch.is_ascii_uppercase() { 'U' } else if ch.is_ascii_digit() { '9' } else { '-' }).take(4).collect();
        let gen = match &o {
            Outcome::Ok { generated, warnings } if warnings.is_empty() => generated.clone(),
            Outcome::Panic { message, location } => {
                let kw = is_keyword(&c.name) || is_keyword(&c.name.to_lowercase());
                return CaseResult { discs: vec![Disc::new(format!("name|role={}|pattern={}|kind=panic|{location}", c.role, if kw { format!("kw:{}", c.name.to_lowercase()) } else { class }), format!("{message}\n{src}"))], nontrivial: false, outcome: "panic".into(), skipped: None };
            }
            other => {
                return CaseResult { discs: vec![Disc::new(format!("name|role={}|pattern={class}|kind=rejected:{}", c.role, other.class()), format!("legal name not compiled cleanly: {}\n{src}", other.brief()))], nontrivial: false, outcome: other.class().into(), skipped: None };
            }
        };
        let mut discs = vec![];
        if c.ts {
            // hyphen -> underscore only; name must appear as declared identifier
            let want = c.name.replace('-', "_");
            let found = if c.role == "type" { gen.contains(&format!("export type {want} ")) || gen.contains(&format!("export type {want}=")) || gen.contains(&format!("export interface {want} ")) } else { gen.contains(&format!("{want}:")) || gen.contains(&format!("\"{want}\":")) || gen.contains(&format!("{want} :")) };
            if !found {
                discs.push(Disc::new(format!("name|ts|role={}|pattern={class}|kind=missing", c.role), format!("expected TypeScript identifier `{want}`\n{src}\n{gen}")));
            }
            return CaseResult { discs, nontrivial: true, outcome: format!("ok:ts:{}", c.role), skipped: None };
        }
        let p = match project(&gen) {
            Ok(p) => p,
            Err(e) => {
                let kw = is_keyword(&c.name) || is_keyword(&c.name.to_lowercase());
                return CaseResult { discs: vec![Disc::new(format!("name|role={}|pattern={}|kind=unparsable", c.role, if kw { format!("kw:{}", c.name.to_lowercase()) } else { class }), format!("{e}\n{src}\n{gen}"))], nontrivial: false, outcome: "unparsable".into(), skipped: None };
            }
        };
        // identifiers are also spelled in the items the backend options add (From impls of CHOICE alternatives)
        if matches!(c.role.as_str(), "alternative" | "pair") || (c.role == "typekind" && c.other.as_deref().map_or(false, |k| k.starts_with("CHOICE"))) {
            let cfg = Cfg { from_impls: true, ..Cfg::default() };
            if let Outcome::Ok { generated, .. } = compile_rasn(&[src.clone()], &cfg) {
                let kw = is_keyword(&c.name) || is_keyword(&c.name.to_lowercase());
                let pat = if kw { format!("kw:{}", c.name.to_lowercase()) } else { class.clone() };
                match syn::parse_file(&generated) {
                    Err(e) => discs.push(Disc::new(format!("name|role={}|pattern={pat}|kind=unparsable|cfg=from-impls", c.role), format!("{e}\n{src}\n{generated}"))),
                    Ok(f) => {
                        // every `Self::<x>(value)` inside an impl From names a variant of the enum it is implemented for
                        struct V {
                            variants: std::collections::BTreeMap<String, Vec<String>>,
                            bad: Vec<String>,
                            cur: Option<String>,
                        }
                        impl<'a> syn::visit::Visit<'a> for V {
                            fn visit_item_enum(&mut self, e: &'a syn::ItemEnum) {
                                self.variants.insert(e.ident.to_string(), e.variants.iter().map(|v| v.ident.to_string()).collect());
                            }
                            fn visit_item_impl(&mut self, i: &'a syn::ItemImpl) {
                                if let (Some((_, tr, _)), syn::Type::Path(tp)) = (&i.trait_, &*i.self_ty) {
                                    if tr.segments.last().map_or(false, |s| s.ident == "From") {
                                        self.cur = tp.path.segments.last().map(|s| s.ident.to_string());
                                        syn::visit::visit_item_impl(self, i);
                                        self.cur = None;
                                    }
                                }
                            }
                            fn visit_expr_path(&mut self, p: &'a syn::ExprPath) {
                                if let Some(cur) = &self.cur {
                                    let segs: Vec<String> = p.path.segments.iter().map(|s| s.ident.to_string()).collect();
                                    if segs.len() == 2 && segs[0] == "Self" {
                                        if let Some(vs) = self.variants.get(cur) {
                                            if !vs.contains(&segs[1]) {
                                                self.bad.push(format!("{cur}::{}", segs[1]));
                                            }
                                        }
                                    }
                                }
                            }
                        }
                        let mut v = V { variants: Default::default(), bad: vec![], cur: None };
                        // enums first, then impls
                        for it in f.items.iter().flat_map(|it| if let syn::Item::Mod(m) = it { m.content.as_ref().map(|c| c.1.clone()).unwrap_or_default() } else { vec![] }) {
                            if let syn::Item::Enum(e) = &it {
                                syn::visit::Visit::visit_item_enum(&mut v, e);
                            }
                        }
                        syn::visit::Visit::visit_file(&mut v, &f);
                        if !v.bad.is_empty() {
                            discs.push(Disc::new(format!("name|role={}|pattern={pat}|kind=from-impl-variant|cfg=from-impls", c.role), format!("From impls construct undeclared variants {:?}\n{src}\n{generated}", v.bad)));
                        }
                    }
                }
            }
        }
        let m = match p.only() {
            Some(m) => m,
            None => return CaseResult::skip("no-module"),
        };
        let ctx = format!("{src}\n--- generated ---\n{gen}");
        let mut located = true;
        let field_of = |item: &str| -> Option<Found> {
            match m.find(item)? {
                Item::Struct { fields, .. } if fields.len() == 1 => Some(attrs_found(&fields[0].name, &fields[0].attrs)),
                Item::Enum { variants, .. } if variants.len() == 1 => Some(attrs_found(&variants[0].name, &variants[0].attrs)),
                _ => None,
            }
        };
        match c.role.trim_end_matches("-sel") {
            "module" => check_name("module", &c.name, &Found { rust: m.name.clone(), identifier: None, has_identifier: false }, &mut discs, &ctx),
            "type" | "typekind" => {
                // the item that is not `User`
                let cand: Vec<&Item> = m.types().into_iter().filter(|i| i.name() != "User" && !(c.role == "typekind" && ((i.name() == "Other" && c.name != "Other") || i.name().starts_with("Anonymous")))).collect();
                let class = if c.role == "typekind" { format!("{class}|as={}", c.other.clone().unwrap_or_default().split(|ch: char| ch == '{' || ch == '(').next().unwrap_or("").trim().replace(' ', "-")) } else { class.clone() };
                if cand.len() != 1 {
                    located = false;
                    discs.push(Disc::new(format!("name|role=type|pattern={class}|kind=missing-item"), ctx.clone()));
                } else {
                    let it = cand[0];
                    let f = attrs_found(&it.name(), it.attrs().unwrap());
                    check_name("type", &c.name, &f, &mut discs, &ctx);
                    // references use the same spelling
                    if let Some(Item::Struct { fields, .. }) = m.find("User") {
                        let want_f = f.rust.clone();
                        let ok = fields.len() == 2 && fields[0].ty == want_f && fields[1].ty == format!("SequenceOf<{want_f}>");
                        if !ok {
                            discs.push(Disc::new(format!("name|role=type|pattern={class}|kind=reference-spelling"), format!("references to `{}` are spelled {:?}\n{ctx}", f.rust, fields.iter().map(|f| f.ty.clone()).collect::<Vec<_>>())));
                        }
                    } else {
                        discs.push(Disc::new(format!("name|role=type|pattern={class}|kind=missing-user"), ctx.clone()));
                    }
                }
            }
            "component" => match field_of("S") {
                Some(f) => check_name("component", &c.name, &f, &mut discs, &ctx),
                None => {
                    located = false;
                    discs.push(Disc::new(format!("name|role=component|pattern={class}|kind=missing-item"), ctx.clone()))
                }
            },
            "component-anon" | "alternative-anon" => {
                let (item, role) = if c.role == "component-anon" { ("S", "component") } else { ("C", "alternative") };
                let kw = is_keyword(&c.name) || is_keyword(&c.name.to_lowercase());
                let pat = if kw { format!("kw:{}", c.name.to_lowercase()) } else { class.clone() };
                let (f, ty) = match m.find(item) {
                    Some(Item::Struct { fields, .. }) if fields.len() == 1 => (Some(attrs_found(&fields[0].name, &fields[0].attrs)), Some(fields[0].ty.clone())),
                    Some(Item::Enum { variants, .. }) if variants.len() == 1 => (Some(attrs_found(&variants[0].name, &variants[0].attrs)), variants[0].payload.clone()),
                    _ => (None, None),
                };
                match (f, ty) {
                    (Some(f), Some(ty)) => {
                        check_name(role, &c.name, &f, &mut discs, &ctx);
                        // the anonymous type is declared under exactly the name it is referred to by, and that name is legal
                        let legal = ty.chars().next().map_or(false, |ch| ch.is_ascii_alphabetic()) && ty.chars().all(|ch| ch.is_ascii_alphanumeric() || ch == '_') && !is_keyword(&ty);
                        if !legal {
                            discs.push(Disc::new(format!("name|role={}|pattern={pat}|kind=illegal", c.role), format!("type `{ty}` of `{}`\n{ctx}", c.name)));
                        } else if m.find(&ty).is_none() {
                            discs.push(Disc::new(format!("name|role={}|pattern={pat}|kind=reference-spelling", c.role), format!("`{}` has the type `{ty}`, which is declared nowhere (declared: {:?})\n{ctx}", c.name, m.types().iter().map(|i| i.name()).collect::<Vec<_>>())));
                        }
                    }
                    _ => {
                        located = false;
                        discs.push(Disc::new(format!("name|role={}|pattern={class}|kind=missing-item", c.role), ctx.clone()))
                    }
                }
            }
            "alternative" => match field_of("C") {
                Some(f) => check_name("alternative", &c.name, &f, &mut discs, &ctx),
                None => {
                    located = false;
                    discs.push(Disc::new(format!("name|role=alternative|pattern={class}|kind=missing-item"), ctx.clone()))
                }
            },
            "enumeral" => match field_of("E") {
                Some(f) => check_name("enumeral", &c.name, &f, &mut discs, &ctx),
                None => {
                    located = false;
                    discs.push(Disc::new(format!("name|role=enumeral|pattern={class}|kind=missing-item"), ctx.clone()))
                }
            },
            "value" => {
                let vals: Vec<(String, String)> = m.items.iter().filter_map(|i| match i { Item::Const { name, init, .. } => Some((name.clone(), init.clone())), Item::Static { name, init, .. } => Some((name.clone(), init.clone())), _ => None }).collect();
                let main: Vec<&(String, String)> = vals.iter().filter(|(n, _)| n != "USER").collect();
                if main.len() != 1 {
                    located = false;
                    discs.push(Disc::new(format!("name|role=value|pattern={class}|kind=missing-item"), ctx.clone()));
                } else {
                    check_name("value", &c.name, &Found { rust: main[0].0.clone(), identifier: None, has_identifier: false }, &mut discs, &ctx);
                }
            }
            "namednumber" => {
                // named numbers are not emitted; every identifier that is emitted must still be legal
            }
            "pair" => {
                let o = c.other.clone().unwrap();
                let t: Vec<&Item> = m.types().into_iter().filter(|i| !matches!(i.name().as_str(), "E" | "C")).collect();
                if t.len() == 1 {
                    let f = attrs_found(&t[0].name(), t[0].attrs().unwrap());
                    check_name("type", &c.name, &f, &mut discs, &ctx);
                    if let Item::Struct { fields, .. } = t[0] {
                        if fields.len() == 1 {
                            check_name("component", &o, &attrs_found(&fields[0].name, &fields[0].attrs), &mut discs, &ctx);
                        }
                    }
                    if let Some(fo) = field_of("E") {
                        check_name("enumeral", &o, &fo, &mut discs, &ctx);
                    }
                    if let Some(Item::Enum { variants, .. }) = m.find("C") {
                        if variants.len() == 1 {
                            check_name("alternative", &o, &attrs_found(&variants[0].name, &variants[0].attrs), &mut discs, &ctx);
                            if variants[0].payload.as_deref() != Some(f.rust.as_str()) {
                                discs.push(Disc::new("name|role=pair|kind=reference-spelling", ctx.clone()));
                            }
                        }
                    }
                } else {
                    located = false;
                    discs.push(Disc::new("name|role=pair|kind=missing-item", ctx.clone()));
                }
            }
            _ => unreachable!(),
        }
        // global: no identifier anywhere in the output is a keyword used as a plain identifier is guaranteed by syn parsing;
        // additionally all fn names (default fns, impls) must be legal: covered by parse.
        CaseResult { discs, nontrivial: located, outcome: format!("ok:{}", c.role), skipped: None }
    }
}
