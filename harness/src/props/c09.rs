//! C09 — notations defined by expansion compile like their hand-expanded form.
use crate::common::*;
use crate::driver::*;
use crate::proj::*;
use serde::{Deserialize, Serialize};

pub struct C09;

#[derive(Clone, Serialize, Deserialize)]
pub struct Case {
    /// valref | named-number | components-of | parameterized | selection | class-field
    pub sugar: String,
    pub label: String,
    /// definitions of the sugared module (order = textual order)
    pub sugared: Vec<String>,
    /// definitions of the hand-expanded module
    pub expanded: Vec<String>,
    /// names of the top-level types whose bindings must coincide
    pub targets: Vec<String>,
    pub tagdef: String,
    /// the definitions the targets use live in a second module `Lib` and are imported
    #[serde(default)]
    pub split: bool,
}

/// name of the assignment `def` (first word, without a parameter list)
fn def_name(def: &str) -> String {
    def.split(|c: char| c.is_whitespace() || c == '{').next().unwrap_or("").to_string()
}

/// source texts of the sugared side
fn sugared_sources(c: &Case) -> Vec<String> {
    if !c.split {
        return vec![module("M", &c.tagdef, false, &c.sugared.join("\n"))];
    }
    let (own, lib): (Vec<&String>, Vec<&String>) = c.sugared.iter().partition(|d| c.targets.contains(&def_name(d)));
    let names: Vec<String> = lib.iter().map(|d| def_name(d)).collect();
    let tags = match c.tagdef.as_str() {
        "" => String::new(),
        t => format!("{t} TAGS"),
    };
    vec![
        format!("M DEFINITIONS {tags} ::= BEGIN\nIMPORTS {} FROM Lib;\n{}\nEND\n", names.join(", "), own.iter().map(|s| s.as_str()).collect::<Vec<_>>().join("\n")),
        module("Lib", &c.tagdef, false, &lib.iter().map(|s| s.as_str()).collect::<Vec<_>>().join("\n")),
    ]
}

fn perms<T: Clone>(v: &[T]) -> Vec<Vec<T>> {
    if v.len() <= 1 {
        return vec![v.to_vec()];
    }
    let mut out = vec![];
    for i in 0..v.len() {
        let mut rest = v.to_vec();
        let x = rest.remove(i);
        for mut p in perms(&rest) {
            p.insert(0, x.clone());
            out.push(p);
        }
    }
    out
}

fn title(s: &str) -> String {
    let mut out = String::new();
    let mut up = false;
    for c in s.chars() {
        if c == '-' {
            up = true;
        } else if up {
            out.push(c.to_ascii_uppercase());
            up = false;
        } else {
            out.push(c);
        }
    }
    out
}

impl Prop for C09 {
    type Case = Case;
    fn id(&self) -> &'static str {
        "C09"
    }
    fn rule(&self) -> String {
        "pairs (sugared module, hand-expanded module) built by the model: (a) value references through chains of 1..4 references (also chains of 1..3 references whose last link is written as a named number of the governing type, X.680 19.10) and named numbers of a referenced type as constraint endpoints of type assignments and components; (b) COMPONENTS OF at every position of a component list of length <=3, with/without an extension marker in the referencing and in the referenced type, two levels deep, SEQUENCE and SET; (c) parameterized types with 1..3 type/value parameters instantiated 1..3 times; (d) selection of every alternative of a 1..3-alternative CHOICE; (e) a fixed-type field of an object class (INTEGER, BOOLEAN, constrained OCTET STRING, type reference); further forms: value references as string / bit-string sizes, in alternatives, OF elements, nested components and extensible ranges; parameterized SEQUENCE OF, parameter used twice with a constrained argument, value parameters as SIZE and as both range ends, inline constructed and reference arguments, instantiation as a component; selection of alternatives whose type is a reference, tagged, or SEQUENCE OF reference; combinations in which an expansion step (selection, COMPONENTS OF, instantiation, class field) copies a constraint that itself contains a value reference or named number, with both names drawn from both pools; each also with the referenced definitions in a second module and imported; every pair × every assignment of the names involved to the pools {sorts-before, sorts-after} relative to the referencing name × every textual order of the (<=4) assignments (quick: rotations and reversal) × tagging default {AUTOMATIC, EXPLICIT}. Oracle: differential — Ok/Err class and warning count agree and the syn projection (minus docs) of every target type and of the anonymous items it hoists is identical. Non-trivial: both modules compiled and were compared.".into()
    }
    fn enumerate(&self, tier: Tier, _seed: u64) -> Vec<Case> {
        let mut out: Vec<Case> = vec![];
        let mut push = |sugar: &str, label: String, sugared: Vec<String>, expanded: Vec<String>, targets: Vec<&str>| {
            let orders: Vec<Vec<String>> = if sugared.len() <= 4 && tier.thorough() {
                perms(&sugared)
            } else {
                let mut v = vec![sugared.clone(), sugared.iter().rev().cloned().collect()];
                for r in 1..sugared.len() {
                    let mut x = sugared.clone();
                    x.rotate_left(r);
                    v.push(x);
                }
                v
            };
            for tagdef in ["AUTOMATIC", "EXPLICIT"] {
                for (k, o) in orders.iter().enumerate() {
                    out.push(Case { sugar: sugar.into(), label: format!("{label}|order={}", if k == 0 { "as-written" } else if k == 1 { "reversed" } else { "other" }), sugared: o.clone(), expanded: expanded.clone(), targets: targets.iter().map(|s| s.to_string()).collect(), tagdef: tagdef.into(), split: false });
                    // the same with the referenced definitions in a module of their own (as written and reversed only)
                    if k <= 1 && sugared.len() > targets.len() {
                        out.push(Case { sugar: sugar.into(), label: format!("{label}|imported|order={}", if k == 0 { "as-written" } else { "reversed" }), sugared: o.clone(), expanded: expanded.clone(), targets: targets.iter().map(|s| s.to_string()).collect(), tagdef: tagdef.into(), split: true });
                    }
                }
            }
        };
        // ---- (a) value references, chains 1..4, names sorting before/after
        for chain in 1..=4usize {
            for pool in ["a", "z"] {
                // v1 is the literal holder, v<chain> is the one used
                let names: Vec<String> = (1..=chain).map(|i| format!("{pool}{pool}val{i}")).collect();
                let mut defs = vec![format!("{} INTEGER ::= 9", names[0])];
                for i in 1..chain {
                    defs.push(format!("{} INTEGER ::= {}", names[i], names[i - 1]));
                }
                let used = names.last().unwrap().clone();
                for (ctx, sug, exp) in [
                    ("assign-range", format!("Mid ::= INTEGER (0..{used})"), "Mid ::= INTEGER (0..9)".to_string()),
                    ("assign-single", format!("Mid ::= INTEGER ({used})"), "Mid ::= INTEGER (9)".to_string()),
                    ("assign-min", format!("Mid ::= INTEGER ({used}..20)"), "Mid ::= INTEGER (9..20)".to_string()),
                    ("component", format!("Mid ::= SEQUENCE {{ f INTEGER (0..{used}), g OCTET STRING (SIZE ({used})) }}"), "Mid ::= SEQUENCE { f INTEGER (0..9), g OCTET STRING (SIZE (9)) }".to_string()),
                    ("size", format!("Mid ::= SEQUENCE (SIZE (1..{used})) OF BOOLEAN"), "Mid ::= SEQUENCE (SIZE (1..9)) OF BOOLEAN".to_string()),
                    ("union", format!("Mid ::= INTEGER (0 | {used}..12)"), "Mid ::= INTEGER (0 | 9..12)".to_string()),
                    ("string-size", format!("Mid ::= UTF8String (SIZE (1..{used}))"), "Mid ::= UTF8String (SIZE (1..9))".to_string()),
                    ("bits-size", format!("Mid ::= BIT STRING (SIZE ({used}))"), "Mid ::= BIT STRING (SIZE (9))".to_string()),
                    ("alternative", format!("Mid ::= CHOICE {{ f INTEGER (0..{used}), g NULL }}"), "Mid ::= CHOICE { f INTEGER (0..9), g NULL }".to_string()),
                    ("of-element", format!("Mid ::= SEQUENCE OF INTEGER (0..{used})"), "Mid ::= SEQUENCE OF INTEGER (0..9)".to_string()),
                    ("nested-component", format!("Mid ::= SEQUENCE {{ n SEQUENCE {{ f INTEGER ({used}..99) }} }}"), "Mid ::= SEQUENCE { n SEQUENCE { f INTEGER (9..99) } }".to_string()),
                    ("extensible", format!("Mid ::= INTEGER (0..{used}, ...)"), "Mid ::= INTEGER (0..9, ...)".to_string()),
                ] {
                    let mut s = defs.clone();
                    s.push(sug);
                    let mut e = defs.clone();
                    e.push(exp);
                    push("valref", format!("valref|chain={chain}|names={pool}|ctx={ctx}"), s, e, vec!["Mid"]);
                }
            }
        }
        // named numbers of a referenced type
        for pool in ["Aaa", "Zzz"] {
            let d = format!("{pool} ::= INTEGER {{ lo(2), hi(9) }}");
            push("named-number", format!("named-number|names={pool}|ctx=assign"), vec![d.clone(), format!("Mid ::= {pool} (lo..hi)")], vec![d.clone(), format!("Mid ::= {pool} (2..9)")], vec!["Mid"]);
            push("named-number", format!("named-number|names={pool}|ctx=component"), vec![d.clone(), format!("Mid ::= SEQUENCE {{ f {pool} (lo..hi) }}")], vec![d.clone(), format!("Mid ::= SEQUENCE {{ f {pool} (2..9) }}")], vec!["Mid"]);
        }
        // named numbers / enumerals of the governing type while other types of the module define the same names
        // with other numbers (before and after the governing type in name order)
        for (gov, others) in [("Mmm", vec!["Aaa", "Zzz"]), ("Aaa", vec!["Mmm", "Zzz"]), ("Zzz", vec!["Aaa", "Mmm"])] {
            let mut defs = vec![format!("{gov} ::= INTEGER {{ lo(2), hi(9) }}")];
            for (i, o) in others.iter().enumerate() {
                defs.push(format!("{o} ::= INTEGER {{ lo({}), hi({}) }}", 20 + i, 70 + i));
            }
            for (ctx, sug, exp) in [
                ("assign", format!("Mid ::= {gov} (lo..hi)"), format!("Mid ::= {gov} (2..9)")),
                ("component", format!("Mid ::= SEQUENCE {{ f {gov} (lo..hi) }}"), format!("Mid ::= SEQUENCE {{ f {gov} (2..9) }}")),
                ("alternative", format!("Mid ::= CHOICE {{ f {gov} (lo..hi), g NULL }}"), format!("Mid ::= CHOICE {{ f {gov} (2..9), g NULL }}")),
                ("single", format!("Mid ::= {gov} (hi)"), format!("Mid ::= {gov} (9)")),
                ("default", format!("Mid ::= SEQUENCE {{ f {gov} DEFAULT hi }}"), format!("Mid ::= SEQUENCE {{ f {gov} DEFAULT 9 }}")),
            ] {
                let mut s2 = defs.clone();
                s2.push(sug);
                let mut e2 = defs.clone();
                e2.push(exp);
                push("named-number", format!("named-number|names={gov}|shared-names|ctx={ctx}"), s2, e2, vec!["Mid"]);
            }
        }
        // value-reference chains whose last link is written as a named number / enumeral of the governing type
        // (X.680 19.10): `v1 Lvl ::= hi`, `v2 Lvl ::= v1`, used as a constraint endpoint
        for chain in 1..=3usize {
            for pool in ["a", "z"] {
                for gov in ["Aaa", "Zzz"] {
                    let names: Vec<String> = (1..=chain).map(|i| format!("{pool}{pool}val{i}")).collect();
                    let mut defs = vec![format!("{gov} ::= INTEGER {{ lo(2), hi(9) }}"), format!("{} {gov} ::= hi", names[0])];
                    for i in 1..chain {
                        defs.push(format!("{} {gov} ::= {}", names[i], names[i - 1]));
                    }
                    let used = names.last().unwrap().clone();
                    for (ctx, sug, exp) in [
                        ("assign-range", format!("Mid ::= {gov} (0..{used})"), format!("Mid ::= {gov} (0..9)")),
                        ("assign-single", format!("Mid ::= {gov} ({used})"), format!("Mid ::= {gov} (9)")),
                        ("assign-min", format!("Mid ::= {gov} ({used}..20)"), format!("Mid ::= {gov} (9..20)")),
                        ("component", format!("Mid ::= SEQUENCE {{ f {gov} (0..{used}), g INTEGER (0..{used}) }}"), format!("Mid ::= SEQUENCE {{ f {gov} (0..9), g INTEGER (0..9) }}")),
                        ("size", format!("Mid ::= SEQUENCE (SIZE (1..{used})) OF BOOLEAN"), "Mid ::= SEQUENCE (SIZE (1..9)) OF BOOLEAN".to_string()),
                        ("plain-integer", format!("Mid ::= INTEGER (0..{used})"), "Mid ::= INTEGER (0..9)".to_string()),
                    ] {
                        let mut s = defs.clone();
                        s.push(sug);
                        let mut e = defs.clone();
                        e.push(exp);
                        push("valref", format!("valref|chain-to-named-number={chain}|names={pool}|gov={gov}|ctx={ctx}"), s, e, vec!["Mid"]);
                    }
                }
            }
        }
        // ---- (b) COMPONENTS OF
        let own =["o0 BOOLEAN", "o1 NULL OPTIONAL", "o2 UTF8String"];
        for kind in ["SEQUENCE", "SET"] {
            for pool in ["Aaa", "Zzz"] {
                for (ref_marker, ref_size) in [(false, 2usize), (true, 2), (false, 1), (false, 4), (true, 4)] {
                    // the referenced type has 1, 2 or 4 root components (the extension index of the including type
                    // moves by the number of included components, not by one per COMPONENTS OF)
                    let inlined = ["r0 INTEGER", "r0 INTEGER, r1 OCTET STRING OPTIONAL", "", "r0 INTEGER, r1 OCTET STRING OPTIONAL, r2 BOOLEAN, r3 UTF8String"][ref_size - 1];
                    let refd = if ref_marker { format!("{pool} ::= {kind} {{ {inlined}, ..., rx NULL }}") } else { format!("{pool} ::= {kind} {{ {inlined} }}") };
                    let size_label = if ref_size == 2 { String::new() } else { format!("|ref-size={ref_size}") };
                    for n in 0..=3usize {
                        for pos in 0..=n {
                            for (marker, with_addition) in [(None, false), (Some(0usize), true), (Some(n + 1), true), (Some(n + 1), false)] {
                                // component list of length n+1 with COMPONENTS OF at `pos`; optional marker before index m
                                let mut sug: Vec<String> = own[..n].iter().map(|s| s.to_string()).collect();
                                let mut exp = sug.clone();
                                sug.insert(pos, format!("COMPONENTS OF {pool}"));
                                exp.insert(pos, inlined.to_string());
                                if let Some(m) = marker {
                                    if m > sug.len() {
                                        continue;
                                    }
                                    // marker only after all root components here (additions after COMPONENTS OF in the root are covered by pos < n)
                                    let m = m.min(sug.len());
                                    if m == 0 {
                                        continue; // COMPONENTS OF inside extension additions is not valid notation
                                    }
                                    sug.insert(m, "...".into());
                                    exp.insert(m, "...".into());
                                    if with_addition {
                                        sug.push("late BOOLEAN".into());
                                        exp.push("late BOOLEAN".into());
                                    }
                                }
                                let s = vec![refd.clone(), format!("Mid ::= {kind} {{ {} }}", sug.join(", "))];
                                let e = vec![refd.clone(), format!("Mid ::= {kind} {{ {} }}", exp.join(", "))];
                                push("components-of", format!("components-of|kind={kind}|names={pool}|n={n}|pos={}|marker={}|ref-marker={ref_marker}{size_label}{}", if pos == 0 { "first" } else if pos == n { "last" } else { "mid" }, marker.is_some(), if marker.is_some() && !with_addition { "|no-additions" } else { "" }), s, e, vec!["Mid"]);
                            }
                        }
                    }
                    // two levels, the intermediate type sorting before and after the including one (last position: the
                    // placement of the included components is a known finding of its own)
                    for inter in ["Maa", "Mzz"] {
                        let l1 = format!("{inter} ::= {kind} {{ m0 BOOLEAN, COMPONENTS OF {pool} }}");
                        let l1e = format!("{inter} ::= {kind} {{ m0 BOOLEAN, {inlined} }}");
                        push("components-of", format!("components-of|kind={kind}|names={pool}+{inter}|two-levels-last|ref-marker={ref_marker}"), vec![refd.clone(), l1.clone(), format!("Mid ::= {kind} {{ t NULL, COMPONENTS OF {inter} }}")], vec![refd.clone(), l1e.clone(), format!("Mid ::= {kind} {{ t NULL, m0 BOOLEAN, {inlined} }}")], vec!["Mid"]);
                        // COMPONENTS OF a reference to a reference
                        let alias = format!("{inter} ::= {pool}");
                        push("components-of", format!("components-of|kind={kind}|names={pool}+{inter}|of-alias|ref-marker={ref_marker}"), vec![refd.clone(), alias.clone(), format!("Mid ::= {kind} {{ t NULL, COMPONENTS OF {inter} }}")], vec![refd.clone(), alias.clone(), format!("Mid ::= {kind} {{ t NULL, {inlined} }}")], vec!["Mid"]);
                    }
                    // two levels
                    let lvl1 = format!("Mmm ::= {kind} {{ m0 BOOLEAN, COMPONENTS OF {pool} }}");
                    let lvl1e = format!("Mmm ::= {kind} {{ m0 BOOLEAN, {inlined} }}");
                    push("components-of", format!("components-of|kind={kind}|names={pool}|two-levels|ref-marker={ref_marker}"), vec![refd.clone(), lvl1.clone(), format!("Mid ::= {kind} {{ COMPONENTS OF Mmm, t NULL }}")], vec![refd.clone(), lvl1e.clone(), format!("Mid ::= {kind} {{ m0 BOOLEAN, {inlined}, t NULL }}")], vec!["Mid", "Mmm"]);
                }
            }
        }
        // COMPONENTS OF inside anonymous nested types: two components / alternatives that both use it, the element
        // type of SEQUENCE OF / SET OF (top level and as a component)
        {
            let x = "Xx ::= SEQUENCE { x1 BOOLEAN, x2 INTEGER OPTIONAL }";
            let y = "Yy ::= SEQUENCE { y1 NULL }";
            let (xi, yi) = ("x1 BOOLEAN, x2 INTEGER OPTIONAL", "y1 NULL");
            for (lab, sug, exp) in [
                ("two-components", "Mid ::= SEQUENCE { p SEQUENCE { COMPONENTS OF Xx }, q SEQUENCE { COMPONENTS OF Yy } }".to_string(), format!("Mid ::= SEQUENCE {{ p SEQUENCE {{ {xi} }}, q SEQUENCE {{ {yi} }} }}")),
                ("three-components", "Mid ::= SET { o BOOLEAN, p SEQUENCE { COMPONENTS OF Xx }, q SET { COMPONENTS OF Yy }, r SEQUENCE { COMPONENTS OF Xx } }".to_string(), format!("Mid ::= SET {{ o BOOLEAN, p SEQUENCE {{ {xi} }}, q SET {{ {yi} }}, r SEQUENCE {{ {xi} }} }}")),
                ("two-alternatives", "Mid ::= CHOICE { p SEQUENCE { COMPONENTS OF Xx }, q SEQUENCE { COMPONENTS OF Yy } }".to_string(), format!("Mid ::= CHOICE {{ p SEQUENCE {{ {xi} }}, q SEQUENCE {{ {yi} }} }}")),
                ("seqof-element", "Mid ::= SEQUENCE OF SEQUENCE { COMPONENTS OF Xx }".to_string(), format!("Mid ::= SEQUENCE OF SEQUENCE {{ {xi} }}")),
                ("setof-element", "Mid ::= SET OF SEQUENCE { COMPONENTS OF Xx }".to_string(), format!("Mid ::= SET OF SEQUENCE {{ {xi} }}")),
                ("seqof-component", "Mid ::= SEQUENCE { l SEQUENCE OF SEQUENCE { COMPONENTS OF Xx }, m SET OF SET { COMPONENTS OF Yy } }".to_string(), format!("Mid ::= SEQUENCE {{ l SEQUENCE OF SEQUENCE {{ {xi} }}, m SET OF SET {{ {yi} }} }}")),
                ("nested-twice", "Mid ::= SEQUENCE { p SEQUENCE { q SEQUENCE { COMPONENTS OF Xx }, r SEQUENCE { COMPONENTS OF Yy } } }".to_string(), format!("Mid ::= SEQUENCE {{ p SEQUENCE {{ q SEQUENCE {{ {xi} }}, r SEQUENCE {{ {yi} }} }} }}")),
            ] {
                push("components-of", format!("components-of|nested|{lab}"), vec![x.to_string(), y.to_string(), sug], vec![x.to_string(), y.to_string(), exp], vec!["Mid"]);
            }
        }
        // ---- (c) parameterized types
        for pool in ["Aaa", "Zzz"] {
            let p1 = format!("{pool} {{ T }} ::= SEQUENCE {{ v T, n INTEGER }}");
            push("parameterized", format!("parameterized|names={pool}|params=1|inst=1"), vec![p1.clone(), format!("Mid ::= {pool} {{ BOOLEAN }}")], vec!["Mid ::= SEQUENCE { v BOOLEAN, n INTEGER }".into()], vec!["Mid"]);
            push("parameterized", format!("parameterized|names={pool}|params=1|inst=3"), vec![p1.clone(), format!("Mid ::= {pool} {{ BOOLEAN }}"), format!("Mie ::= {pool} {{ UTF8String }}"), format!("Mif ::= {pool} {{ Mid }}")], vec!["Mid ::= SEQUENCE { v BOOLEAN, n INTEGER }".into(), "Mie ::= SEQUENCE { v UTF8String, n INTEGER }".into(), "Mif ::= SEQUENCE { v Mid, n INTEGER }".into()], vec!["Mid", "Mie", "Mif"]);
            let p2 = format!("{pool} {{ INTEGER:max, T }} ::= SEQUENCE {{ v T, n INTEGER (0..max) }}");
            push("parameterized", format!("parameterized|names={pool}|params=2|inst=2"), vec![p2.clone(), format!("Mid ::= {pool} {{ 7, BOOLEAN }}"), format!("Mie ::= {pool} {{ 300, NULL }}")], vec!["Mid ::= SEQUENCE { v BOOLEAN, n INTEGER (0..7) }".into(), "Mie ::= SEQUENCE { v NULL, n INTEGER (0..300) }".into()], vec!["Mid", "Mie"]);
            // one instantiation of a template with a governed dummy and a dummy type, in both parameter orders
            push("parameterized", format!("parameterized|names={pool}|form=value-then-type|inst=1"), vec![p2.clone(), format!("Mid ::= {pool} {{ 7, BOOLEAN }}")], vec!["Mid ::= SEQUENCE { v BOOLEAN, n INTEGER (0..7) }".into()], vec!["Mid"]);
            let p2r = format!("{pool} {{ T, INTEGER:max }} ::= SEQUENCE {{ v T, n INTEGER (0..max) }}");
            push("parameterized", format!("parameterized|names={pool}|form=type-then-value|inst=1"), vec![p2r.clone(), format!("Mid ::= {pool} {{ BOOLEAN, 7 }}")], vec!["Mid ::= SEQUENCE { v BOOLEAN, n INTEGER (0..7) }".into()], vec!["Mid"]);
            let p3 = format!("{pool} {{ T, U, INTEGER:max }} ::= CHOICE {{ a T, b U, c INTEGER (0..max) }}");
            push("parameterized", format!("parameterized|names={pool}|params=3|inst=1"), vec![p3.clone(), format!("Mid ::= {pool} {{ BOOLEAN, NULL, 9 }}")], vec!["Mid ::= CHOICE { a BOOLEAN, b NULL, c INTEGER (0..9) }".into()], vec!["Mid"]);
        }
        for pool in ["Aaa", "Zzz"] {
            let of = format!("{pool} {{ T }} ::= SEQUENCE OF T");
            push("parameterized", format!("parameterized|names={pool}|form=of"), vec![of.clone(), format!("Mid ::= {pool} {{ BOOLEAN }}")], vec!["Mid ::= SEQUENCE OF BOOLEAN".into()], vec!["Mid"]);
            let twice = format!("{pool} {{ T }} ::= SEQUENCE {{ v T OPTIONAL, w SEQUENCE OF T }}");
            push("parameterized", format!("parameterized|names={pool}|form=used-twice+constrained-arg"), vec![twice.clone(), format!("Mid ::= {pool} {{ INTEGER (0..7) }}")], vec!["Mid ::= SEQUENCE { v INTEGER (0..7) OPTIONAL, w SEQUENCE OF INTEGER (0..7) }".into()], vec!["Mid"]);
            let sz = format!("{pool} {{ INTEGER:n }} ::= OCTET STRING (SIZE (n))");
            push("parameterized", format!("parameterized|names={pool}|form=size-value"), vec![sz.clone(), format!("Mid ::= {pool} {{ 4 }}")], vec!["Mid ::= OCTET STRING (SIZE (4))".into()], vec!["Mid"]);
            let rg = format!("{pool} {{ INTEGER:lo, INTEGER:hi }} ::= INTEGER (lo..hi)");
            push("parameterized", format!("parameterized|names={pool}|form=two-values"), vec![rg.clone(), format!("Mid ::= {pool} {{ 1, 5 }}"), format!("Mie ::= {pool} {{ -3, 300 }}")], vec!["Mid ::= INTEGER (1..5)".into(), "Mie ::= INTEGER (-3..300)".into()], vec!["Mid", "Mie"]);
            let p1 = format!("{pool} {{ T }} ::= SEQUENCE {{ v T, n INTEGER }}");
            push("parameterized", format!("parameterized|names={pool}|form=inline-constructed-arg"), vec![p1.clone(), format!("Mid ::= {pool} {{ SEQUENCE {{ a BOOLEAN }} }}")], vec!["Mid ::= SEQUENCE { v SEQUENCE { a BOOLEAN }, n INTEGER }".into()], vec!["Mid"]);
            push("parameterized", format!("parameterized|names={pool}|form=reference-arg"), vec![p1.clone(), "Tgt ::= INTEGER (0..7)".into(), format!("Mid ::= {pool} {{ Tgt }}")], vec!["Tgt ::= INTEGER (0..7)".into(), "Mid ::= SEQUENCE { v Tgt, n INTEGER }".into()], vec!["Mid"]);
            // X.683 8.3: a dummy reference hides a definition of the same name
            let shadow = format!("{pool} {{ INTEGER:max }} ::= INTEGER (0..max)");
            push("parameterized", format!("parameterized|names={pool}|form=dummy-hides-module-value"), vec!["max INTEGER ::= 99".into(), shadow.clone(), format!("Mid ::= {pool} {{ 5 }}")], vec!["max INTEGER ::= 99".into(), "Mid ::= INTEGER (0..5)".into()], vec!["Mid"]);
            // ... every dummy reference of the list, not only the first (both names are also module values)
            let shadow2 = format!("{pool} {{ INTEGER:lo, INTEGER:hi }} ::= INTEGER (lo..hi)");
            push("parameterized", format!("parameterized|names={pool}|form=two-dummies-hide-module-values"), vec!["lo INTEGER ::= 1".into(), "hi INTEGER ::= 10".into(), shadow2.clone(), format!("Mid ::= {pool} {{ -5, 300 }}")], vec!["lo INTEGER ::= 1".into(), "hi INTEGER ::= 10".into(), "Mid ::= INTEGER (-5..300)".into()], vec!["Mid"]);
            let shadow3 = format!("{pool} {{ INTEGER:lo, INTEGER:hi }} ::= SEQUENCE {{ f INTEGER (lo..hi), g SEQUENCE OF INTEGER (0..hi) }}");
            push("parameterized", format!("parameterized|names={pool}|form=two-dummies-hide-module-values-component"), vec!["lo INTEGER ::= 1".into(), "hi INTEGER ::= 10".into(), shadow3.clone(), format!("Mid ::= {pool} {{ 0, 70000 }}")], vec!["lo INTEGER ::= 1".into(), "hi INTEGER ::= 10".into(), "Mid ::= SEQUENCE { f INTEGER (0..70000), g SEQUENCE OF INTEGER (0..70000) }".into()], vec!["Mid"]);
            let shadow_t = format!("{pool} {{ Tgt }} ::= SEQUENCE {{ v Tgt }}");
            push("parameterized", format!("parameterized|names={pool}|form=dummy-hides-module-type"), vec!["Tgt ::= INTEGER (0..7)".into(), shadow_t.clone(), format!("Mid ::= {pool} {{ BOOLEAN }}")], vec!["Tgt ::= INTEGER (0..7)".into(), "Mid ::= SEQUENCE { v BOOLEAN }".into()], vec!["Mid"]);
            let tagged = format!("{pool} {{ T }} ::= [APPLICATION 9] SEQUENCE {{ v T }}");
            push("parameterized", format!("parameterized|names={pool}|form=tagged-template"), vec![tagged.clone(), format!("Mid ::= {pool} {{ BOOLEAN }}")], vec!["Mid ::= [APPLICATION 9] SEQUENCE { v BOOLEAN }".into()], vec!["Mid"]);
            let tagged_ref = format!("{pool} {{ T }} ::= [3] T");
            push("parameterized", format!("parameterized|names={pool}|form=tagged-parameter"), vec![tagged_ref.clone(), format!("Mid ::= {pool} {{ INTEGER }}")], vec!["Mid ::= [3] INTEGER".into()], vec!["Mid"]);
            let comp = format!("{pool} {{ T }} ::= SEQUENCE {{ v T, n INTEGER }}");
            push("parameterized", format!("parameterized|names={pool}|form=as-component"), vec![comp.clone(), format!("Mid ::= SEQUENCE {{ c {pool} {{ BOOLEAN }}, d NULL }}")], vec!["Mid ::= SEQUENCE { c SEQUENCE { v BOOLEAN, n INTEGER }, d NULL }".into()], vec!["Mid"]);
        }
        // ---- (d) selection types
        for pool in ["Aaa", "Zzz"] {
            let alts = [("a", "INTEGER (0..7)"), ("b", "BOOLEAN"), ("c", "SEQUENCE { x NULL }")];
            for n in 1..=3usize {
                let ch = format!("{pool} ::= CHOICE {{ {} }}", alts[..n].iter().map(|(a, t)| format!("{a} {t}")).collect::<Vec<_>>().join(", "));
                for k in 0..n {
                    push("selection", format!("selection|names={pool}|n={n}|alt={k}"), vec![ch.clone(), format!("Mid ::= {} < {pool}", alts[k].0)], vec![ch.clone(), format!("Mid ::= {}", alts[k].1)], vec!["Mid"]);
                    push("selection", format!("selection|names={pool}|n={n}|alt={k}|component"), vec![ch.clone(), format!("Mid ::= SEQUENCE {{ f {} < {pool} }}", alts[k].0)], vec![ch.clone(), format!("Mid ::= SEQUENCE {{ f {} }}", alts[k].1)], vec!["Mid"]);
                }
            }
        }
        for pool in ["Aaa", "Zzz"] {
            let ch = format!("{pool} ::= CHOICE {{ a Tgt, b [3] BOOLEAN, c SEQUENCE OF Tgt }}");
            let tgt = "Tgt ::= INTEGER (0..7)".to_string();
            push("selection", format!("selection|names={pool}|alt-type=reference"), vec![tgt.clone(), ch.clone(), format!("Mid ::= a < {pool}")], vec![tgt.clone(), ch.clone(), "Mid ::= Tgt".into()], vec!["Mid"]);
            push("selection", format!("selection|names={pool}|alt-type=tagged"), vec![tgt.clone(), ch.clone(), format!("Mid ::= b < {pool}")], vec![tgt.clone(), ch.clone(), "Mid ::= [3] BOOLEAN".into()], vec!["Mid"]);
            // the tagged alternative selected inside a component / an alternative (the tag travels with the type)
            push("selection", format!("selection|names={pool}|alt-type=tagged|component"), vec![tgt.clone(), ch.clone(), format!("Mid ::= SEQUENCE {{ own [7] NULL, s b < {pool} }}")], vec![tgt.clone(), ch.clone(), "Mid ::= SEQUENCE { own [7] NULL, s [3] BOOLEAN }".into()], vec!["Mid"]);
            push("selection", format!("selection|names={pool}|alt-type=tagged|set-component"), vec![tgt.clone(), ch.clone(), format!("Mid ::= SET {{ own [7] NULL, s b < {pool} OPTIONAL }}")], vec![tgt.clone(), ch.clone(), "Mid ::= SET { own [7] NULL, s [3] BOOLEAN OPTIONAL }".into()], vec!["Mid"]);
            push("selection", format!("selection|names={pool}|alt-type=tagged|alternative"), vec![tgt.clone(), ch.clone(), format!("Mid ::= CHOICE {{ own [7] NULL, s b < {pool} }}")], vec![tgt.clone(), ch.clone(), "Mid ::= CHOICE { own [7] NULL, s [3] BOOLEAN }".into()], vec!["Mid"]);
            push("selection", format!("selection|names={pool}|alt-type=of-reference"), vec![tgt.clone(), ch.clone(), format!("Mid ::= c < {pool}")], vec![tgt.clone(), ch.clone(), "Mid ::= SEQUENCE OF Tgt".into()], vec!["Mid"]);
        }
        // ---- combinations: an expansion step copies a constraint that itself needs a value reference / named number resolved
        for pool in ["Aaa", "Zzz"] {
            for vpool in ["aaval", "zzval"] {
                let v = format!("{vpool} INTEGER ::= 9");
                let nn = "Nn ::= INTEGER { lo(2), hi(9) }".to_string();
                let lab = |what: &str| format!("combined|{what}|names={pool}+{vpool}");
                let ch = format!("{pool} ::= CHOICE {{ a INTEGER (0..{vpool}), b OCTET STRING (SIZE (1..{vpool})), c Nn (lo..hi) }}");
                push("combined", lab("selection-of-valref-alternative"), vec![v.clone(), nn.clone(), ch.clone(), format!("Mid ::= a < {pool}")], vec![v.clone(), nn.clone(), ch.clone(), "Mid ::= INTEGER (0..9)".into()], vec!["Mid"]);
                push("combined", lab("selection-of-size-valref-alternative"), vec![v.clone(), nn.clone(), ch.clone(), format!("Mid ::= b < {pool}")], vec![v.clone(), nn.clone(), ch.clone(), "Mid ::= OCTET STRING (SIZE (1..9))".into()], vec!["Mid"]);
                push("combined", lab("selection-of-named-number-alternative"), vec![v.clone(), nn.clone(), ch.clone(), format!("Mid ::= c < {pool}")], vec![v.clone(), nn.clone(), ch.clone(), "Mid ::= Nn (2..9)".into()], vec!["Mid"]);
                push("combined", lab("selection-component-of-valref-alternative"), vec![v.clone(), nn.clone(), ch.clone(), format!("Mid ::= SEQUENCE {{ f a < {pool}, g BOOLEAN }}")], vec![v.clone(), nn.clone(), ch.clone(), "Mid ::= SEQUENCE { f INTEGER (0..9), g BOOLEAN }".into()], vec!["Mid"]);
                let sq = format!("{pool} ::= SEQUENCE {{ r0 INTEGER (0..{vpool}), r1 Nn (lo..hi) OPTIONAL }}");
                push("combined", lab("components-of-valref-members"), vec![v.clone(), nn.clone(), sq.clone(), format!("Mid ::= SEQUENCE {{ o0 BOOLEAN, COMPONENTS OF {pool} }}")], vec![v.clone(), nn.clone(), sq.clone(), "Mid ::= SEQUENCE { o0 BOOLEAN, r0 INTEGER (0..9), r1 Nn (2..9) OPTIONAL }".into()], vec!["Mid"]);
                let pt = format!("{pool} {{ T }} ::= SEQUENCE {{ v T, n INTEGER (0..{vpool}) }}");
                push("combined", lab("parameterized-with-valref-body-and-argument"), vec![v.clone(), pt.clone(), format!("Mid ::= {pool} {{ INTEGER (1..{vpool}) }}")], vec![v.clone(), "Mid ::= SEQUENCE { v INTEGER (1..9), n INTEGER (0..9) }".into()], vec!["Mid"]);
            }
        }
        for pool in ["AAA", "ZZZ"] {
            for vpool in ["aaval", "zzval"] {
                let v = format!("{vpool} INTEGER ::= 9");
                let cl = format!("{pool} ::= CLASS {{ &id INTEGER (0..{vpool}) UNIQUE, &Type }}");
                push("combined", format!("combined|class-field-with-valref|names={pool}+{vpool}"), vec![v.clone(), cl.clone(), format!("Mid ::= {pool}.&id")], vec![v.clone(), cl.clone(), "Mid ::= INTEGER (0..9)".into()], vec!["Mid"]);
                push("combined", format!("combined|class-field-component-with-valref|names={pool}+{vpool}"), vec![v.clone(), cl.clone(), format!("Mid ::= SEQUENCE {{ f {pool}.&id }}")], vec![v.clone(), cl.clone(), "Mid ::= SEQUENCE { f INTEGER (0..9) }".into()], vec!["Mid"]);
            }
        }
        // ---- (e) fixed-type field of an object class
        for pool in ["AAA", "ZZZ"] {
            let cl = format!("{pool} ::= CLASS {{ &id INTEGER (0..255) UNIQUE, &flag BOOLEAN, &code OCTET STRING (SIZE (2)), &ref Tgt, &Type }}");
            let tgt = "Tgt ::= INTEGER (0..7)".to_string();
            for (f, t) in [("flag", "BOOLEAN"), ("code", "OCTET STRING (SIZE (2))"), ("ref", "Tgt")] {
                push("class-field", format!("class-field|names={pool}|field={f}|ctx=assign"), vec![tgt.clone(), cl.clone(), format!("Mid ::= {pool}.&{f}")], vec![tgt.clone(), cl.clone(), format!("Mid ::= {t}")], vec!["Mid"]);
                push("class-field", format!("class-field|names={pool}|field={f}|ctx=component"), vec![tgt.clone(), cl.clone(), format!("Mid ::= SEQUENCE {{ f {pool}.&{f}, g BOOLEAN }}")], vec![tgt.clone(), cl.clone(), format!("Mid ::= SEQUENCE {{ f {t}, g BOOLEAN }}")], vec!["Mid"]);
            }
        }
        for pool in ["AAA", "ZZZ"] {
            let cl = format!("{pool} ::= CLASS {{ &id INTEGER (0..255) UNIQUE, &Type }}");
            push("class-field", format!("class-field|names={pool}|ctx=assign"), vec![cl.clone(), format!("Mid ::= {pool}.&id")], vec![cl.clone(), "Mid ::= INTEGER (0..255)".into()], vec!["Mid"]);
            push("class-field", format!("class-field|names={pool}|ctx=component"), vec![cl.clone(), format!("Mid ::= SEQUENCE {{ f {pool}.&id, g BOOLEAN }}")], vec![cl.clone(), "Mid ::= SEQUENCE { f INTEGER (0..255), g BOOLEAN }".into()], vec!["Mid"]);
            push("class-field", format!("class-field|names={pool}|ctx=set-component"), vec![cl.clone(), format!("Mid ::= SET {{ f {pool}.&id, g BOOLEAN }}")], vec![cl.clone(), "Mid ::= SET { f INTEGER (0..255), g BOOLEAN }".into()], vec!["Mid"]);
            push("class-field", format!("class-field|names={pool}|ctx=alternative"), vec![cl.clone(), format!("Mid ::= CHOICE {{ f {pool}.&id, g BOOLEAN }}")], vec![cl.clone(), "Mid ::= CHOICE { f INTEGER (0..255), g BOOLEAN }".into()], vec!["Mid"]);
            push("class-field", format!("class-field|names={pool}|ctx=of-element-component"), vec![cl.clone(), format!("Mid ::= SEQUENCE OF SEQUENCE {{ f {pool}.&id }}")], vec![cl.clone(), "Mid ::= SEQUENCE OF SEQUENCE { f INTEGER (0..255) }".into()], vec!["Mid"]);
            push("class-field", format!("class-field|names={pool}|ctx=setof-element-component"), vec![cl.clone(), format!("Mid ::= SET OF SEQUENCE {{ f {pool}.&id }}")], vec![cl.clone(), "Mid ::= SET OF SEQUENCE { f INTEGER (0..255) }".into()], vec!["Mid"]);
            push("class-field", format!("class-field|names={pool}|ctx=nested-set"), vec![cl.clone(), format!("Mid ::= SEQUENCE {{ n SET {{ f {pool}.&id }} }}")], vec![cl.clone(), "Mid ::= SEQUENCE { n SET { f INTEGER (0..255) } }".into()], vec!["Mid"]);
        }
        out
    }
    fn check(&self, c: &Case) -> CaseResult {
        let s_srcs = sugared_sources(c);
        let s_src = s_srcs.join("\n=====\n");
        let e_src = module("M", &c.tagdef, false, &c.expanded.join("\n"));
        let (so, eo) = (compile_rasn(&s_srcs, &Cfg::default()), compile1(&e_src));
        // key without the textual order and name pool (those are what must not matter); they go into the detail
        let base_label: String = c.label.split('|').filter(|p| !p.starts_with("order=") && !p.starts_with("names=")).collect::<Vec<_>>().join("|");
        let order = c.label.split('|').find(|p| p.starts_with("order=")).unwrap_or("");
        let names = c.label.split('|').find(|p| p.starts_with("names=")).unwrap_or("");
        let kb = format!("expand|{base_label}");
        let ctx = format!("label {} tagging {}\n--- sugared ---\n{s_src}\n--- expanded ---\n{e_src}", c.label, c.tagdef);
        if let Outcome::Panic { message, location } = &so {
            return CaseResult { discs: vec![Disc::new(format!("panic|{location}"), format!("{message}\n{ctx}"))], nontrivial: false, outcome: "panic".into(), skipped: None };
        }
        let (eg, ew) = match eo.ok_any() {
            Some(x) => x,
            None => return CaseResult::skip("expanded-form-rejected"),
        };
        let (sg, sw) = match so.ok_any() {
            Some(x) => x,
            None => return CaseResult { discs: vec![Disc::new(format!("{kb}|kind=rejected:{}", so.class()), format!("expanded form compiles, sugared form gives {}\n{ctx}", so.brief()))], nontrivial: false, outcome: "sugar-rejected".into(), skipped: None },
        };
        let mut discs = vec![];
        if sw.len() != ew.len() {
            discs.push(Disc::new(format!("{kb}|kind=warnings|{}|{}", if sw.len() > ew.len() { "more" } else { "fewer" }, order), format!("sugared {sw:?} vs expanded {ew:?}\n{ctx}")));
        }
        let (sp, ep) = match (project(sg), project(eg)) {
            (Ok(a), Ok(b)) => (a.without_docs(), b.without_docs()),
            _ => return CaseResult { discs: vec![Disc::new(format!("{kb}|kind=unparsable"), ctx)], nontrivial: false, outcome: "unparsable".into(), skipped: None },
        };
        let (sm, em) = match (if c.split { sp.module("m") } else { sp.only() }, ep.only()) {
            (Some(a), Some(b)) => (a, b),
            _ => return CaseResult::skip("module-count"),
        };
        for t in &c.targets {
            let rn = title(t);
            // the target item and every item hoisted from it (name prefix), including impls / default fns
            let pick = |m: &ModProj| -> Vec<Item> {
                m.items
                    .iter()
                    .filter(|i| {
                        let n = i.name();
                        match i {
                            Item::Impl { self_ty, .. } => self_ty.starts_with(&rn),
                            Item::Fn { name, .. } => name.starts_with(&rn.to_lowercase()),
                            Item::Struct { .. } | Item::Enum { .. } => n == rn || (n.starts_with(&rn) && n.len() > rn.len() && n[rn.len()..].chars().next().map_or(false, |ch| ch.is_ascii_uppercase())) || n == format!("Anonymous{rn}"),
                            _ => false,
                        }
                    })
                    .cloned()
                    .collect()
            };
            let (a, b) = (pick(sm), pick(em));
            if a.is_empty() && !b.is_empty() {
                discs.push(Disc::new(format!("{kb}|kind=target-missing|{names}"), format!("no bindings for {t} in the sugared module\n{ctx}\n--- sugared output ---\n{sg}")));
            } else if a != b {
                let first = a.iter().zip(b.iter()).find(|(x, y)| x != y).map(|(x, _)| format!("{}:{}", x.kind(), x.name())).unwrap_or_else(|| "item-count".into());
                let what = match (a.iter().find(|i| i.name() == rn), b.iter().find(|i| i.name() == rn)) {
                    (Some(Item::Struct { fields: fa, .. }), Some(Item::Struct { fields: fb, .. })) => {
                        let na: Vec<&str> = fa.iter().map(|f| f.name.as_str()).collect();
                        let nb: Vec<&str> = fb.iter().map(|f| f.name.as_str()).collect();
                        if na != nb {
                            let mut x = na.clone();
                            let mut y = nb.clone();
                            x.sort();
                            y.sort();
                            if x == y { "member-order" } else { "member-set" }
                        } else {
                            "member-detail"
                        }
                    }
                    _ => "item",
                };
                discs.push(Disc::new(format!("{kb}|kind=differs:{what}"), format!("bindings of {t} differ (first differing item {first}; {order}, {names})\n{ctx}\n--- sugared items ---\n{a:?}\n--- expanded items ---\n{b:?}")));
            }
        }
        CaseResult { discs, nontrivial: true, outcome: format!("cmp:{}", c.sugar), skipped: None }
    }
}
